(* Scale.v — pygradflow/scale.py: power-of-two scaling (Scaling, ScaledProblem). The automatic
   scalings (frexp-based) are in AutoScale.v. *)
From Verif Require Export Problem.

Record scaling := mk_scaling { vw : list Z; cw : list Z; ow : Z }.

Definition ldexpv (v : vec) (w : list Z) : vec := map2 ldexp v w.
Definition zneg (w : list Z) : list Z := map Z.opp w.
Definition dual_w (sc : scaling) : list Z := map (fun c => c - ow sc)%Z (cw sc).     (* _dual_weights  *)
Definition bound_w (sc : scaling) : list Z := map (fun v => v - ow sc)%Z (vw sc).    (* _bound_weights *)

Definition scale_primal sc x := ldexpv x (vw sc).
Definition unscale_primal sc x := ldexpv x (zneg (vw sc)).
Definition scale_dual sc y := ldexpv y (zneg (dual_w sc)).
Definition unscale_dual sc y := ldexpv y (dual_w sc).
Definition scale_bounds_dual sc d := ldexpv d (zneg (bound_w sc)).
Definition unscale_bounds_dual sc d := ldexpv d (bound_w sc).

Definition scaled_problem (sc : scaling) (P : problem) : problem :=
  let ox := fun x => ldexpv x (zneg (vw sc)) in                       (* _orig_x *)
  {| nvars := nvars P; ncons := ncons P;
     p_obj := fun x => ldexp (p_obj P (ox x)) (ow sc);
     p_grad := fun x => map (fun g => ldexp g (ow sc)) (ldexpv (p_grad P (ox x)) (zneg (vw sc)));
     p_cons := fun x => ldexpv (p_cons P (ox x)) (cw sc);
     p_jac := fun x =>
       map2 (fun row ci => map2 (fun v vj => ldexp v (ci - vj)) row (vw sc)) (p_jac P (ox x)) (cw sc);
     p_hess := fun x y =>
       let yo := ldexpv y (dual_w sc) in
       map2 (fun row vi => map2 (fun v vj => ldexp v (ow sc - vi - vj)) row (vw sc))
            (p_hess P (ox x) yo) (vw sc);
     var_lb := map2 ldexp_b (var_lb P) (vw sc);
     var_ub := map2 ldexp_b (var_ub P) (vw sc);
     cons_lb := map2 ldexp_b (cons_lb P) (cw sc);
     cons_ub := map2 ldexp_b (cons_ub P) (cw sc) |}.
