(* LoopInst.v — a small concrete instance of the loop model (scalar iterates), used by the
   non-vacuity examples of the loop theorems.  Definitions only. *)
From Verif Require Export Loop.

Definition ex_pdata (x : Q) : pdata :=
  {| d_m0 := false; d_ynorm := qabs x; d_yprod := 0; d_viol := 0; d_infeas_inf := 0; d_bound := None;
     d_entry := (x, 0); d_lag_entry := fun _ => (x, 0) |}.

Definition ex_cfg (lim : option nat) (tl : option Q) (pol : policy) (collect : bool) : cfg :=
  mk_cfg lim tl (1 # 4) (- (100)) 1 64 pol
         {| pp_rho := 1 # 2; pp_opt_tol := 1 # 4; pp_infeas_tol := 0 |} (Some 2) collect.

(* trial i: accepted halving step / failure / rejection, in turn *)
Definition ex_orc : oracle Q := fun i x _ dt _ =>
  match Nat.modulo i 3 with
  | 0%nat => Ans Q (x / 2) (1 / dt / 2) true 1
  | 1%nat => Fail Q 1
  | _ => Ans Q (x / 2) (2 * (1 / dt)) false 0
  end.

Definition ex_clk : clock := fun k => inject_Z (Z.of_nat k).

Definition ex_solve (fuel : nat) (c : cfg) (x0 : Q) : outcome Q :=
  solve Q (fun x => qabs x) (fun _ => false) (fun x => x) (fun _ => true) ex_pdata
        (fun a b => qabs (a - b)) fuel c ex_orc ex_clk x0.

Definition ex_summary (o : outcome Q) :=
  match o with
  | Done _ s f => Some (s, itn Q f, nacc Q f, Qred (cur Q f), Qred (lamb Q f), length (announced Q f),
                        map Qred (times Q f), map Qred (path Q f))
  | _ => None
  end.
