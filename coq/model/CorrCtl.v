(* CorrCtl.v — entry point of the correspondence unit `stepctl`: the real step controllers' compute_step with
   a scripted Newton stream, residual norms, PI output, evaluation faults and a virtual clock. *)
From Verif Require Export StepCtl.

Record ccase := mk_ccase {
  cc_kind : nat; cc_prm : cparams; cc_lamb : Q; cc_res0 : Q; cc_pi : Q;
  cc_passed : list bool; cc_stream : list nstep; cc_evalbad : list nat;
  ce_id : nat; ce_lamb : Q; ce_acc : bool
}.

Definition ck_of (k : nat) : ckind :=
  match k with 0%nat => CExact | 1%nat => CFixed | 2%nat => CDistance | _ => CResiduum end.

Definition cc_run (c : ccase) : cres :=
  compute_step (cc_prm c) (cc_lamb c) (cc_res0 c) (fun _ => cc_pi c) (fun k => nth k (cc_passed c) false)
               (ck_of (cc_kind c)) (cc_stream c) (fun id => negb (existsb (Nat.eqb id) (cc_evalbad c))).

Definition check_stepctl (c : ccase) : bool :=
  match cc_run c with
  | CAns id l a => Nat.eqb id (ce_id c) && qeqb l (ce_lamb c) && Bool.eqb a (ce_acc c)
  | _ => false
  end.

(* tag = kind + 10 * (1 accepted / 2 rejected by the controller / 3 failed) *)
Definition tag_stepctl (c : ccase) : nat :=
  (cc_kind c + 10 * match ctl_step (cc_prm c) (cc_lamb c) (cc_res0 c) (fun _ => cc_pi c)
                               (fun k => nth k (cc_passed c) false) (ck_of (cc_kind c)) (cc_stream c), cc_run c with
                     | CRaise, _ => 3
                     | _, CAns 0 _ false => 3
                     | _, CAns _ _ true => 1
                     | _, _ => 2
                     end)%nat.
