(* CorrLoop.v — entry point of the correspondence unit `loop`: the real Solver.solve driven by a
   scripted step oracle and a virtual clock, against Loop.run on the same script. *)
From Verif Require Export Loop Transform Iterate.

Definition LIt := (vec * vec)%type.

Section Inst.
  Variable P : problem.           (* the internal (transformed) problem *)
  Variable atol otol itol : Q.    (* active_tol, opt_tol, local_infeas_tol *)

  Definition l_total (z : LIt) := total_res P atol (fst z) (snd z).
  Definition l_linf (z : LIt) := locally_infeasible P atol (fst z) otol itol.
  Definition l_obj (z : LIt) := it_obj P (fst z).
  Definition l_feas (z : LIt) := is_feasible P (fst z) otol.
  Definition l_pdata (z : LIt) : pdata :=
    let x := fst z in let y := snd z in
    let c := it_cons P x in
    {| d_m0 := Nat.eqb (ncons P) 0;
       d_ynorm := norminf y;
       d_yprod := qabs (dot y c);
       d_viol := (1 # 2) * dot c c;
       d_infeas_inf := norminf (tmvec (nvars P) (it_jac P x) c);
       d_bound := None;
       d_entry := (it_obj P x, cons_violation P x);
       d_lag_entry := fun rho =>
         (normsq (aug_lag_deriv_x P x y rho) + normsq c, qabs (hd 0 c)) |}.
End Inst.

Inductive sans := SAns (x y : vec) (lamb : Q) (acc : bool) (checks : nat) | SFail (checks : nat).

Record lcase := mk_lcase {
  lc_spec : qspec; lc_sc : option scaling;
  lc_atol : Q; lc_otol : Q; lc_itol : Q;
  lc_iter_limit : option nat; lc_time_limit : option Q; lc_obj_lower : Q;
  lc_lamb_init : Q; lc_lamb_max : Q; lc_policy : policy; lc_rho : Q;
  lc_interval : option Q; lc_collect : bool;
  lc_script : list sans; lc_clock : list Q;
  lc_x0 : vec; lc_y0 : vec;                               (* user-space start *)
  (* implementation *)
  le_kind : nat;             (* 0..4 status, 10 lambda error, 11 AssertionError, 12 other exception *)
  le_iters : nat; le_nacc : nat;
  le_x : vec; le_y : vec; le_d : vec;                     (* user-space result *)
  le_announced : list (vec * vec * bool);                 (* (z_from, z_to, accept) *)
  le_trials : list (Q * Q * bool * Q * bool);             (* rho, dt, display |-> lamb, accepted *)
  le_path : list vec; le_times : list Q;
  le_reads : nat
}.

Definition status_code (s : status) : nat :=
  match s with Optimal => 0 | IterationLimit => 1 | TimeLimit => 2 | Unbounded => 3 | LocallyInfeasible => 4 end.

Definition lc_run (c : lcase) : outcome LIt :=
  let P := trans_problem (lc_sc c) (quad_problem (lc_spec c)) in
  let cf := mk_cfg (lc_iter_limit c) (lc_time_limit c) (lc_otol c) (lc_obj_lower c) (lc_lamb_init c)
                   (lc_lamb_max c) (lc_policy c)
                   {| pp_rho := lc_rho c; pp_opt_tol := lc_otol c; pp_infeas_tol := lc_itol c |}
                   (lc_interval c) (lc_collect c) in
  let orc := fun (i : nat) (_ : LIt) (_ _ : Q) (_ : bool) =>
    match nth_error (lc_script c) i with
    | Some (SAns x y l a k) => Ans LIt (x, y) l a k
    | Some (SFail k) => Fail LIt k
    | None => Fail LIt 0
    end in
  let clk := fun k => nth k (lc_clock c) (last (lc_clock c) 0) in
  solve LIt (l_total P (lc_atol c)) (l_linf P (lc_atol c) (lc_otol c) (lc_itol c)) (l_obj P)
        (l_feas P (lc_otol c)) (l_pdata P) (fun _ _ => 0)
        (S (length (lc_script c))) cf orc clk (transform_sol (lc_sc c) (quad_problem (lc_spec c)) (lc_x0 c) (lc_y0 c)).

Definition ann_eqb (a : LIt * LIt * bool) (b : vec * vec * bool) : bool :=
  let '(f, t, acc) := a in let '(f', t', acc') := b in
  veqb (fst f ++ snd f) f' && veqb (fst t ++ snd t) t' && Bool.eqb acc acc'.
Definition trial_eqb (a : trial) (b : Q * Q * bool * Q * bool) : bool :=
  let '(r', d', s', l', a') := b in
  qeqb (t_rho a) r' && qeqb (t_dt a) d' && Bool.eqb (t_disp a) s'
  && qeqb (t_lamb a) l' && Bool.eqb (t_acc a) a'.

Definition fin_matches (c : lcase) (full : bool) (s : st LIt) : bool :=
  let P := trans_problem (lc_sc c) (quad_problem (lc_spec c)) in
  leqb ann_eqb (announced LIt s) (le_announced c)
  && leqb trial_eqb (trials LIt s) (le_trials c)
  && (negb full ||
      (let x := fst (cur LIt s) in let y := snd (cur LIt s) in
       let '(rx, ry, rd) := restore_sol (lc_sc c) (quad_problem (lc_spec c)) x y (bounds_dual P (lc_atol c) x y) in
       Nat.eqb (itn LIt s) (le_iters c) && Nat.eqb (nacc LIt s) (le_nacc c)
       && veqb rx (le_x c) && veqb ry (le_y c) && veqb rd (le_d c)
       && leqb (fun z v => veqb (fst z ++ snd z) v) (path LIt s) (le_path c)
       && veqb (times LIt s) (le_times c)
       && Nat.eqb (cpos LIt s) (le_reads c))).

Definition check_loop (c : lcase) : bool :=
  match lc_run c with
  | Done _ s fin => Nat.eqb (status_code s) (le_kind c) && fin_matches c true fin
  | LambdaError _ fin => Nat.eqb (le_kind c) 10 && fin_matches c false fin
  | Internal _ _ fin => Nat.eqb (le_kind c) 11 && fin_matches c false fin
  | OutOfFuel _ => false
  end.

(* tag = status code (or 10/11/12) + 100 * #vetoes-or-rejections seen + 10000 * #failed trials *)
Definition tag_loop (c : lcase) : N :=
  let k := match lc_run c with
           | Done _ s _ => status_code s | LambdaError _ _ => 10%nat | Internal _ _ _ => 11%nat | OutOfFuel _ => 12%nat
           end in
  let fin := match lc_run c with
             | Done _ _ f | LambdaError _ f | Internal _ _ f => Some f | OutOfFuel _ => None end in
  match fin with
  | None => N.of_nat k
  | Some f =>
      (N.of_nat k
       + 100 * N.of_nat (length (filter (fun a => negb (snd a)) (announced LIt f)))
       + 10000 * N.of_nat (nacc LIt f))%N
  end.
