(* Loop.v — pygradflow/solver.py: Solver._check_terminate and the `while True` body of
   Solver.solve, over an abstract iterate type and an arbitrary step oracle.  Definitions only. *)
From Verif Require Export Penalty.

Inductive status := Optimal | IterationLimit | TimeLimit | Unbounded | LocallyInfeasible.

Section Loop.
  Variable It : Type.                         (* iterates *)
  (* what the loop reads off an iterate *)
  Variable it_total : It -> Q.                (* total_res *)
  Variable it_linf : It -> bool.              (* locally_infeasible(opt_tol, local_infeas_tol) *)
  Variable it_obj : It -> Q.                  (* (scaled) objective *)
  Variable it_feas : It -> bool.              (* is_feasible(opt_tol) *)
  Variable it_pdata : It -> pdata.            (* what the penalty policy reads *)
  Variable step_norm : It -> It -> Q.         (* ||dx||_2 + ||dy||_2 *)

  (* answer of controller.compute_step for one trial.  `checks` = number of deadline tests
     (timer.reached_time_limit() inside the exact controller's Newton loop) the trial performs
     when it is not interrupted; a test that finds the deadline passed abandons the trial. *)
  Inductive answer :=
  | Ans (next : It) (lamb : Q) (accepted : bool) (checks : nat)
  | Fail (checks : nat).                      (* StepSolverError / EvalError inside compute_step *)

  Record cfg := mk_cfg {
    c_iter_limit : option nat;
    c_time_limit : option Q;                  (* None = inf *)
    c_opt_tol : Q;
    c_obj_lower : Q;
    c_lamb_init : Q;
    c_lamb_max : Q;
    c_policy : policy;
    c_pparams : pparams;
    c_interval : option Q;                    (* display_interval; None = never display (inf) *)
    c_collect_path : bool
  }.

  (* trial index, iterate, rho, dt, display flag |-> answer *)
  Definition oracle := nat -> It -> Q -> Q -> bool -> answer.
  Definition clock := nat -> Q.               (* value of the k-th read of time.time() *)

  (* one trial step as seen by Solver._compute_step: what was handed in, what came back, and whether
     the step was finally adopted (after the penalty policy's veto) *)
  Record trial := mk_trial {
    t_rho : Q; t_dt : Q; t_disp : bool;       (* arguments *)
    t_lamb : Q; t_acc : bool;                 (* StepControlResult.lamb / .accepted *)
    t_final : bool                            (* the iterate was replaced *)
  }.

  Record st := mk_st {
    cur : It;
    lamb : Q;
    rho : Q;
    pst : pstate;
    itn : nat;
    nacc : nat;
    cpos : nat;                               (* clock reads so far *)
    tstart : Q;                               (* Timer.start *)
    dstart : Q;                               (* Display timer start (reset by every displayed row) *)
    announced : list (It * It * bool);        (* ComputedStep callbacks, oldest first *)
    trials : list trial;                      (* oldest first *)
    path : list It;                           (* oldest first *)
    times : list Q;
    pdist : Q;
    nchanges : nat
  }.

  Inductive outcome :=
  | Done (s : status) (fin : st)
  | LambdaError (fin : st)                    (* deliberate: inverse step size exceeded its maximum *)
  | Internal (which : nat) (fin : st)         (* an internal assert fired *)
  | OutOfFuel.

  Definition deadline_passed (c : cfg) (s : st) (t : Q) : bool :=
    match c_time_limit c with None => false | Some tl => qle (tl - (t - tstart s)) 0 end.

  (* Solver._check_terminate, tests in code order; the clock is read only if the limit test passes *)
  Definition check (c : cfg) (clk : clock) (s : st) : option status * st :=
    let hit := match c_iter_limit c with Some L => Nat.leb L (itn s) | None => false end in
    if hit then (Some IterationLimit, s)
    else
      let t := clk (cpos s) in
      let s1 := mk_st (cur s) (lamb s) (rho s) (pst s) (itn s) (nacc s) (S (cpos s)) (tstart s) (dstart s)
                      (announced s) (trials s) (path s) (times s) (pdist s) (nchanges s) in
      if deadline_passed c s t then (Some TimeLimit, s1)
      else if qle (it_total (cur s)) (c_opt_tol c) then (Some Optimal, s1)
      else if it_linf (cur s) then (Some LocallyInfeasible, s1)
      else if qle (it_obj (cur s)) (c_obj_lower c) && it_feas (cur s) then (Some Unbounded, s1)
      else (None, s1).

  (* the deadline tests inside a trial: the first one that finds the deadline passed abandons it.
     returns (abandoned?, reads consumed) *)
  Fixpoint inner_checks (c : cfg) (clk : clock) (s : st) (p : nat) (n : nat) : bool * nat :=
    match n with
    | O => (false, O)
    | S n' => if deadline_passed c s (clk p) then (true, 1%nat)
              else let '(ab, k) := inner_checks c clk s (S p) n' in (ab, S k)
    end.

  (* StepController.compute_step seen from the loop: (next, lamb', accepted, reads) *)
  Definition resolve (c : cfg) (clk : clock) (s : st) (p : nat) (dt : Q) (a : answer) : It * Q * bool * nat :=
    let n := match a with Ans _ _ _ k => k | Fail k => k end in
    let '(ab, k) := inner_checks c clk s p n in
    let failres := (cur s, 2 * (1 / dt), false, k) in
    (* a trial abandoned because the deadline passed is not a failed trial: point and step size are left alone *)
    if ab then (cur s, 1 / dt, false, k)
    else match a with
         | Ans nx l acc _ => (nx, l, acc, k)
         | Fail _ => failres
         end.

  (* one pass of the `while True` body after _check_terminate returned None *)
  Definition body (c : cfg) (orc : oracle) (clk : clock) (s : st) : st + outcome :=
    (* display.should_display(): one read *)
    let disp := match c_interval c with
                | None => false
                | Some iv => qle iv (clk (cpos s) - dstart s)
                end in
    let p1 := S (cpos s) in
    let dt := 1 / lamb s in
    let '(nx, l, acc, k) := resolve c clk s p1 dt (orc (itn s) (cur s) (rho s) dt disp) in
    let p2 := (p1 + k)%nat in
    let mk := fun fin => trials s ++ [mk_trial (rho s) dt disp l acc fin] in
    let tr := mk false in
    if qle (c_lamb_max c) l then
      inr (LambdaError (mk_st (cur s) l (rho s) (pst s) (itn s) (nacc s) p2 (tstart s) (dstart s)
                              (announced s) tr (path s) (times s) (pdist s) (nchanges s)))
    else
      let ann := announced s ++ [(cur s, nx, acc)] in
      (* a displayed row resets the display timer: one more read *)
      let '(p3, ds) := if disp then (S p2, clk p2) else (p2, dstart s) in
      let upd := if acc then Some (p_update (c_policy c) (c_pparams c) (pst s) (it_pdata nx)) else None in
      match upd with
      | Some (PAssert w) =>
          inr (Internal w (mk_st (cur s) l (rho s) (pst s) (itn s) (nacc s) p3 (tstart s) ds
                                 ann tr (path s) (times s) (pdist s) (nchanges s)))
      | Some (PRes ps' nrho true) =>
          let changed := negb (qeqb nrho (rho s)) in
          inl (mk_st nx l (if changed then nrho else rho s) ps' (S (itn s)) (S (nacc s)) p3 (tstart s) ds
                     ann (mk true)
                     (if c_collect_path c then path s ++ [nx] else path s)
                     (if c_collect_path c then times s ++ [last (times s) 0 + dt] else times s)
                     (pdist s + step_norm (cur s) nx)
                     (if changed then S (nchanges s) else nchanges s))
      | Some (PRes ps' _ false) =>
          inl (mk_st (cur s) l (rho s) ps' (S (itn s)) (nacc s) p3 (tstart s) ds
                     ann tr (path s) (times s) (pdist s) (nchanges s))
      | None =>
          inl (mk_st (cur s) l (rho s) (pst s) (S (itn s)) (nacc s) p3 (tstart s) ds
                     ann tr (path s) (times s) (pdist s) (nchanges s))
      end.

  Fixpoint run (fuel : nat) (c : cfg) (orc : oracle) (clk : clock) (s : st) : outcome :=
    match fuel with
    | O => OutOfFuel
    | S f =>
        let '(os, s1) := check c clk s in
        match os with
        | Some stt => Done stt s1
        | None => match body c orc clk s1 with
                  | inl s2 => run f c orc clk s2
                  | inr o => o
                  end
        end
    end.

  (* state at the top of the loop: display and timer have been created (two clock reads) *)
  Definition init_st (c : cfg) (clk : clock) (x0 : It) : st :=
    let ps := p_init (c_pparams c) in
    mk_st x0 (c_lamb_init c) (p_initial_rho (c_pparams c)) ps 0 0 2 (clk 1%nat) (clk 0%nat)
          [] [] (if c_collect_path c then [x0] else []) (if c_collect_path c then [0] else []) 0 0.

  Definition solve (fuel : nat) (c : cfg) (orc : oracle) (clk : clock) (x0 : It) : outcome :=
    run fuel c orc clk (init_st c clk x0).
End Loop.
