(* CorrFlow.v — entry point of the correspondence unit `flow`: Flow.rhs and RestrictedFlow.residuum of the
   flow-integration solver against Flow.v. *)
From Verif Require Export Flow CorrNumeric.

Record flcase := mk_flcase {
  fl_spec : qspec; fl_x : vec; fl_y : vec; fl_rho : Q;
  fle_rhs : vec;          (* Flow.rhs(z, rho) *)
  fle_res : Q             (* RestrictedFlow.residuum(z): a 2-norm, so a rounded square root *)
}.

Definition fl_problem (c : flcase) : problem := quad_problem (fl_spec c).

(* the code returns sqrt(S) rounded; S itself is exact on these inputs: r^2 must agree with S to 2^-40 relative *)
Definition check_flow (c : flcase) : bool :=
  let P := fl_problem c in
  let S := residuum_sq P (fl_x c) (fl_y c) in
  veqb (flow_rhs P (fl_x c) (fl_y c) (fl_rho c)) (fle_rhs c)
  && qle (qabs (fle_res c * fle_res c - S)) (p2 (-40) * S).

(* tag = number of components the optimality measure drops + 10 * number of components at a bound *)
Definition tag_flow (c : flcase) : N :=
  let P := fl_problem c in
  let z := map2 pair (map2 pair (map2 pair (fl_x c) (var_lb P)) (var_ub P)) (flow_dx0 P (fl_x c) (fl_y c)) in
  let dropped := length (filter (fun t : Q * bnd * bnd * Q => let '(xi, l, u, d) := t in blocked1 xi d l u) z) in
  let atb := length (filter (fun t : Q * bnd * bnd * Q => let '(xi, l, u, d) := t in at_bound xi l || at_bound xi u) z) in
  (N.of_nat dropped + 10 * N.of_nat atb)%N.

Definition exact_flow (c : flcase) : bool :=
  let P := fl_problem c in
  vrepr (flow_rhs P (fl_x c) (fl_y c) (fl_rho c)) && representable (residuum_sq P (fl_x c) (fl_y c)).
