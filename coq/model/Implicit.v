(* Implicit.v — pygradflow/implicit_func.py: the implicit-Euler residual function F (ImplicitFunc),
   its lambda-scaled variant (ScaledImplicitFunc), their active sets, projections and generalised
   Jacobians; util.keep_rows.  Definitions only. *)
From Verif Require Export Iterate.

Definition c_1e8 : Q := 3022314549036573 # 302231454903657293676544.      (* the binary64 value of 1e-8 *)

Fixpoint map4 {A B C D E} (f : A -> B -> C -> D -> E) (a : list A) (b : list B) (c : list C) (d : list D) : list E :=
  match a, b, c, d with
  | x :: a', y :: b', z :: c', w :: d' => f x y z w :: map4 f a' b' c' d'
  | _, _, _, _ => []
  end.

(* StepFunc.compute_active_set_box: x < lb - 1e-8 or x > ub + 1e-8 *)
Definition outside1 (p : Q) (l u : bnd) : bool :=
  match l with None => false | Some a => qlt p (a - c_1e8) end
  || match u with None => false | Some b => qlt (b + c_1e8) p end.
Definition active_box (p : vec) (lb ub : list bnd) : mask := map3 outside1 p lb ub.

(* StepFunc.project_box: p[active] = clip(x[active], lb[active], ub[active]) *)
Definition project_box (p : vec) (lb ub : list bnd) (act : mask) : vec :=
  map4 (fun pj (a : bool) l u => if a then clip_b pj l u else pj) p act lb ub.

(* util.keep_rows: rows not selected are emptied *)
Definition keep_rows (M : mat) (sel : mask) (ncols : nat) : mat :=
  map2 (fun r (b : bool) => if b then r else vzero ncols) M sel.

Definition unit_row (n j : nat) (s : Q) : vec := map (fun k => if Nat.eqb k j then s else 0) (seq 0 n).

Section Implicit.
  Variable P : problem.
  Variables xh yh : vec.       (* the iterate the step starts from (orig_iterate) *)
  Variable dt : Q.
  Variable rho : Q.

  Definition n_v := nvars P.
  Definition m_c := ncons P.
  Definition lam := 1 / dt.

  (* ---------------- ImplicitFunc ---------------- *)
  Definition proj_init (tau : option Q) (x y : vec) : vec :=
    let g := aug_lag_deriv_x P x y rho in
    match tau with
    | None => vsub xh (vscale dt g)
    | Some t => vsub (vadd (vscale (1 - t * lam) x) (vscale (t * lam) xh)) (vscale t g)
    end.
  Definition active_set (tau : option Q) (x y : vec) : mask :=
    active_box (proj_init tau x y) (var_lb P) (var_ub P).
  Definition value_at (x y : vec) (act : mask) : vec :=
    vsub x (project_box (proj_init None x y) (var_lb P) (var_ub P) act)
    ++ vsub y (vadd yh (vscale dt (it_cons P x))).
  (* deriv(jac, hess, active_set): rows of active components are identity rows *)
  Definition deriv (J H : mat) (act : mask) : mat :=
    map3 (fun j (a : bool) hrow =>
            if a then unit_row n_v j 1 ++ vzero m_c
            else vadd (unit_row n_v j 1) (vscale dt hrow) ++ vscale dt (col j J))
         (seq 0 n_v) act H
    ++ map2 (fun i jrow => vscale (- dt) jrow ++ unit_row m_c i 1) (seq 0 m_c) J.

  (* ---------------- ScaledImplicitFunc: lambda * F (y block with the opposite sign) ---------------- *)
  Definition s_lb : list bnd := map (bnd_scale lam) (var_lb P).
  Definition s_ub : list bnd := map (bnd_scale lam) (var_ub P).
  Definition s_proj_init (tau : option Q) (x y : vec) : vec :=
    let g := aug_lag_deriv_x P x y rho in
    match tau with
    | None => vsub (vscale lam xh) g
    | Some t => vsub (vadd (vscale (lam * (1 - t * lam)) x) (vscale (t * lam * lam) xh)) (vscale (t * lam) g)
    end.
  Definition s_active_set (tau : option Q) (x y : vec) : mask :=
    active_box (s_proj_init tau x y) s_lb s_ub.
  Definition s_value_at (x y : vec) (act : mask) : vec :=
    vsub (vscale lam x) (project_box (s_proj_init None x y) s_lb s_ub act)
    ++ vneg (vsub (vscale lam y) (vadd (vscale lam yh) (it_cons P x))).
  Definition s_deriv (J H : mat) (act : mask) : mat :=
    map3 (fun j (a : bool) hrow =>
            if a then unit_row n_v j lam ++ vzero m_c
            else vadd (unit_row n_v j lam) hrow ++ col j J)
         (seq 0 n_v) act H
    ++ map2 (fun i jrow => vneg jrow ++ unit_row m_c i lam) (seq 0 m_c) J.
End Implicit.
