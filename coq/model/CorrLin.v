(* CorrLin.v — entry point of the correspondence unit `linsolve`: the linear-solver wrappers with the
   scipy backends replaced by scripted stubs. *)
From Verif Require Export LinSolve.

Record lcase' := mk_lincase {
  li_kind : nat; li_A : mat; li_rhs : vec; li_trans : bool; li_x0 : option vec; li_sym : bool;
  li_splu_ok : bool; li_script : vec; li_info : Z;        (* what the stubbed backend answers *)
  (* implementation: 0 ok / 1 LinearSolverError / 2 AssertionError at construction; the returned vector;
     the matrix, rhs, x0 and trans flag the backend was called with (if it was called) *)
  le_outcome : nat; le_sol : vec;
  le_called : bool; le_bmat : mat; le_brhs : vec; le_bx0 : option vec; le_btrans : bool
}.

Definition kind_of' (k : nat) : lkind := match k with 0%nat => LU | 1%nat => GMRES | _ => MINRES end.

Definition ovec_eqb (a b : option vec) : bool :=
  match a, b with None, None => true | Some u, Some v => veqb u v | _, _ => false end.

Definition check_linsolve (c : lcase') : bool :=
  let k := kind_of' (li_kind c) in
  let n := length (li_rhs c) in
  match create (fun _ => li_splu_ok c) k (li_A c) (li_sym c) with
  | CreateErr => Nat.eqb (le_outcome c) 1
  | CreateAssert => Nat.eqb (le_outcome c) 2
  | Created =>
      let '(r, call) := solve (fun _ _ _ => li_script c) (fun _ => (li_script c, li_info c)) n k
                              (li_A c) (li_rhs c) (li_trans c) (li_x0 c) in
      (match r with
       | LOk v => Nat.eqb (le_outcome c) 0 && veqb v (le_sol c)
       | LErr => Nat.eqb (le_outcome c) 1
       end)
      && match call with
         | None => negb (le_called c)
         | Some b => le_called c && meqb (b_mat b) (le_bmat c) && veqb (b_rhs b) (le_brhs c)
                     && ovec_eqb (b_x0 b) (le_bx0 c) && Bool.eqb (b_trans b) (le_btrans c)
         end
  end.

(* tag = kind + 10 * outcome (0 ok, 1 error, 2 assert) + 100 * early return *)
Definition tag_linsolve (c : lcase') : nat :=
  let k := kind_of' (li_kind c) in
  let n := length (li_rhs c) in
  match create (fun _ => li_splu_ok c) k (li_A c) (li_sym c) with
  | CreateErr => (li_kind c + 10)%nat
  | CreateAssert => (li_kind c + 20)%nat
  | Created =>
      let '(r, call) := solve (fun _ _ _ => li_script c) (fun _ => (li_script c, li_info c)) n k
                              (li_A c) (li_rhs c) (li_trans c) (li_x0 c) in
      (li_kind c + (match r with LOk _ => 0 | LErr => 10 end) + (match call with None => 100 | Some _ => 0 end))%nat
  end.
