(* DerivCheck.v — pygradflow/deriv_check.py and Solver._deriv_check.  Definitions only. *)
From Verif Require Export Iterate.

Definition c_rtol : Q := 5902958103587057 # 590295810358705651712.     (* numpy's default rtol = 1e-5 (binary64) *)

(* np.isclose(expected, actual, atol): |expected - actual| <= atol + rtol * |actual| *)
Definition isclose (atol expected actual : Q) : bool :=
  qle (qabs (expected - actual)) (atol + c_rtol * qabs actual).

Definition bump (x : vec) (i : nat) (eps : Q) : vec :=
  map2 (fun k xk => if Nat.eqb k i then xk + eps else xk) (seq 0 (length x)) x.

(* forward-difference approximation of column i *)
Definition fd_col (f : vec -> vec) (x : vec) (i : nat) (eps : Q) : vec :=
  map2 (fun a b => (a - b) / eps) (f (bump x i eps)) (f x).

(* rows of column i that fail the closeness test *)
Definition bad_rows (atol : Q) (dcol apx : vec) : list nat :=
  map fst (filter (fun t => negb (isclose atol (fst (snd t)) (snd (snd t))))
                  (combine (seq 0 (length dcol)) (combine dcol apx))).

(* deriv_check: column by column; the first column with a failing entry raises DerivError(rows, column) *)
Fixpoint check_cols (f : vec -> vec) (x : vec) (D : mat) (eps atol : Q) (cols : list nat) : option (list nat * nat) :=
  match cols with
  | [] => None
  | i :: cols' =>
      match bad_rows atol (col i D) (fd_col f x i eps) with
      | [] => check_cols f x D eps atol cols'
      | rows => Some (rows, i)
      end
  end.
Definition deriv_check (f : vec -> vec) (x : vec) (D : mat) (eps atol : Q) : option (list nat * nat) :=
  check_cols f x D eps atol (seq 0 (length x)).

(* Solver._deriv_check: objective gradient, constraint Jacobian, then Hessian of the Lagrangian *)
Definition solver_deriv_check (P : problem) (x y : vec) (first second : bool) (eps atol : Q)
  : option (list nat * nat) :=
  let c1 := if first then
              match deriv_check (fun z => [p_obj P z]) x [p_grad P x] eps atol with
              | Some e => Some e
              | None => deriv_check (p_cons P) x (p_jac P x) eps atol
              end
            else None in
  match c1 with
  | Some e => Some e
  | None =>
      if second then
        deriv_check (fun z => vadd (p_grad P z) (tmvec (nvars P) (p_jac P z) y)) x (p_hess P x y) eps atol
      else None
  end.

(* a problem with one derivative entry corrupted: which = 0 gradient, 1 Jacobian, 2 Hessian *)
Definition add_at (v : vec) (j : nat) (d : Q) : vec :=
  map2 (fun k a => if Nat.eqb k j then a + d else a) (seq 0 (length v)) v.
Definition add_at2 (M : mat) (r c : nat) (d : Q) : mat :=
  map2 (fun k row => if Nat.eqb k r then add_at row c d else row) (seq 0 (length M)) M.
Definition corrupt (P : problem) (which r c : nat) (d : Q) : problem :=
  {| nvars := nvars P; ncons := ncons P; p_obj := p_obj P;
     p_grad := fun x => match which with 0%nat => add_at (p_grad P x) c d | _ => p_grad P x end;
     p_cons := p_cons P;
     p_jac := fun x => match which with 1%nat => add_at2 (p_jac P x) r c d | _ => p_jac P x end;
     p_hess := fun x y => match which with 2%nat => add_at2 (p_hess P x y) r c d | _ => p_hess P x y end;
     var_lb := var_lb P; var_ub := var_ub P; cons_lb := cons_lb P; cons_ub := cons_ub P |}.
