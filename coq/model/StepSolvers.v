(* StepSolvers.v — pygradflow/step/solver/*.py: the linear system (matrix, right-hand side) each of
   the four step solvers hands to the linear solver, how its solution is post-processed into (dx, dy),
   StepResult (clipping of the new point), and newton.py (when each Newton variant refreshes the
   derivative and the active set).  Definitions only. *)
From Verif Require Export Implicit.

Inductive solver_kind := KStandard | KExtended | KSymmetric | KAsymmetric.

(* a[act] = av; a[~act] = iv *)
Fixpoint scatter (act : mask) (av iv : vec) : vec :=
  match act with
  | [] => []
  | true :: act' => hd 0 av :: scatter act' (tl av) iv
  | false :: act' => hd 0 iv :: scatter act' av (tl iv)
  end.

(* StepResult._compute_xn: the two masked assignments, in code order *)
Definition xn1 (x dx : Q) (l u : bnd) : Q * Q :=
  let xn := x - dx in
  let '(xn, dx) := match l with
                   | Some a => if qlt xn a then (a, x - a) else (xn, dx)
                   | None => (xn, dx)
                   end in
  match u with
  | Some b => if qlt b xn then (b, x - b) else (xn, dx)
  | None => (xn, dx)
  end.

Section StepSolvers.
  Variable P : problem.
  Variables xh yh : vec.       (* orig_iterate of the step solver / its func *)
  Variable dt rho : Q.
  Variable kind : solver_kind.

  Definition nn := nvars P.
  Definition mm := ncons P.
  Definition lamb_ := 1 / dt.
  Definition fact := 1 / (1 + lamb_ * rho).
  Definition lower := - lamb_ / (1 + lamb_ * rho).

  (* state installed by update_active_set / update_derivs *)
  Variable act : mask.
  Variables xd yd : vec.       (* point the derivatives were taken at *)

  Definition jac_d : mat := it_jac P xd.
  Definition hess_std : mat := aug_lag_deriv_xx P xd yd rho.
  (* the scaled formulations eliminate rho J^T J; what remains is the Lagrangian Hessian at y + rho c *)
  Definition hess_sc : mat := p_hess P xd (vadd yd (vscale rho (it_cons P xd))).
  Definition hess_lam : mat := map2 (fun j r => vadd r (unit_row nn j lamb_)) (seq 0 nn) hess_sc.

  Definition inact : mask := mnot act.

  (* right-hand sides *)
  Definition rhs_std (x y : vec) : vec := value_at P xh yh dt rho x y act.
  Definition r_sc (x y : vec) : vec := s_value_at P xh yh dt rho x y act.
  Definition b0 (x y : vec) : vec := vscale dt (select act (firstn nn (r_sc x y))).
  Definition b1 (x y : vec) : vec := select inact (firstn nn (r_sc x y)).
  Definition b2 (x y : vec) : vec := skipn nn (r_sc x y).
  Definition b2t (x y : vec) : vec := vscale fact (b2 x y).

  Definition matrix : mat :=
    match kind with
    | KStandard => deriv P dt jac_d hess_std act
    | KExtended =>
        map (fun j => unit_row nn j 1 ++ vzero mm) (select act (seq 0 nn))
        ++ map (fun j => nth j hess_lam [] ++ col j jac_d) (select inact (seq 0 nn))
        ++ map2 (fun i jrow => jrow ++ unit_row mm i lower) (seq 0 mm) jac_d
    | KSymmetric =>
        map (fun j => select inact (nth j hess_lam []) ++ col j jac_d) (select inact (seq 0 nn))
        ++ map2 (fun i jrow => select inact jrow ++ unit_row mm i lower) (seq 0 mm) jac_d
    | KAsymmetric =>
        map3 (fun j (a : bool) hrow => if a then unit_row (nn + mm) j 1 else hrow ++ col j jac_d)
             (seq 0 nn) act hess_lam
        ++ map2 (fun i jrow => jrow ++ unit_row mm i lower) (seq 0 mm) jac_d
    end.

  Definition rhs (x y : vec) : vec :=
    match kind with
    | KStandard => rhs_std x y
    | KExtended => b0 x y ++ b1 x y ++ b2t x y
    | KSymmetric =>
        vsub (b1 x y) (map (fun j => dot (select act (nth j hess_lam [])) (b0 x y)) (select inact (seq 0 nn)))
        ++ vsub (b2t x y) (map (fun jrow => dot (select act jrow) (b0 x y)) jac_d)
    | KAsymmetric => scatter act (b0 x y) (b1 x y) ++ b2t x y
    end.

  (* post-processing of the linear solver's answer into (dx, dy) *)
  Definition post (x y sol : vec) : vec * vec :=
    match kind with
    | KStandard => (firstn nn sol, skipn nn sol)
    | KExtended | KAsymmetric =>
        (firstn nn sol, vscale fact (vsub (skipn nn sol) (vscale rho (b2 x y))))
    | KSymmetric =>
        let ni := length (filter (fun b => b) inact) in
        (scatter act (b0 x y) (firstn ni sol),
         vscale fact (vsub (skipn ni sol) (vscale rho (b2 x y))))
    end.

  (* StepResult: (dx after clipping, dy, xn, yn) *)
  Definition step_result (x y dx dy : vec) : vec * vec * vec * vec :=
    let r := map4 xn1 x dx (var_lb P) (var_ub P) in
    (map snd r, dy, map fst r, vsub y dy).

  Definition solve_step (x y sol : vec) : vec * vec * vec * vec :=
    let '(dx, dy) := post x y sol in step_result x y dx dy.
End StepSolvers.

(* ---------------- newton.py: which (active set, derivative point) each variant uses ---------------- *)
Inductive newton_kind := Simplified | Full | ActiveSetNewton.

Section Newton.
  Variable P : problem.
  Variables xh yh : vec.
  Variable dt rho : Q.
  Variable kind : solver_kind.
  Variable nk : newton_kind.
  Variable tau : option Q.

  Definition func_active (x y : vec) : mask :=
    match kind with
    | KStandard => active_set P xh dt rho tau x y
    | _ => s_active_set P xh dt rho tau x y
    end.

  (* the step taken from the current iterate (x, y): (matrix, rhs, result) for a scripted solution *)
  Definition newton_step (x y sol : vec) : mat * vec * (vec * vec * vec * vec) :=
    let '(act, xd, yd) :=
      match nk with
      | Simplified => (func_active xh yh, xh, yh)
      | Full => (func_active x y, x, y)
      | ActiveSetNewton => (func_active x y, xh, yh)
      end in
    let r := rhs P xh yh dt rho kind act xd yd x y in
    (* the scripted linear solver answers with the first |rhs| entries of the script vector *)
    (matrix P dt rho kind act xd yd, r, solve_step P xh yh dt rho kind act x y (firstn (length r) sol)).

  (* successive steps: the next iterate is (xn, yn) of the previous result *)
  Fixpoint newton_steps (x y : vec) (sols : list vec) : list (mat * vec * (vec * vec * vec * vec)) :=
    match sols with
    | [] => []
    | s :: sols' =>
        let r := newton_step x y s in
        let '(_, _, xn, yn) := snd r in
        r :: newton_steps xn yn sols'
    end.
End Newton.
