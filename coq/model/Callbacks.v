(* Callbacks.v — pygradflow/callbacks.py: the registry of ComputedStep callbacks (one callback type).
   A handle is identified by the order number of its registration (CallbackHandle objects compare by identity).
   Definitions only. *)
From Coq Require Export List Arith Bool.
Export ListNotations.

Record cb_state := mk_cb { cb_next : nat; cb_handles : list nat }.
Definition cb_init : cb_state := mk_cb 0 [].

Inductive cb_op := CbRegister | CbUnregister (h : nat) | CbDispatch.
(* what the caller observes: the new handle / ok or ValueError (list.remove of an absent handle) / the handles called, in order *)
Inductive cb_out := OHandle (h : nat) | OUnreg (ok : bool) | OCalled (hs : list nat).

Fixpoint remove_first (h : nat) (l : list nat) : list nat :=
  match l with
  | [] => []
  | x :: l' => if Nat.eqb x h then l' else x :: remove_first h l'
  end.

Definition cb_step (s : cb_state) (o : cb_op) : cb_state * cb_out :=
  match o with
  | CbRegister => (mk_cb (S (cb_next s)) (cb_handles s ++ [cb_next s]), OHandle (cb_next s))
  | CbUnregister h =>
      if existsb (Nat.eqb h) (cb_handles s)
      then (mk_cb (cb_next s) (remove_first h (cb_handles s)), OUnreg true)
      else (s, OUnreg false)
  | CbDispatch => (s, OCalled (cb_handles s))
  end.

Fixpoint cb_run (s : cb_state) (ops : list cb_op) : cb_state * list cb_out :=
  match ops with
  | [] => (s, [])
  | o :: ops' => let '(s1, out) := cb_step s o in
                 let '(s2, outs) := cb_run s1 ops' in (s2, out :: outs)
  end.

(* correspondence unit `callbacks` *)
Definition cb_out_eqb (a b : cb_out) : bool :=
  match a, b with
  | OHandle x, OHandle y => Nat.eqb x y
  | OUnreg x, OUnreg y => Bool.eqb x y
  | OCalled x, OCalled y => (fix eq (p q : list nat) := match p, q with
                                                        | [], [] => true
                                                        | u :: p', v :: q' => Nat.eqb u v && eq p' q'
                                                        | _, _ => false
                                                        end) x y
  | _, _ => false
  end.
Record cbcase := mk_cbcase { cbc_ops : list cb_op; cbc_outs : list cb_out }.
Definition check_callbacks (c : cbcase) : bool :=
  let outs := snd (cb_run cb_init (cbc_ops c)) in
  Nat.eqb (length outs) (length (cbc_outs c)) && forallb (fun p => cb_out_eqb (fst p) (snd p)) (combine outs (cbc_outs c)).
Definition tag_callbacks (c : cbcase) : nat :=
  let s := fst (cb_run cb_init (cbc_ops c)) in
  (Nat.min 9 (length (cb_handles s)) + 10 * (if existsb (fun o => match o with OUnreg false => true | _ => false end)
                                                         (snd (cb_run cb_init (cbc_ops c))) then 1 else 0))%nat.
