(* StepCtl.v — pygradflow/step/{exact,fixed,distance_ratio,residuum_ratio}_control.py: the decision logic
   of the step controllers given the stream of Newton iterates (an oracle), the PI controller's output
   (an oracle: exp of a PI term, so positive) and the clock; and compute_step's fault wrapper.
   Definitions only. *)
From Verif Require Export Vec.

(* one element of the Newton stream, as far as a controller looks at it *)
Record nstep := mk_nstep { ns_id : nat; ns_diff : Q; ns_res : Q }.   (* iterate id, ||(dx,dy)||_2, ||F(iterate)||_2 *)

Inductive ckind := CExact | CFixed | CDistance | CResiduum.

Record cparams := mk_cparams {
  cp_newton_tol : Q; cp_lamb_init : Q; cp_lamb_min : Q; cp_lamb_red : Q; cp_lamb_inc : Q; cp_theta_max : Q
}.

(* answer of step(): chosen iterate id, next lambda, accepted — or an exception (StepSolverError / EvalError
   from the step computation; scripted); running off the scripted stream never happens in the implementation,
   it is the model's out-of-fuel.  When the deadline passes inside the exact controller's loop the trial is
   abandoned: (unchanged iterate, unchanged lambda, not accepted). *)
Inductive cres := CAns (id : nat) (lamb : Q) (accepted : bool) | CRaise | CStuck.

Section StepCtl.
  Variable prm : cparams.
  Variable lamb : Q.                 (* 1 / dt of this trial *)
  Variable res0 : Q.                 (* ||F(orig iterate)||_2 *)
  Variable pi_out : Q -> Q.          (* LogController.update(theta) *)
  Variable passed : nat -> bool.     (* the k-th deadline test of this trial finds the deadline passed *)

  (* ExactController.step: at most 10 Newton iterations, contraction rate bound 1/2 *)
  Fixpoint exact_loop (fuel : nat) (k : nat) (curr : Q) (last : option nstep) (stream : list nstep) : cres :=
    match fuel with
    | O => match last with Some s => CAns (ns_id s) (2 * lamb) false | None => CStuck end
    | S f =>
        match stream with
        | [] => CStuck
        | s :: stream' =>
            if passed k then CAns 0 lamb false          (* abandoned: unchanged iterate (id 0), unchanged lambda *)
            else if qle (ns_res s) (cp_newton_tol prm) then CAns (ns_id s) ((1 # 2) * lamb) true
            else if qlt ((1 # 2) * curr) (ns_res s) then CAns (ns_id s) (2 * lamb) false
            else exact_loop f (S k) (ns_res s) (Some s) stream'
        end
    end.

  Definition ctl_step (k : ckind) (stream : list nstep) : cres :=
    match k with
    | CExact => exact_loop 10 0 res0 None stream
    | CFixed => match stream with s :: _ => CAns (ns_id s) (cp_lamb_init prm) true | [] => CStuck end
    | CDistance =>
        match stream with
        | [] => CStuck
        | mid :: rest =>
            if qle (ns_res mid) (cp_newton_tol prm)
            then CAns (ns_id mid) (qmax (lamb * cp_lamb_red prm) (cp_lamb_min prm)) true
            else if qeqb (ns_diff mid) 0 then CAns (ns_id mid) lamb true
            else match rest with
                 | [] => CStuck
                 | fin :: _ =>
                     if qeqb (ns_diff fin) 0 then CAns (ns_id fin) lamb true
                     else
                       let theta := ns_diff fin / ns_diff mid in
                       if qle theta (cp_theta_max prm)
                       then CAns (ns_id fin) (qmax (cp_lamb_min prm) (lamb / pi_out theta)) true
                       else CAns (ns_id fin) (lamb * cp_lamb_inc prm) false
                 end
        end
    | CResiduum =>
        match stream with
        | [] => CStuck
        | mid :: _ =>
            if qle (ns_res mid) (cp_newton_tol prm)
            then CAns (ns_id mid) (qmax (lamb * cp_lamb_red prm) (cp_lamb_min prm)) true
            else
              let theta := ns_res mid / res0 in
              if qle theta (cp_theta_max prm)
              then CAns (ns_id mid) (qmax (cp_lamb_min prm) (lamb / pi_out theta)) true
              else CAns (ns_id mid) (lamb * cp_lamb_inc prm) false
        end
    end.

  (* StepController.compute_step: a StepSolverError / EvalError from step(), or from check_eval of an
     accepted candidate, becomes (unchanged iterate = id 0, 2 * lambda, not accepted) *)
  Definition compute_step (k : ckind) (stream : list nstep) (eval_ok : nat -> bool) : cres :=
    let fail := CAns 0 (2 * lamb) false in
    match ctl_step k stream with
    | CRaise => fail
    | CAns id l true => if eval_ok id then CAns id l true else fail
    | r => r
    end.
End StepCtl.
