(* CorrPenalty.v — entry points evaluated by the generated case files for penalty.py.
   Each `check_*` compares the model's result with the implementation's recorded result. *)
From Verif Require Export Penalty.

Definition pair_eqb (a b : Q * Q) : bool := qeqb (fst a) (fst b) && qeqb (snd a) (snd b).

(* ---- unit filter_seq: PenaltyFilter.filter_insert on a history; snapshot after every insertion ---- *)
Fixpoint filter_trace (es : list (Q * Q)) (ps : list (Q * Q)) : list (list (Q * Q) * bool) :=
  match ps with
  | [] => []
  | p :: ps' => let '(es1, ok) := filter_insert qle es p in (es1, ok) :: filter_trace es1 ps'
  end.

Definition snap_eqb (a b : list (Q * Q) * bool) : bool :=
  leqb pair_eqb (fst a) (fst b) && Bool.eqb (snd a) (snd b).

(* a case: the offered points; per insertion (accepted?, number of entries afterwards); and full
   snapshots of the entries list after the insertions with the listed indices *)
Definition fcase := (list (Q * Q) * list (bool * nat) * list (nat * list (Q * Q)))%type.

Definition check_filter_seq (c : fcase) : bool :=
  let '(pts, steps, snaps) := c in
  let tr := filter_trace [] pts in
  leqb (fun a b => Bool.eqb (snd a) (fst b) && Nat.eqb (length (fst a)) (snd b)) tr steps
  && forallb (fun s => match nth_error tr (fst s) with
                       | Some (es, _) => leqb pair_eqb es (snd s)
                       | None => false end) snaps.

(* tag = #refused + 100 * #insertions that removed at least one entry *)
Fixpoint tag_trace (n : nat) (tr : list (list (Q * Q) * bool)) : nat :=
  match tr with
  | [] => 0
  | (es, ok) :: tr' =>
      (if ok then (if Nat.ltb (length es) (S n) then 100 else 0) else 1) + tag_trace (length es) tr'
  end%nat.
Definition tag_filter_seq (c : fcase) : nat :=
  tag_trace 0 (filter_trace [] (fst (fst c))).

(* ---- unit filter_update: PenaltyFilter.update on a history of (obj, violation) entries ---- *)
Definition entry_data (e : Q * Q) : pdata :=
  {| d_m0 := false; d_ynorm := 0; d_yprod := 0; d_viol := 0; d_infeas_inf := 0; d_bound := None;
     d_entry := e; d_lag_entry := fun _ => e |}.

(* result per update: (next_rho, accept, filter's own rho afterwards, number of entries) *)
Fixpoint update_trace (pol : policy) (prm : pparams) (st : pstate) (ds : list pdata)
  : list (option (Q * bool * Q * nat)) :=
  match ds with
  | [] => []
  | d :: ds' =>
      match p_update pol prm st d with
      | PRes st' r a => Some (r, a, ps_rho st', length (ps_entries st')) :: update_trace pol prm st' ds'
      | PAssert _ => [None]
      end
  end.

Definition upd_eqb (a b : option (Q * bool * Q * nat)) : bool :=
  match a, b with
  | None, None => true
  | Some (r1, a1, s1, n1), Some (r2, a2, s2, n2) =>
      qeqb r1 r2 && Bool.eqb a1 a2 && qeqb s1 s2 && Nat.eqb n1 n2
  | _, _ => false
  end.

Definition check_filter_update (c : Q * list (Q * Q) * list (option (Q * bool * Q * nat))) : bool :=
  let '(rho0, es, expect) := c in
  let prm := {| pp_rho := rho0; pp_opt_tol := 0; pp_infeas_tol := 0 |} in
  leqb upd_eqb (update_trace ObjFilter prm (p_init prm) (map entry_data es)) expect.

Definition tag_filter_update (c : Q * list (Q * Q) * list (option (Q * bool * Q * nat))) : nat :=
  let '(rho0, es, expect) := c in
  length (filter (fun o => match o with Some (_, false, _, _) => true | _ => false end) expect).

(* ---- unit penalty: every policy's update() on a history of scripted iterate data ---- *)
Definition check_penalty (c : policy * pparams * list pdata * list (option (Q * bool * Q * nat))) : bool :=
  let '(pol, prm, ds, expect) := c in
  leqb upd_eqb (update_trace pol prm (p_init prm) ds) expect.

(* tag = policy index + 10 * #updates that raised rho + 1000 * #vetoes *)
Definition pol_index (p : policy) : nat :=
  match p with Constant => 0 | DualNorm => 1 | DualEquil => 2 | Pareto => 3 | ObjFilter => 4 | LagFilter => 5 end.
Fixpoint count_raises (r0 : Q) (tr : list (option (Q * bool * Q * nat))) : nat :=
  match tr with
  | Some (_, _, r, _) :: tr' => ((if qlt r0 r then 1 else 0) + count_raises r tr')%nat
  | _ => 0%nat
  end.
Definition tag_penalty (c : policy * pparams * list pdata * list (option (Q * bool * Q * nat))) : nat :=
  let '(pol, prm, ds, expect) := c in
  let tr := update_trace pol prm (p_init prm) ds in
  (pol_index pol + 10 * count_raises (pp_rho prm) tr
   + 1000 * length (filter (fun o => match o with Some (_, false, _, _) => true | _ => false end) tr))%nat.

(* every penalty the model produces is a binary64 number (else the float run was necessarily rounded) *)
Definition exact_penalty (c : policy * pparams * list pdata * list (option (Q * bool * Q * nat))) : bool :=
  let '(pol, prm, ds, expect) := c in
  forallb (fun o => match o with Some (r, _, s, _) => representable r && representable s | None => true end)
          (update_trace pol prm (p_init prm) ds).
