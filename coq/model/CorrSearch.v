(* CorrSearch.v — entry points of the correspondence unit `gnewton`: newton_method(...) with
   NewtonType.Globalized, the four step solvers and a scripted linear solver, against LineSearch.v. *)
From Verif Require Export CorrStep LineSearch.

Record gcase := mk_gcase {
  gc_spec : qspec; gc_sc : option scaling; gc_trans : bool;
  gc_xh : vec; gc_yh : vec; gc_dt : Q; gc_rho : Q; gc_kind : nat; gc_tau : option Q; gc_tol : Q;
  gc_sols : list vec;
  (* implementation, per step: assembled matrix, right-hand side, Some (StepResult dx, dy, xn, yn) or None when
     the step raised "Line search failed to converge" *)
  ge_steps : list (mat * vec * option (vec * vec * vec * vec))
}.

Definition gstep_eqb (a b : mat * vec * option (vec * vec * vec * vec)) : bool :=
  let '(M, r, o) := a in
  let '(M', r', o') := b in
  meqb M M' && veqb r r'
  && match o, o' with
     | Some (dx, dy, xn, yn), Some (dx', dy', xn', yn') => veqb dx dx' && veqb dy dy' && veqb xn xn' && veqb yn yn'
     | None, None => true
     | _, _ => false
     end.

Definition gc_problem (c : gcase) : problem := the_problem (gc_spec c) (gc_sc c) (gc_trans c).

Definition gc_run (c : gcase) :=
  globalized_steps (gc_problem c) (gc_xh c) (gc_yh c) (gc_dt c) (gc_rho c) (kind_of (gc_kind c)) (gc_tau c) (gc_tol c)
                   (gc_xh c) (gc_yh c) (gc_sols c).

Definition check_gnewton (c : gcase) : bool := leqb gstep_eqb (gc_run c) (ge_steps c).

(* number of trials the search of one step used: 0 = returned before the search, k = accepted at the k-th trial,
   31 = raised *)
Fixpoint trials_of (alpha : Q) (fuel : nat) : nat :=
  match fuel with
  | O => 0
  | S f => if qeqb alpha 1 then 1 else S (trials_of (2 * alpha) f)
  end.

Section OneStep.
  Variable c : gcase.
  Let P := gc_problem c.
  Let K := kind_of (gc_kind c).

  Definition step_trials (x y sol : vec) : nat :=
    let '(_, _, (dx0, dy0, _, _)) := newton_step P (gc_xh c) (gc_yh c) (gc_dt c) (gc_rho c) K Full (gc_tau c) x y sol in
    let res := merit P (gc_xh c) (gc_yh c) (gc_dt c) (gc_rho c) K x y in
    if qle res (gc_tol c) then 0%nat
    else match search P (gc_xh c) (gc_yh c) (gc_dt c) (gc_rho c) K (gc_tol c) max_trials res
                      (search_ip P (gc_xh c) (gc_yh c) (gc_dt c) (gc_rho c) K x y dx0 dy0) x y dx0 dy0 1 with
         | None => 31%nat
         | Some alpha => trials_of alpha 40
         end.

  (* ---- float exactness of one step (used only to discard, and count, failing cases) ---- *)
  (* all partial sums of a list of dyadic numbers are binary64 numbers: on the finest grid 2^-G among them the sum
     of absolute values stays below 2^53 *)
  Definition dy (q : Q) : Z * positive := strip2 (Qnum q) (Qden q).
  Definition sum_exact (ps : list Q) : bool :=
    let rs := map dy ps in
    forallb (fun r => pos_pow2 (snd r)) rs
    && (let G := fold_right (fun r acc => Pos.max (snd r) acc) 1%positive rs in
        let S := fold_right (fun r acc => (Z.abs (fst r) * (Zpos G / Zpos (snd r)) + acc)%Z) 0%Z rs in
        Z.ltb S 9007199254740992).
  Definition dot_exact (a b : vec) : bool := sum_exact (map2 Qmult a b).
  (* at most 30 significant bits *)
  Definition short (q : Q) : bool :=
    let r := dy q in
    pos_pow2 (snd r) && match fst r with Z0 => true | Zpos n | Zneg n => Pos.ltb (pos_odd_part n) 1073741824 end.
  Definition repr53 (q : Q) : bool :=
    let r := dy q in
    pos_pow2 (snd r) && match fst r with Z0 => true | Zpos n | Zneg n => Pos.ltb (pos_odd_part n) 9007199254740992 end.
  Definition vrepr53 (v : vec) : bool := forallb repr53 v.

  Definition merit_exact (x y : vec) : bool :=
    let F := g_value P (gc_xh c) (gc_yh c) (gc_dt c) (gc_rho c) K x y in
    forallb short x && forallb short y && forallb short F && dot_exact F F.

  (* the comparison of trial alpha is decided the same way in binary64: either the Armijo term is zero (nothing is
     rounded) or the two sides differ by more than 2^-40 (|res| + |1e-4 alpha ip|), far above the two roundings *)
  Definition trial_exact (res ip : Q) (x y dx0 dy0 : vec) (alpha : Q) : bool :=
    let '(xt, yt) := trial_point P x y dx0 dy0 alpha in
    let r := merit P (gc_xh c) (gc_yh c) (gc_dt c) (gc_rho c) K xt yt in
    let t := c_1e4 * alpha * ip in
    merit_exact xt yt
    && (qeqb t 0 || qlt (p2 (-40) * (qabs res + qabs t)) (qabs (r - (res + t)))).

  Fixpoint trials_exact (fuel : nat) (res ip : Q) (x y dx0 dy0 : vec) (alpha : Q) : bool :=
    match fuel with
    | O => true
    | S f => trial_exact res ip x y dx0 dy0 alpha
             && (if accepts P (gc_xh c) (gc_yh c) (gc_dt c) (gc_rho c) K (gc_tol c) res ip x y dx0 dy0 alpha then true
                 else trials_exact f res ip x y dx0 dy0 ((1 # 2) * alpha))
    end.

  Definition step_exact (x y sol : vec) : bool :=
    let '(M, r, (dx0, dy0, xn0, yn0)) := newton_step P (gc_xh c) (gc_yh c) (gc_dt c) (gc_rho c) K Full (gc_tau c) x y sol in
    let F := g_value P (gc_xh c) (gc_yh c) (gc_dt c) (gc_rho c) K x y in
    let D := g_deriv P (gc_xh c) (gc_dt c) (gc_rho c) K x y in
    let res := half_sq F in
    forallb vrepr53 M && vrepr53 r && vrepr53 dx0 && vrepr53 dy0 && vrepr53 xn0 && vrepr53 yn0 && merit_exact x y
    && (if qle res (gc_tol c) then true
        else
          let g := tmvec (nvars P + ncons P) D F in
          forallb short (concat D)
          && forallb (fun j => dot_exact (col j D) F) (seq 0 (nvars P + ncons P))
          && sum_exact (map2 Qmult (firstn (nvars P) g) dx0 ++ map2 Qmult (skipn (nvars P) g) dy0)
          && trials_exact max_trials res (search_ip P (gc_xh c) (gc_yh c) (gc_dt c) (gc_rho c) K x y dx0 dy0)
                          x y dx0 dy0 1).

  (* exactness is needed up to and including the first step on which model and implementation differ (after it
     the implementation is on another path) *)
  Fixpoint steps_exact (x y : vec) (sols : list vec) (impl : list (mat * vec * option (vec * vec * vec * vec))) : bool :=
    match sols with
    | [] => true
    | s :: sols' =>
        step_exact x y s
        && (let r := globalized_step P (gc_xh c) (gc_yh c) (gc_dt c) (gc_rho c) K (gc_tau c) (gc_tol c) x y s in
            match impl with
            | [] => true
            | e :: impl' =>
                if gstep_eqb r e then
                  match snd r with
                  | Some (_, _, xn, yn) => steps_exact (map qnorm xn) (map qnorm yn) sols' impl'
                  | None => true
                  end
                else true
            end)
    end.
End OneStep.

Definition exact_gnewton (c : gcase) : bool := steps_exact c (gc_xh c) (gc_yh c) (gc_sols c) (ge_steps c).

(* tag = kind + 10 * (trials of the first step, capped at 9: 0 = early return; 9 also stands for "raised") *)
Definition tag_gnewton (c : gcase) : N :=
  let t := match gc_sols c with
           | s :: _ => step_trials c (gc_xh c) (gc_yh c) s
           | [] => 0%nat
           end in
  (N.of_nat (gc_kind c) + 10 * N.of_nat (Nat.min t 9) + 100 * (if Nat.eqb t 31 then 1 else 0))%N.
