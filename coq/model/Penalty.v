(* Penalty.v — pygradflow/penalty.py: the Pareto filter (over any ordered carrier)
   and the six penalty policies.  Definitions only. *)
From Verif Require Export Vec.

(* ---------- PenaltyFilter.filter_insert, literally the two list comprehensions ---------- *)
Section Filter.
  Variable T : Type.
  Variable leb : T -> T -> bool.

  Definition dominates (a b : T * T) : bool := leb (fst a) (fst b) && leb (snd a) (snd b).

  Definition filter_insert (es : list (T * T)) (p : T * T) : list (T * T) * bool :=
    if existsb (fun e => dominates e p) es then (es, false)
    else (filter (fun e => negb (dominates p e)) es ++ [p], true).

  (* entries after offering a whole history of points, and the verdict for each *)
  Fixpoint filter_run (es : list (T * T)) (ps : list (T * T)) : list (T * T) * list bool :=
    match ps with
    | [] => (es, [])
    | p :: ps' =>
        let '(es1, ok) := filter_insert es p in
        let '(es2, oks) := filter_run es1 ps' in
        (es2, ok :: oks)
    end.
End Filter.
Arguments dominates {T}.
Arguments filter_insert {T}.
Arguments filter_run {T}.

(* ---------- the policies ---------- *)
Inductive policy := Constant | DualNorm | DualEquil | Pareto | ObjFilter | LagFilter.

(* what a policy reads off the candidate iterate *)
Record pdata := {
  d_m0 : bool;              (* problem.num_cons == 0 *)
  d_ynorm : Q;              (* ||y||_inf *)
  d_yprod : Q;              (* |y . c| *)
  d_viol : Q;               (* 1/2 c . c *)
  d_infeas_inf : Q;         (* ||J^T c||_inf *)
  d_bound : option Q;       (* ParetoDecrease: min(obj_bound, cons_bound); None = not finite *)
  d_entry : Q * Q;          (* (obj, cons_violation) *)
  d_lag_entry : Q -> Q * Q  (* rho |-> (||grad L_rho||^2, ||c||_2) *)
}.

Record pparams := { pp_rho : Q; pp_opt_tol : Q; pp_infeas_tol : Q }.
Record pstate := { ps_rho : Q; ps_entries : list (Q * Q) }.

Definition c_001 : Q := 5764607523034235 # 576460752303423488.   (* the binary64 value of 0.01 *)

Definition p_init (prm : pparams) : pstate := {| ps_rho := pp_rho prm; ps_entries := [] |}.
Definition p_initial_rho (prm : pparams) : Q := pp_rho prm.

Inductive presult :=
| PRes (st : pstate) (next_rho : Q) (accept : bool)
| PAssert (which : nat).          (* an internal `assert` of penalty.py failed *)

Definition keep (st : pstate) := PRes st (ps_rho st) true.
Definition with_rho (st : pstate) (r : Q) := {| ps_rho := r; ps_entries := ps_entries st |}.

Definition p_update (pol : policy) (prm : pparams) (st : pstate) (d : pdata) : presult :=
  let rho := ps_rho st in
  match pol with
  | Constant => PRes st (pp_rho prm) true
  | DualNorm =>
      if d_m0 d then keep st
      else if negb (qle 0 (d_ynorm d)) then PAssert 1
      else if qle (10 * rho) (d_ynorm d) then
             let next := qmin (d_ynorm d) (10 * rho) in
             if qlt rho next then keep (with_rho st next) else PAssert 2
           else keep st
  | DualEquil =>
      if negb (qle 0 (d_yprod d)) then PAssert 3
      else if negb (qle 0 (d_viol d)) then PAssert 4
      else if qeqb (d_viol d) 0 then keep st
      else let target := c_001 * d_yprod d / d_viol d in
           if qlt rho target then
             let next := qmax (rho * 10) target in
             if qlt rho next then keep (with_rho st next) else PAssert 5
           else keep st
  | Pareto =>
      if qle (d_viol d) (pp_opt_tol prm) then keep st
      else if qle (d_infeas_inf d) (pp_infeas_tol prm) then keep st
      else match d_bound d with
           | None => PAssert 6
           | Some b =>
               let next := qmax (qmin (rho * 10) b) rho in
               if qle rho next then keep (with_rho st next) else PAssert 7
           end
  | ObjFilter | LagFilter =>
      let e := match pol with ObjFilter => d_entry d | _ => d_lag_entry d rho end in
      let '(es, ok) := filter_insert qle (ps_entries st) e in
      if ok then PRes {| ps_rho := rho; ps_entries := es |} rho true
      else PRes {| ps_rho := rho * 10; ps_entries := ps_entries st |} (rho * 10) false
  end.
