(* LinSolve.v — pygradflow/linear_solver/{__init__,lu_solver,gmres_solver,minres_solver}.py: the wrapper
   logic around the scipy backends, which are oracles here.  Definitions only. *)
From Verif Require Export Vec.

Definition c_1e8' : Q := 3022314549036573 # 302231454903657293676544.      (* atol = 1e-8 (binary64) *)

Inductive lres := LOk (v : vec) | LErr.                 (* a vector, or LinearSolverError *)
Inductive lkind := LU | GMRES | MINRES.

(* what the wrapper asks of its backend: the matrix it hands over, the right-hand side, the start *)
Record bcall := { b_mat : mat; b_rhs : vec; b_x0 : option vec; b_trans : bool }.

Section LinSolve.
  (* backends: splu(mat) succeeds or raises RuntimeError; a factor solves for "N" or "T";
     gmres / minres return (vector, info) *)
  Variable splu_ok : mat -> bool.
  Variable lu_backsolve : mat -> bool -> vec -> vec.
  Variable iter_backend : bcall -> vec * Z.

  Variable n : nat.                 (* dimension *)

  (* construction: LUSolver factorises at once, the iterative solvers only store the matrix;
     MINRESSolver asserts the symmetric flag *)
  Inductive created := Created | CreateErr | CreateAssert.
  Definition create (k : lkind) (A : mat) (symmetric : bool) : created :=
    match k with
    | LU => if splu_ok A then Created else CreateErr
    | GMRES => Created
    | MINRES => if symmetric then Created else CreateAssert
    end.

  Definition residual_inf (A : mat) (x rhs : vec) : Q := norminf (vsub rhs (mvec A x)).

  (* solve(rhs, trans, initial_sol): returns the result and the backend call made (if any) *)
  Definition solve (k : lkind) (A : mat) (rhs : vec) (trans : bool) (x0 : option vec) : lres * option bcall :=
    match k with
    | LU => (LOk (lu_backsolve A trans rhs), Some {| b_mat := A; b_rhs := rhs; b_x0 := None; b_trans := trans |})
    | GMRES =>
        let M := if trans then transpose n A else A in
        let early := match x0 with
                     | Some v => qlt (residual_inf M v rhs) c_1e8'
                     | None => false
                     end in
        if early then (match x0 with Some v => LOk v | None => LErr end, None)
        else
          let c := {| b_mat := M; b_rhs := rhs; b_x0 := x0; b_trans := false |} in
          let '(sol, info) := iter_backend c in
          (if Z.eqb info 0 then LOk sol else LErr, Some c)
    | MINRES =>
        let c := {| b_mat := A; b_rhs := rhs; b_x0 := x0; b_trans := false |} in
        let '(sol, info) := iter_backend c in
        (if Z.eqb info 0 then LOk sol else LErr, Some c)
    end.
End LinSolve.
