(* Flow.v — pygradflow/integration/flow.py and restricted_flow.py: the gradient flow of the augmented Lagrangian
   that IntegrationSolver integrates, and `RestrictedFlow.residuum`, the optimality measure behind its status
   Optimal (tested at the top of every iteration and by the convergence event).  Definitions only.
   Flow.isclose is np.isclose with rtol = atol = 4 eps; on the points the correspondence uses it is equality. *)
From Verif Require Export Iterate.

Section Flow.
  Variable P : problem.
  Variables x y : vec.

  (* Flow.rhs: (-(grad f + J^T (rho c + y)), c) *)
  Definition flow_dx (rho : Q) : vec := vneg (aug_lag_deriv_x P x y rho).
  Definition flow_rhs (rho : Q) : vec := flow_dx rho ++ p_cons P x.
  (* for rho = 0 the multiplier estimate 0 * c + y is y itself (exactly so in binary64 for finite c) *)
  Definition flow_dx0 : vec := vneg (lag_grad P x y).

  Definition at_bound (xi : Q) (b : bnd) : bool := match b with None => false | Some a => qeqb xi a end.

  (* RestrictedFlow.residuum after the repair (F18): the flow for rho = 0 with the components removed that sit at a
     bound and do not point into the box.  The value is the SQUARE of what the code returns (the code takes the
     2-norm). *)
  Definition blocked1 (xi d : Q) (l u : bnd) : bool :=
    (at_bound xi l && qle d 0) || (at_bound xi u && qle 0 d).
  Definition opt_dx : vec :=
    map (fun t => let '(xi, l, u, d) := t in if blocked1 xi d l u then 0 else d)
        (map2 pair (map2 pair (map2 pair x (var_lb P)) (var_ub P)) flow_dx0).
  Definition residuum_sq : Q := normsq (opt_dx ++ p_cons P x).

  (* the measure before the repair: the rho = 0 flow masked by a filter that IntegrationSolver.create_filter
     computed for the CURRENT rho (False = the variable is held at its bound; the ambiguous case of a zero flow
     component at a bound, which the code decides by the second derivative, is not modelled) *)
  Definition filter1 (rho_d : Q) (xi : Q) (l u : bnd) : bool :=
    negb ((at_bound xi l && qlt rho_d 0) || (at_bound xi u && qlt 0 rho_d)).
  Definition create_filter (rho : Q) : mask :=
    map (fun t => let '(xi, l, u, d) := t in filter1 d xi l u)
        (map2 pair (map2 pair (map2 pair x (var_lb P)) (var_ub P)) (flow_dx rho)).
  Definition old_residuum_sq (filt : mask) : Q :=
    normsq (map2 (fun d (b : bool) => if b then d else 0) flow_dx0 filt ++ p_cons P x).
End Flow.
