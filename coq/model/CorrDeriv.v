(* CorrDeriv.v — entry point of the correspondence unit `derivcheck`: Solver.solve(deriv_check=...) on
   problems with one derivative entry corrupted, against DerivCheck.v. *)
From Verif Require Export Transform DerivCheck.

Record dcase := mk_dcase {
  dc_spec : qspec; dc_sc : option scaling;
  dc_which : nat; dc_r : nat; dc_c : nat; dc_delta : Q;       (* corruption of the USER's problem *)
  dc_x0 : vec; dc_y0 : vec; dc_first : bool; dc_second : bool; dc_eps : Q; dc_atol : Q;
  de_res : option (list nat * nat)                            (* DerivError.invalid_indices, col_index *)
}.

Definition dc_run (c : dcase) : option (list nat * nat) :=
  let U := corrupt (quad_problem (dc_spec c)) (dc_which c) (dc_r c) (dc_c c) (dc_delta c) in
  let T := trans_problem (dc_sc c) U in
  let '(x, y) := transform_sol (dc_sc c) U (dc_x0 c) (dc_y0 c) in
  solver_deriv_check T x y (dc_first c) (dc_second c) (dc_eps c) (dc_atol c).

Definition check_derivcheck (c : dcase) : bool :=
  match dc_run c, de_res c with
  | None, None => true
  | Some (rows, col), Some (rows', col') => leqb Nat.eqb rows rows' && Nat.eqb col col'
  | _, _ => false
  end.

(* tag: 0 accepted, 1 rejected + 10 * which *)
Definition tag_derivcheck (c : dcase) : nat :=
  ((match dc_run c with None => 0 | Some _ => 1 end) + 10 * dc_which c)%nat.
