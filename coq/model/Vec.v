(* Vec.v — the numpy idioms used by pygradflow, over exact rationals.
   Model file: definitions only, no proofs (so it still runs when a proof breaks). *)
From Coq Require Export QArith List Bool ZArith.
Export ListNotations.
Open Scope Q_scope.

Definition vec := list Q.
Definition mat := list vec.          (* dense, row major *)

(* comparisons exactly as the float code writes them *)
Definition qle (a b : Q) : bool := Qle_bool a b.            (* a <= b *)
Definition qlt (a b : Q) : bool := negb (Qle_bool b a).     (* a <  b *)
Definition qeqb (a b : Q) : bool := Qeq_bool a b.

(* np.minimum / np.maximum / abs / np.clip (clip = minimum(maximum(x, lo), hi)) *)
Definition qmin (a b : Q) : Q := if qle a b then a else b.
Definition qmax (a b : Q) : Q := if qle a b then b else a.
Definition qabs (a : Q) : Q := if qle 0 a then a else - a.
Definition qclip (x lo hi : Q) : Q := qmin (qmax x lo) hi.

(* bounds that may be infinite: None is -oo for a lower, +oo for an upper bound *)
Definition bnd := option Q.
Definition lb_le (l : bnd) (x : Q) : bool := match l with None => true | Some a => qle a x end.   (* l <= x *)
Definition le_ub (x : Q) (u : bnd) : bool := match u with None => true | Some a => qle x a end.   (* x <= u *)
Definition lt_lb (x : Q) (l : bnd) : bool := match l with None => false | Some a => qlt x a end.  (* x < l  *)
Definition ub_lt (u : bnd) (x : Q) : bool := match u with None => false | Some a => qlt a x end.  (* u < x  *)
Definition clip_b (x : Q) (l u : bnd) : Q :=
  let y := match l with None => x | Some a => qmax x a end in
  match u with None => y | Some b => qmin y b end.
Definition bnd_le (l u : bnd) : bool :=          (* l <= u, l a lower and u an upper bound *)
  match l, u with Some a, Some b => qle a b | _, _ => true end.
Definition bnd_scale (s : Q) (b : bnd) : bnd := option_map (fun a => a * s) b.   (* s > 0 *)

(* elementwise helpers *)
Fixpoint map2 {A B C} (f : A -> B -> C) (a : list A) (b : list B) : list C :=
  match a, b with x :: a', y :: b' => f x y :: map2 f a' b' | _, _ => [] end.
Fixpoint map3 {A B C D} (f : A -> B -> C -> D) (a : list A) (b : list B) (c : list C) : list D :=
  match a, b, c with x :: a', y :: b', z :: c' => f x y z :: map3 f a' b' c' | _, _, _ => [] end.

Definition vadd (a b : vec) : vec := map2 Qplus a b.
Definition vsub (a b : vec) : vec := map2 Qminus a b.
Definition vscale (s : Q) (a : vec) : vec := map (Qmult s) a.
Definition vneg (a : vec) : vec := map Qopp a.
Definition vzero (n : nat) : vec := repeat 0 n.

Fixpoint dot (a b : vec) : Q :=
  match a, b with x :: a', y :: b' => x * y + dot a' b' | _, _ => 0 end.
Definition normsq (a : vec) : Q := dot a a.
Definition norminf (a : vec) : Q := fold_right (fun x acc => qmax (qabs x) acc) 0 a.

(* dense matrices *)
Definition mvec (M : mat) (v : vec) : vec := map (fun r => dot r v) M.            (* M v   *)
Fixpoint tmvec (n : nat) (M : mat) (y : vec) : vec :=                             (* M^T y, n columns *)
  match M, y with
  | r :: M', a :: y' => vadd (vscale a r) (tmvec n M' y')
  | _, _ => vzero n
  end.
Definition madd (A B : mat) : mat := map2 vadd A B.
Definition mscale (s : Q) (A : mat) : mat := map (vscale s) A.
Definition mzero (r c : nat) : mat := repeat (vzero c) r.
Definition col (j : nat) (M : mat) : vec := map (fun r => nth j r 0) M.
Definition transpose (n : nat) (M : mat) : mat := map (fun j => col j M) (seq 0 n).
Definition mmul (n : nat) (A B : mat) : mat :=                                    (* A B, B has n columns *)
  map (fun r => tmvec n B r) A.
Definition ident (n : nat) : mat :=
  map (fun i => map (fun j => if Nat.eqb i j then 1 else 0) (seq 0 n)) (seq 0 n).

(* boolean masks *)
Definition mask := list bool.
Fixpoint select {A} (m : mask) (a : list A) : list A :=                           (* a[m] *)
  match m, a with
  | true :: m', x :: a' => x :: select m' a'
  | false :: m', _ :: a' => select m' a'
  | _, _ => []
  end.
Definition mnot (m : mask) : mask := map negb m.

(* powers of two: ldexp(x, k) = x * 2^k exactly (absent overflow) *)
Definition p2 (k : Z) : Q := Qpower 2 k.
Definition ldexp (x : Q) (k : Z) : Q := x * p2 k.
Definition ldexp_b (b : bnd) (k : Z) : bnd := option_map (fun a => ldexp a k) b.
Arguments p2 : simpl never.
Arguments ldexp : simpl never.

(* vector equality up to Qeq, as a boolean (used by the correspondence checks) *)
Fixpoint veqb (a b : vec) : bool :=
  match a, b with
  | [], [] => true
  | x :: a', y :: b' => qeqb x y && veqb a' b'
  | _, _ => false
  end.
Fixpoint meqb (A B : mat) : bool :=
  match A, B with
  | [], [] => true
  | r :: A', s :: B' => veqb r s && meqb A' B'
  | _, _ => false
  end.
Definition beqb (a b : bnd) : bool :=
  match a, b with None, None => true | Some x, Some y => qeqb x y | _, _ => false end.
Fixpoint leqb {A B} (eqb : A -> B -> bool) (a : list A) (b : list B) : bool :=
  match a, b with
  | [], [] => true
  | x :: a', y :: b' => eqb x y && leqb eqb a' b'
  | _, _ => false
  end.

(* indices of failing cases: what the generated case files print *)
Fixpoint failing_from {A} (i : nat) (f : A -> bool) (cs : list A) : list nat :=
  match cs with
  | [] => []
  | c :: cs' => if f c then failing_from (S i) f cs' else i :: failing_from (S i) f cs'
  end.
Definition failing {A} (f : A -> bool) (cs : list A) : list nat := failing_from 0 f cs.

(* is an exact rational a binary64 number (ignoring the exponent range)?  Used only to discard, and
   count, generated cases on which the float computation cannot have been exact. *)
Fixpoint pos_pow2 (d : positive) : bool :=
  match d with xH => true | xO d' => pos_pow2 d' | xI _ => false end.
Fixpoint pos_odd_part (n : positive) : positive :=
  match n with xO n' => pos_odd_part n' | _ => n end.
Definition representable (q : Q) : bool :=
  let r := Qred q in
  pos_pow2 (Qden r)
  && match Qnum r with
     | Z0 => true
     | Zpos n | Zneg n => Pos.ltb (pos_odd_part n) 9007199254740992
     end.
Definition vrepr (v : vec) : bool := forallb representable v.
Definition mrepr (M : mat) : bool := forallb vrepr M.
