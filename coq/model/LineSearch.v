(* LineSearch.v — pygradflow/newton.py: GlobalizedNewtonMethod.step, the Newton step with the Armijo
   backtracking line search on the merit function 1/2 |F|^2 of the step solver's function.  Definitions only.
   The code, in order: refresh derivatives and active set at the current iterate (as the Full variant does),
   solve once, return that step if the residual is already below newton_tol; otherwise form
   ip = <D^T F, (dx, dy)> and try alpha = 1, 1/2, 1/4, ... (at most 30 trials), each trial point being
   (clip(x - alpha dx, lb, ub), y - alpha dy); the first trial whose merit is below newton_tol or below
   res + 1e-4 alpha ip is taken; if none is, the code raises. *)
From Verif Require Export StepSolvers.

Definition c_1e4 : Q := 7378697629483821 # 73786976294838206464.      (* the binary64 value of 1e-4 *)
Definition half_sq (v : vec) : Q := (1 # 2) * dot v v.
Definition max_trials : nat := 30.

(* a cheap normal form for dyadic numbers (common factors of two stripped): the value is unchanged; used between
   steps only to keep the fractions the model computes with small (QArith never reduces) *)
Fixpoint strip2 (n : Z) (d : positive) : Z * positive :=
  match d with
  | xO d' => if Z.even n then strip2 (Z.div2 n) d' else (n, d)
  | _ => (n, d)
  end.
Definition qnorm (q : Q) : Q := let '(n, d) := strip2 (Qnum q) (Qden q) in n # d.

Section Globalized.
  Variable P : problem.
  Variables xh yh : vec.
  Variable dt rho : Q.
  Variable kind : solver_kind.
  Variable tau : option Q.
  Variable tol : Q.

  (* self.func.value_at(iterate, rho) / deriv_at(iterate, rho): the active set defaults to the one computed
     WITHOUT tau *)
  Definition g_value (x y : vec) : vec :=
    match kind with
    | KStandard => value_at P xh yh dt rho x y (active_set P xh dt rho None x y)
    | _ => s_value_at P xh yh dt rho x y (s_active_set P xh dt rho None x y)
    end.
  Definition g_deriv (x y : vec) : mat :=
    match kind with
    | KStandard => deriv P dt (it_jac P x) (aug_lag_deriv_xx P x y rho) (active_set P xh dt rho None x y)
    | _ => s_deriv P dt (it_jac P x) (aug_lag_deriv_xx P x y rho) (s_active_set P xh dt rho None x y)
    end.
  Definition merit (x y : vec) : Q := half_sq (g_value x y).

  Definition trial_point (x y dx0 dy0 : vec) (alpha : Q) : vec * vec :=
    (map3 clip_b (vsub x (vscale alpha dx0)) (var_lb P) (var_ub P), vsub y (vscale alpha dy0)).

  Definition accepts (res ip : Q) (x y dx0 dy0 : vec) (alpha : Q) : bool :=
    let '(xt, yt) := trial_point x y dx0 dy0 alpha in
    let r := merit xt yt in
    qle r tol || qle r (res + c_1e4 * alpha * ip).

  (* the for loop: Some alpha = the accepted step length, None = "Line search failed to converge" *)
  Fixpoint search (fuel : nat) (res ip : Q) (x y dx0 dy0 : vec) (alpha : Q) : option Q :=
    match fuel with
    | O => None
    | S f => if accepts res ip x y dx0 dy0 alpha then Some alpha
             else search f res ip x y dx0 dy0 ((1 # 2) * alpha)
    end.

  Definition search_ip (x y dx0 dy0 : vec) : Q :=
    let g := tmvec (nvars P + ncons P) (g_deriv x y) (g_value x y) in
    dot (firstn (nvars P) g) dx0 + dot (skipn (nvars P) g) dy0.

  (* (matrix, rhs, result); result None = the code raised *)
  Definition globalized_step (x y sol : vec) : mat * vec * option (vec * vec * vec * vec) :=
    let '(M, r, (dx0, dy0, xn0, yn0)) := newton_step P xh yh dt rho kind Full tau x y sol in
    let res := merit x y in
    if qle res tol then (M, r, Some (dx0, dy0, xn0, yn0))
    else
      match search max_trials res (search_ip x y dx0 dy0) x y dx0 dy0 1 with
      | None => (M, r, None)
      | Some alpha => (M, r, Some (step_result P x y (vscale alpha dx0) (vscale alpha dy0)))
      end.

  Fixpoint globalized_steps (x y : vec) (sols : list vec) : list (mat * vec * option (vec * vec * vec * vec)) :=
    match sols with
    | [] => []
    | s :: sols' =>
        let r := globalized_step x y s in
        match snd r with
        | Some (_, _, xn, yn) => r :: globalized_steps (map qnorm xn) (map qnorm yn) sols'
        | None => [r]
        end
    end.
End Globalized.
