(* Problem.v — pygradflow/problem.py: a problem is five callbacks and four bound vectors.
   In theorems the callbacks are arbitrary functions; `quad_problem` is the concrete quadratic
   instance used to run the model against the implementation. *)
From Verif Require Export Vec.

Record problem := mk_problem {
  nvars : nat;
  ncons : nat;
  p_obj : vec -> Q;
  p_grad : vec -> vec;
  p_cons : vec -> vec;
  p_jac : vec -> mat;            (* ncons rows, nvars columns *)
  p_hess : vec -> vec -> mat;    (* Hessian of f + y.c *)
  var_lb : list bnd;
  var_ub : list bnd;
  cons_lb : list bnd;
  cons_ub : list bnd
}.

(* f(x) = 1/2 x'Px + q'x + r,  c_i(x) = 1/2 x'A_i x + b_i'x + c0_i  (P, A_i symmetric) *)
Record qspec := mk_qspec {
  qP : mat; qq : vec; qr : Q;
  qA : list mat; qB : mat; qc0 : vec;
  q_lb : list bnd; q_ub : list bnd; q_cl : list bnd; q_cu : list bnd
}.

Definition quad_form (M : mat) (x : vec) : Q := dot x (mvec M x).
Definition q_obj (s : qspec) (x : vec) : Q := (1 # 2) * quad_form (qP s) x + dot (qq s) x + qr s.
Definition q_grad (s : qspec) (x : vec) : vec := vadd (mvec (qP s) x) (qq s).
Definition q_cons (s : qspec) (x : vec) : vec :=
  map3 (fun A b c0 => (1 # 2) * quad_form A x + dot b x + c0) (qA s) (qB s) (qc0 s).
Definition q_jac (s : qspec) (x : vec) : mat :=
  map2 (fun A b => vadd (mvec A x) b) (qA s) (qB s).
Definition q_hess (s : qspec) (x y : vec) : mat :=
  fold_right madd (qP s) (map2 mscale y (qA s)).

Definition quad_problem (s : qspec) : problem :=
  {| nvars := length (qq s); ncons := length (qc0 s);
     p_obj := q_obj s; p_grad := q_grad s; p_cons := q_cons s; p_jac := q_jac s; p_hess := q_hess s;
     var_lb := q_lb s; var_ub := q_ub s; cons_lb := q_cl s; cons_ub := q_cu s |}.

(* x within the variable bounds, exactly *)
Definition in_box (lb ub : list bnd) (x : vec) : bool :=
  forallb (fun b => b) (map3 (fun l u xi => lb_le l xi && le_ub xi u) lb ub x).
