(* AutoScale.v — pygradflow/scale.py: the automatic scalings (Scaling.from_nominal_values,
   from_grad_jac, from_equilibrated_kkt / scale_symmetric).  Definitions only. *)
From Verif Require Export Scale.

Definition c_1e10 : Q := 7737125245533627 # 77371252455336267181195264.      (* the binary64 value of 1e-10 *)

(* np.frexp(x)[1]: the e with 2^(e-1) <= |x| < 2^e, and 0 for x = 0 *)
Definition frexp_exp (x : Q) : Z :=
  match Qnum x with
  | Z0 => 0%Z
  | Zpos n | Zneg n =>
      let e0 := (Z.log2 (Zpos n) - Z.log2 (Zpos (Qden x)))%Z in
      if qle (p2 e0) (qabs x) then (e0 + 1)%Z else e0
  end.

(* Scaling.weights_from_nominal_values: 1 - frexp exponent *)
Definition wfn (x : Q) : Z := (1 - frexp_exp x)%Z.

Definition from_nominal (vars cons : vec) (obj : Q) : scaling :=
  mk_scaling (map wfn vars) (map wfn cons) (wfn obj).

(* Scaling.from_grad_jac: var weights -wfn(|g_j|); cons weights wfn(max_j |J_ij| 2^(-v_j)) over the stored
   entries of row i (0 for a row without entries) *)
Definition gj_var_weights (g : vec) : list Z := map (fun gj => (- wfn (qabs gj))%Z) g.
Definition row_max (row : vec) (vws : list Z) : Q :=
  fold_right (fun v acc => qmax v acc) 0 (map2 (fun v vj => ldexp (qabs v) (- vj)) row vws).
Definition from_grad_jac (g : vec) (J : mat) : scaling :=
  let vws := gj_var_weights g in
  mk_scaling vws (map (fun row => wfn (row_max row vws)) J) 0.

(* scale_symmetric on a COO matrix (entries (row, col, |value|)), n columns *)
Definition entry := (nat * nat * Q)%type.
Definition col_sums (n : nat) (es : list entry) : vec :=
  map (fun j => fold_right (fun (e : entry) acc => let '(_, c, v) := e in if Nat.eqb c j then v + acc else acc) 0 es)
      (seq 0 n).
(* 1 - frexp(sqrt(R))[1] with R < 1e-10 replaced by 1; frexp_exp(sqrt R) = ceil(frexp_exp(R) / 2) *)
Definition rsca (R : Q) : Z :=
  let R' := if qlt R c_1e10 then 1 else R in
  (1 - (frexp_exp R' + 1) / 2)%Z.
Definition rescale (es : list entry) (s : list Z) : list entry :=
  map (fun e : entry => let '(r, c, v) := e in (r, c, ldexp v (nth r s 0%Z + nth c s 0%Z))) es.

Fixpoint scale_sym_loop (fuel : nat) (n : nat) (es : list entry) (D : list Z) : option (list Z) :=
  match fuel with
  | O => None                                           (* "Equilibration failed to converge" *)
  | S f =>
      let s := map rsca (col_sums n es) in
      if forallb (fun z => Z.eqb z 0) s then Some D
      else scale_sym_loop f n (rescale es s) (map2 Z.add D s)
  end.
Definition scale_symmetric (n : nat) (es : list entry) : option (list Z) :=
  scale_sym_loop 100 n (map (fun e : entry => let '(r, c, v) := e in (r, c, qabs v)) es) (repeat 0%Z n).

(* Scaling.from_equilibrated_kkt: KKT = [[H, J^T], [J, 0]] as COO entries of the dense blocks' stored entries *)
Definition dense_entries (r0 c0 : nat) (M : mat) : list entry :=
  concat (map2 (fun i row => map2 (fun j v => ((r0 + i)%nat, (c0 + j)%nat, v)) (seq 0 (length row)) row)
               (seq 0 (length M)) M).
Definition kkt_entries (n : nat) (H J : mat) : list entry :=
  dense_entries 0 0 H ++ dense_entries 0 n (transpose n J) ++ dense_entries n 0 J.
Definition from_kkt (n m : nat) (H J : mat) : option scaling :=
  match scale_symmetric (n + m) (kkt_entries n H J) with
  | Some w => Some (mk_scaling (map Z.opp (firstn n w)) (skipn n w) 0)
  | None => None
  end.

(* scale.py create_scaling: the scaling a Solver computes for itself from the problem at the scaling point
   (kind 0: ScalingType.Nominal, 1: GradJac, otherwise KKT) *)
Definition create_scaling (kind : nat) (P : problem) (xs ys : vec) : option scaling :=
  match kind with
  | 0%nat => Some (from_nominal xs (p_cons P xs) 1)
  | 1%nat => Some (from_grad_jac (p_grad P xs) (p_jac P xs))
  | _ => from_kkt (nvars P) (ncons P) (p_hess P xs ys) (p_jac P xs)
  end.
