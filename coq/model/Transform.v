(* Transform.v — pygradflow/transform.py: Transformation = ConstrainedProblem o ScaledProblem. *)
From Verif Require Export Scale Slack.

Definition scaled_of (sc : option scaling) (P : problem) : problem :=
  match sc with None => P | Some s => scaled_problem s P end.
Definition trans_problem (sc : option scaling) (P : problem) : problem := cons_problem (scaled_of sc P).

Definition transform_sol (sc : option scaling) (P : problem) (x y : vec) : vec * vec :=
  match sc with
  | None => cp_transform_sol P x y
  | Some s => cp_transform_sol (scaled_problem s P) (scale_primal s x) (scale_dual s y)
  end.

Definition restore_sol (sc : option scaling) (P : problem) (x y d : vec) : vec * vec * vec :=
  let '(x1, y1, d1) := cp_restore_sol (scaled_of sc P) x y d in
  match sc with
  | None => (x1, y1, d1)
  | Some s => (unscale_primal s x1, unscale_dual s y1, unscale_bounds_dual s d1)
  end.

(* create_transformed_iterate with x0 = None: clip(0, lb, ub) *)
Definition default_x0 (P : problem) : vec := map2 (fun l u => clip_b 0 l u) (var_lb P) (var_ub P).
