(* Eval.v — pygradflow/eval.py: ValidatingEvaluator.  A callback result is a list of entries, None standing
   for a non-finite value (nan, +inf, -inf); the evaluator raises EvalError on a wrong shape or any
   non-finite entry and otherwise hands the values on.  Definitions only. *)
From Verif Require Export Vec.

Inductive comp := CObj | CGrad | CCons | CJac | CHess.
Inductive eres := EOk (vals : list Q) | ERaise.

(* shape: the number of entries the evaluator expects (rows * columns for matrices are checked via the
   matrix shape; here `shape_ok` is the result of that comparison) *)
Definition validate (c : comp) (num_cons : nat) (shape_ok : bool) (vals : list (option Q)) : eres :=
  match c with
  | CCons | CJac => if Nat.eqb num_cons 0 then EOk [] else
      if negb shape_ok then ERaise
      else if forallb (fun v => match v with Some _ => true | None => false end) vals
           then EOk (map (fun v => match v with Some q => q | None => 0 end) vals) else ERaise
  | CObj =>
      if forallb (fun v => match v with Some _ => true | None => false end) vals
      then EOk (map (fun v => match v with Some q => q | None => 0 end) vals) else ERaise
  | _ => if negb shape_ok then ERaise
         else if forallb (fun v => match v with Some _ => true | None => false end) vals
              then EOk (map (fun v => match v with Some q => q | None => 0 end) vals) else ERaise
  end.

(* entry point of the correspondence unit `evaluator` *)
Definition comp_of (k : nat) : comp :=
  match k with 0%nat => CObj | 1%nat => CGrad | 2%nat => CCons | 3%nat => CJac | _ => CHess end.
Definition check_evaluator (c : nat * nat * bool * list (option Q) * option (list Q)) : bool :=
  let '(k, m, sh, vals, expect) := c in
  match validate (comp_of k) m sh vals, expect with
  | EOk v, Some w => veqb v w
  | ERaise, None => true
  | _, _ => false
  end.
Definition tag_evaluator (c : nat * nat * bool * list (option Q) * option (list Q)) : nat :=
  let '(k, m, sh, vals, expect) := c in
  (k + match validate (comp_of k) m sh vals with EOk _ => 0 | ERaise => 10 end)%nat.

(* ---- StepResult._compute_xn on arbitrary floats (entry point of the unit `compute_xn`) ---- *)
