(* PICtl.v — pygradflow/controller.py: the linear PI controller (Controller) that LogController runs on log scale.
   Definitions only. *)
From Verif Require Export Vec.

Record pi_cfg := mk_pi_cfg { pi_KP : Q; pi_KI : Q; pi_ref : Q }.
(* state: the accumulated error (Controller.error_sum); reset() zeroes it *)
Definition pi_update (c : pi_cfg) (sum val : Q) : Q * Q :=        (* (new error_sum, returned value) *)
  let e := pi_ref c - val in
  let sum' := sum + e in
  (sum', pi_KP c * e + pi_KI c * sum').

Inductive pi_op := PiUpdate (val : Q) | PiReset.
Fixpoint pi_run (c : pi_cfg) (sum : Q) (ops : list pi_op) : list Q :=      (* the values returned by the updates *)
  match ops with
  | [] => []
  | PiReset :: ops' => pi_run c 0 ops'
  | PiUpdate v :: ops' => let '(s', out) := pi_update c sum v in out :: pi_run c s' ops'
  end.

(* correspondence unit `pictl` *)
Record picase := mk_picase { pc_cfg : pi_cfg; pc_ops : list pi_op; pce_outs : vec }.
Definition check_pictl (c : picase) : bool := veqb (pi_run (pc_cfg c) 0 (pc_ops c)) (pce_outs c).
Definition tag_pictl (c : picase) : nat :=
  (Nat.min 9 (length (pi_run (pc_cfg c) 0 (pc_ops c)))
   + 10 * (if existsb (fun o => match o with PiReset => true | _ => false end) (pc_ops c) then 1 else 0))%nat.
