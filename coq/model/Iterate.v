(* Iterate.v — pygradflow/iterate.py and active_set.py: residuals, bound multipliers and
   augmented-Lagrangian derivatives at a point (x, y) of a problem. *)
From Verif Require Export Problem.

Section Iterate.
  Variable P : problem.
  Variable atol : Q.            (* params.active_tol *)
  Variables x y : vec.

  Definition n_ := nvars P.
  Definition it_obj := p_obj P x.
  Definition it_grad := p_grad P x.
  Definition it_cons := p_cons P x.
  Definition it_jac := p_jac P x.

  (* ActiveSet *)
  Definition near_lower (xi : Q) (l : bnd) : bool :=
    match l with None => false | Some a => qle (qabs (xi - a)) atol end.
  Definition near_upper (xi : Q) (u : bnd) : bool :=
    match u with None => false | Some b => qle (qabs (b - xi)) atol end.
  Definition viol_lower (xi : Q) (l : bnd) : bool :=
    match l with None => false | Some a => qlt atol (a - xi) end.
  Definition viol_upper (xi : Q) (u : bnd) : bool :=
    match u with None => false | Some b => qlt atol (xi - b) end.

  Definition as_both : mask := map3 (fun xi l u => near_lower xi l && near_upper xi u) x (var_lb P) (var_ub P).
  Definition as_lower : mask := map3 (fun xi l u => near_lower xi l && negb (near_upper xi u)) x (var_lb P) (var_ub P).
  Definition as_upper : mask := map3 (fun xi l u => near_upper xi u && negb (near_lower xi l)) x (var_lb P) (var_ub P).
  Definition as_violated : mask := map3 (fun xi l u => viol_lower xi l || viol_upper xi u) x (var_lb P) (var_ub P).

  (* one component of bounds_dual, given r_j = -(g + J^T y)_j *)
  Definition bdual1 (xi : Q) (l u : bnd) (r : Q) : Q :=
    let lo := near_lower xi l in
    let up := near_upper xi u in
    if lo && up then r
    else if lo then qmin r 0
    else if up then qmax r 0
    else 0.

  Definition lag_grad : vec := vadd it_grad (tmvec n_ it_jac y).            (* g + J^T y *)
  Definition bounds_dual : vec :=
    map (fun t => let '(xi, l, u, r) := t in bdual1 xi l u r)
        (map2 pair (map2 pair (map2 pair x (var_lb P)) (var_ub P)) (vneg lag_grad)).
  Definition stat_res : Q := norminf (vadd lag_grad bounds_dual).

  Definition bound_violation : Q :=
    let lower := norminf (map2 (fun l xi => match l with None => 0 | Some a => qmax (a - xi) 0 end) (var_lb P) x) in
    let upper := norminf (map2 (fun u xi => match u with None => 0 | Some b => qmax (xi - b) 0 end) (var_ub P) x) in
    qmax lower upper.
  Definition cons_violation : Q := norminf it_cons.
  Definition total_res : Q := qmax (qmax cons_violation bound_violation) stat_res.
  Definition is_feasible (tol : Q) : bool := qle cons_violation tol && qle bound_violation tol.

  (* locally_infeasible(feas_tol, local_infeas_tol) *)
  Definition infeas_clamp1 (xi : Q) (l u : bnd) (r : Q) : Q :=
    let lo := near_lower xi l in
    let up := near_upper xi u in
    if lo && negb up then qmin r 0
    else if up && negb lo then qmax r 0
    else r.
  Definition infeas_res : vec :=
    map (fun t => let '(xi, l, u, r) := t in infeas_clamp1 xi l u r)
        (map2 pair (map2 pair (map2 pair x (var_lb P)) (var_ub P)) (tmvec n_ it_jac it_cons)).
  Definition locally_infeasible (feas_tol infeas_tol : Q) : bool :=
    if qle cons_violation feas_tol then false else qle (norminf infeas_res) infeas_tol.

  (* augmented Lagrangian *)
  Definition aug_lag (rho : Q) : Q :=
    it_obj + rho / 2 * dot it_cons it_cons + dot it_cons y.
  Definition aug_lag_deriv_x (rho : Q) : vec :=
    vadd it_grad (tmvec n_ it_jac (vadd (vscale rho it_cons) y)).
  Definition aug_lag_deriv_y : vec := it_cons.
  Definition aug_lag_deriv_xx (rho : Q) : mat :=
    let mlt := vadd y (vscale rho it_cons) in
    madd (p_hess P x mlt) (mscale rho (mmul n_ (transpose n_ it_jac) it_jac)).
  Definition it_z : vec := x ++ y.
End Iterate.
