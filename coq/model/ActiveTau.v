(* ActiveTau.v — pygradflow/step/newton_control.py: NewtonController.tau_vals / compute_tau, the parameter tau of
   the active-set rules (ActiveSetType.Standard / Explicit / SmallestActiveSet / LargestActiveSet).
   Breakpoints may be +inf (a variable that moves towards an infinite bound).  Definitions only. *)
From Verif Require Export Implicit.

Inductive ext := Fin (q : Q) | PInf.

(* np.isclose(g, 0.0): |g| <= 1e-8 *)
Definition close0 (g : Q) : bool := qle (qabs g) c_1e8.

(* tau_vals: -1 where the gradient component is (close to) zero, else the step length at which the component moving
   along -g reaches its bound: (x - lb)/g for g > 0, (ub - x)/(-g) for g < 0 *)
Definition tau_val (x g : Q) (l u : bnd) : ext :=
  if close0 g then Fin (-1)
  else if qlt 0 g then match l with Some a => Fin ((x - a) / g) | None => PInf end
  else match u with Some b => Fin ((b - x) / - g) | None => PInf end.
Definition tau_vals (x g : vec) (lb ub : list bnd) : list ext := map4 tau_val x g lb ub.

Definition ext_pos (t : ext) : bool := match t with Fin q => qlt 0 q | PInf => true end.
Definition ext_nonpos (t : ext) : bool := negb (ext_pos t).
Definition ext_min (a b : ext) : ext :=
  match a, b with Fin p, Fin q => Fin (qmin p q) | Fin p, PInf => Fin p | PInf, Fin q => Fin q | PInf, PInf => PInf end.
Definition ext_max (a b : ext) : ext :=
  match a, b with Fin p, Fin q => Fin (qmax p q) | _, _ => PInf end.
Definition ext_half (a : ext) : ext := match a with Fin p => Fin ((1 # 2) * p) | PInf => PInf end.

Inductive as_type := ASStandard | ASExplicit (tau : Q) | ASSmallest | ASLargest.

(* None: tau = None (the standard rule).  np.min / np.max of an EMPTY selection raise ValueError: `TauCrash`. *)
Inductive tau_res := TauNone | TauVal (t : ext) | TauCrash.

Definition compute_tau (k : as_type) (x g : vec) (lb ub : list bnd) : tau_res :=
  match k with
  | ASStandard => TauNone
  | ASExplicit t => TauVal (Fin t)
  | ASSmallest =>
      let tv := tau_vals x g lb ub in
      if forallb ext_nonpos tv then TauVal (Fin 1)
      else match filter ext_pos tv with
           | [] => TauCrash                                   (* np.min of an empty array *)
           | t :: ts => TauVal (ext_half (fold_left ext_min ts t))
           end
  | ASLargest =>
      match tau_vals x g lb ub with
      | [] => TauCrash                                        (* np.max of an empty array: a problem without variables *)
      | t :: ts => TauVal (ext_max (fold_left ext_max ts t) (Fin 1))
      end
  end.

(* correspondence unit `compute_tau`: expected result 0 = None, 1 = finite value v, 2 = +inf, 3 = ValueError *)
Record taucase := mk_taucase {
  tc_kind : nat; tc_tau : Q; tc_x : vec; tc_g : vec; tc_lb : list bnd; tc_ub : list bnd;
  tce_code : nat; tce_val : Q
}.
Definition tc_type (c : taucase) : as_type :=
  match tc_kind c with 0%nat => ASStandard | 1%nat => ASExplicit (tc_tau c) | 2%nat => ASSmallest | _ => ASLargest end.
Definition check_compute_tau (c : taucase) : bool :=
  match compute_tau (tc_type c) (tc_x c) (tc_g c) (tc_lb c) (tc_ub c) with
  | TauNone => Nat.eqb (tce_code c) 0
  | TauVal (Fin v) => Nat.eqb (tce_code c) 1 && qeqb v (tce_val c)
  | TauVal PInf => Nat.eqb (tce_code c) 2
  | TauCrash => Nat.eqb (tce_code c) 3
  end.
Definition tag_compute_tau (c : taucase) : nat :=
  (tc_kind c + 10 * match compute_tau (tc_type c) (tc_x c) (tc_g c) (tc_lb c) (tc_ub c) with
                    | TauNone => 0 | TauVal (Fin _) => 1 | TauVal PInf => 2 | TauCrash => 3 end
   + 100 * (if existsb (fun t => match t with PInf => true | _ => false end) (tau_vals (tc_x c) (tc_g c) (tc_lb c) (tc_ub c)) then 1 else 0))%nat.
