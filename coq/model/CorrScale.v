(* CorrScale.v — entry point of the correspondence unit `autoscale` (Scaling.from_nominal_values /
   from_grad_jac / from_equilibrated_kkt). *)
From Verif Require Export AutoScale.

Definition zlist_eqb (a b : list Z) : bool := leqb Z.eqb a b.

(* kind 0: nominal (vars, cons); 1: grad/jac; 2: KKT.  expected: (var weights, cons weights, obj weight) or None *)
Record acase := mk_acase {
  ac_kind : nat; ac_v1 : vec; ac_v2 : vec; ac_H : mat; ac_J : mat;
  ae_res : option (list Z * list Z * Z)
}.

Definition ac_run (c : acase) : option scaling :=
  match ac_kind c with
  | 0%nat => Some (from_nominal (ac_v1 c) (ac_v2 c) 1)
  | 1%nat => Some (from_grad_jac (ac_v1 c) (ac_J c))
  | _ => from_kkt (length (ac_H c)) (length (ac_J c)) (ac_H c) (ac_J c)
  end.

Definition check_autoscale (c : acase) : bool :=
  match ac_run c, ae_res c with
  | Some s, Some (v, w, o) => zlist_eqb (vw s) v && zlist_eqb (cw s) w && Z.eqb (ow s) o
  | None, None => true
  | _, _ => false
  end.

(* tag = kind + 10 * (some weight is positive, i.e. some magnitude was below one) + 100 * (some weight non-zero) *)
Definition tag_autoscale (c : acase) : nat :=
  match ac_run c with
  | Some s => (ac_kind c + (if existsb (fun z => Z.ltb 0 z) (cw s ++ map Z.opp (vw s)) then 10 else 0)
               + (if existsb (fun z => negb (Z.eqb z 0)) (cw s ++ vw s) then 100 else 0))%nat
  | None => (ac_kind c + 1000)%nat
  end.

(* unit `create_scaling`: Solver(problem, Params(scaling_type = ..., scaling_primal = xs, scaling_dual = ys)).transform.scaling *)
Record cscase := mk_cscase {
  cs_kind : nat; cs_spec : qspec; cs_xs : vec; cs_ys : vec;
  cse_res : option (list Z * list Z * Z)
}.
Definition cs_run (c : cscase) : option scaling := create_scaling (cs_kind c) (quad_problem (cs_spec c)) (cs_xs c) (cs_ys c).
Definition check_create_scaling (c : cscase) : bool :=
  match cs_run c, cse_res c with
  | Some s, Some (v, w, o) => zlist_eqb (vw s) v && zlist_eqb (cw s) w && Z.eqb (ow s) o
  | None, None => true
  | _, _ => false
  end.
Definition tag_create_scaling (c : cscase) : nat :=
  match cs_run c with
  | Some s => (cs_kind c + (if existsb (fun z => Z.ltb 0 z) (cw s ++ map Z.opp (vw s)) then 10 else 0)
               + (if existsb (fun z => negb (Z.eqb z 0)) (cw s ++ vw s) then 100 else 0))%nat
  | None => (cs_kind c + 1000)%nat
  end.
