(* CorrNumeric.v — entry points for the correspondence units `transform` and `iterate`. *)
From Verif Require Export Transform Iterate.

Definition bvec_eqb (a b : list bnd) : bool := leqb beqb a b.
Definition mask_eqb (a b : mask) : bool := leqb Bool.eqb a b.

(* ---- unit transform: every callback of Transformation(...).trans_problem, transform_sol, restore_sol ---- *)
Record tcase := mk_tcase {
  tc_spec : qspec; tc_sc : option scaling;
  tc_x : vec; tc_y : vec;            (* internal point and multiplier *)
  tc_x0 : vec; tc_y0 : vec;          (* user start, for transform_sol *)
  tc_d : vec;                        (* internal bound multipliers, for restore_sol *)
  te_obj : Q; te_grad : vec; te_cons : vec; te_jac : mat; te_hess : mat;
  te_lb : list bnd; te_ub : list bnd;
  te_tx : vec; te_ty : vec;
  te_rx : vec; te_ry : vec; te_rd : vec
}.

Definition check_transform (c : tcase) : bool :=
  let P := quad_problem (tc_spec c) in
  let T := trans_problem (tc_sc c) P in
  let '(tx, ty) := transform_sol (tc_sc c) P (tc_x0 c) (tc_y0 c) in
  let '(rx, ry, rd) := restore_sol (tc_sc c) P (tc_x c) (tc_y c) (tc_d c) in
  qeqb (p_obj T (tc_x c)) (te_obj c)
  && veqb (p_grad T (tc_x c)) (te_grad c)
  && veqb (p_cons T (tc_x c)) (te_cons c)
  && meqb (p_jac T (tc_x c)) (te_jac c)
  && meqb (p_hess T (tc_x c) (tc_y c)) (te_hess c)
  && bvec_eqb (var_lb T) (te_lb c) && bvec_eqb (var_ub T) (te_ub c)
  && veqb tx (te_tx c) && veqb ty (te_ty c)
  && veqb rx (te_rx c) && veqb ry (te_ry c) && veqb rd (te_rd c).

(* tag = #slack rows + 10 * #equality rows with an offset + 100 * (scaled?) *)
Definition tag_transform (c : tcase) : nat :=
  let P := scaled_of (tc_sc c) (quad_problem (tc_spec c)) in
  (num_slacks P
   + 10 * length (filter (fun o => negb (qeqb o 0)) (cons_offsets P))
   + 100 * (match tc_sc c with None => 0 | Some _ => 1 end))%nat.

(* ---- unit iterate: Iterate(...) residuals, multipliers, active set, augmented Lagrangian ---- *)
Record icase := mk_icase {
  ic_spec : qspec; ic_sc : option scaling; ic_trans : bool;   (* evaluate on trans_problem or on the raw problem *)
  ic_atol : Q; ic_x : vec; ic_y : vec; ic_rho : Q; ic_ftol : Q; ic_itol : Q;
  ie_obj : Q; ie_bdual : vec; ie_stat : Q; ie_bviol : Q; ie_cviol : Q; ie_total : Q;
  ie_linf : bool; ie_feas : bool;
  ie_al : Q; ie_alx : vec; ie_alxx : mat;
  ie_lower : mask; ie_upper : mask; ie_both : mask; ie_viol : mask
}.

Definition ic_problem (c : icase) : problem :=
  if ic_trans c then trans_problem (ic_sc c) (quad_problem (ic_spec c)) else quad_problem (ic_spec c).

Definition check_iterate (c : icase) : bool :=
  let P := ic_problem c in
  let a := ic_atol c in let x := ic_x c in let y := ic_y c in
  qeqb (it_obj P x) (ie_obj c)
  && veqb (bounds_dual P a x y) (ie_bdual c)
  && qeqb (stat_res P a x y) (ie_stat c)
  && qeqb (bound_violation P x) (ie_bviol c)
  && qeqb (cons_violation P x) (ie_cviol c)
  && qeqb (total_res P a x y) (ie_total c)
  && Bool.eqb (locally_infeasible P a x (ic_ftol c) (ic_itol c)) (ie_linf c)
  && Bool.eqb (is_feasible P x (ic_ftol c)) (ie_feas c)
  && qeqb (aug_lag P x y (ic_rho c)) (ie_al c)
  && veqb (aug_lag_deriv_x P x y (ic_rho c)) (ie_alx c)
  && meqb (aug_lag_deriv_xx P x y (ic_rho c)) (ie_alxx c)
  && mask_eqb (as_lower P a x) (ie_lower c) && mask_eqb (as_upper P a x) (ie_upper c)
  && mask_eqb (as_both P a x) (ie_both c) && mask_eqb (as_violated P a x) (ie_viol c).

Definition count_true (m : mask) : N := N.of_nat (length (filter (fun b => b) m)).
(* tag = #at_lower + 10 #at_upper + 100 #at_both + 1000 #violated + 10000 locally_infeasible *)
Definition tag_iterate (c : icase) : N :=
  let P := ic_problem c in
  (count_true (as_lower P (ic_atol c) (ic_x c)) + 10 * count_true (as_upper P (ic_atol c) (ic_x c))
   + 100 * count_true (as_both P (ic_atol c) (ic_x c)) + 1000 * count_true (as_violated P (ic_atol c) (ic_x c))
   + 10000 * (if locally_infeasible P (ic_atol c) (ic_x c) (ic_ftol c) (ic_itol c) then 1 else 0))%N.

(* all the model's numeric outputs are binary64 numbers (else the float run was necessarily inexact) *)
Definition exact_iterate (c : icase) : bool :=
  let P := ic_problem c in
  let a := ic_atol c in let x := ic_x c in let y := ic_y c in
  representable (it_obj P x) && vrepr (bounds_dual P a x y) && representable (stat_res P a x y)
  && representable (cons_violation P x) && representable (aug_lag P x y (ic_rho c))
  && representable (dot (it_cons P x) (it_cons P x))
  && vrepr (aug_lag_deriv_x P x y (ic_rho c)) && mrepr (aug_lag_deriv_xx P x y (ic_rho c)).
Definition exact_transform (c : tcase) : bool :=
  let P := quad_problem (tc_spec c) in
  let T := trans_problem (tc_sc c) P in
  representable (p_obj T (tc_x c)) && vrepr (p_grad T (tc_x c)) && vrepr (p_cons T (tc_x c))
  && mrepr (p_jac T (tc_x c)) && mrepr (p_hess T (tc_x c) (tc_y c)).
