(* Slack.v — pygradflow/cons_problem.py: ConstrainedProblem (slack/offset embedding). *)
From Verif Require Export Problem.

(* lb == ub on a row: an equality row (no slack) *)
Definition is_eq_row (l u : bnd) : bool :=
  match l, u with Some a, Some b => qeqb a b | _, _ => false end.

Definition slack_mask (P : problem) : mask := map2 (fun l u => negb (is_eq_row l u)) (cons_lb P) (cons_ub P).
Definition num_slacks (P : problem) : nat := length (filter (fun b => b) (slack_mask P)).

(* cons_offsets: -lb on equality rows (the code stores them only if some lb <> 0; adding 0 is the identity) *)
Definition cons_offsets (P : problem) : vec :=
  map2 (fun l u => if is_eq_row l u then match l with Some a => - a | None => 0 end else 0)
       (cons_lb P) (cons_ub P).

Definition orig_vals (P : problem) (x : vec) : vec := firstn (nvars P) x.
Definition slack_vals (P : problem) (x : vec) : vec := skipn (nvars P) x.

(* orig_cons[pos] -= val for (pos, val) in zip(slack_positions, slack_vals) *)
Fixpoint sub_slacks (m : mask) (c s : vec) : vec :=
  match m, c with
  | true :: m', ci :: c' =>
      match s with
      | sj :: s' => (ci - sj) :: sub_slacks m' c' s'
      | [] => ci :: sub_slacks m' c' []
      end
  | false :: m', ci :: c' => ci :: sub_slacks m' c' s
  | _, _ => []
  end.

(* row i of the block [-1 at (slack_positions[k], k)] *)
Fixpoint slack_rows (m : mask) (k ns : nat) : mat :=
  match m with
  | [] => []
  | true :: m' => map (fun j => if Nat.eqb j k then - (1) else 0) (seq 0 ns) :: slack_rows m' (S k) ns
  | false :: m' => vzero ns :: slack_rows m' k ns
  end.

Definition cons_problem (P : problem) : problem :=
  let mk := slack_mask P in
  let ns := num_slacks P in
  {| nvars := (nvars P + ns)%nat; ncons := ncons P;
     p_obj := fun x => p_obj P (orig_vals P x);
     p_grad := fun x => p_grad P (orig_vals P x) ++ vzero ns;
     p_cons := fun x => sub_slacks mk (vadd (p_cons P (orig_vals P x)) (cons_offsets P)) (slack_vals P x);
     p_jac := fun x => map2 (fun r e => r ++ e) (p_jac P (orig_vals P x)) (slack_rows mk 0 ns);
     p_hess := fun x y =>
       map (fun r => r ++ vzero ns) (p_hess P (orig_vals P x) y) ++ mzero ns (nvars P + ns);
     var_lb := var_lb P ++ select mk (cons_lb P);
     var_ub := var_ub P ++ select mk (cons_ub P);
     cons_lb := repeat (Some 0) (ncons P);
     cons_ub := repeat (Some 0) (ncons P) |}.

(* transform_sol: start slacks are the projection of c(x0) onto [l, u] *)
Definition slack_start (P : problem) (x : vec) : vec :=
  select (slack_mask P) (map3 (fun c l u => clip_b c l u) (p_cons P x) (cons_lb P) (cons_ub P)).
Definition cp_transform_sol (P : problem) (x y : vec) : vec * vec :=
  if Nat.eqb (num_slacks P) 0 then (x, y) else (x ++ slack_start P x, y).
Definition cp_restore_sol (P : problem) (x y d : vec) : vec * vec * vec :=
  (orig_vals P x, y, orig_vals P d).
