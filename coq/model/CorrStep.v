(* CorrStep.v — entry points of the correspondence units `implicit` (ImplicitFunc / ScaledImplicitFunc)
   and `newton` (newton_method(...).step with the four step solvers and a scripted linear solver). *)
From Verif Require Export Transform StepSolvers CorrNumeric.

Definition the_problem (spec : qspec) (sc : option scaling) (trans : bool) : problem :=
  if trans then trans_problem sc (quad_problem spec) else quad_problem spec.

(* ---- unit implicit ---- *)
Record fcase := mk_fcase {
  fc_spec : qspec; fc_sc : option scaling; fc_trans : bool;
  fc_xh : vec; fc_yh : vec; fc_dt : Q; fc_rho : Q; fc_x : vec; fc_y : vec; fc_tau : option Q; fc_act : mask;
  fe_active : mask; fe_sactive : mask;         (* compute_active_set(iterate, rho, tau), both classes *)
  fe_value : vec; fe_svalue : vec;             (* value_at(iterate, rho, given active set) *)
  fe_value_auto : vec;                         (* value_at(iterate, rho) with the computed active set *)
  fe_deriv : mat; fe_sderiv : mat              (* deriv_at(iterate, rho, given active set) *)
}.

Definition check_implicit (c : fcase) : bool :=
  let P := the_problem (fc_spec c) (fc_sc c) (fc_trans c) in
  let x := fc_x c in let y := fc_y c in
  let J := it_jac P x in let H := aug_lag_deriv_xx P x y (fc_rho c) in
  mask_eqb (active_set P (fc_xh c) (fc_dt c) (fc_rho c) (fc_tau c) x y) (fe_active c)
  && mask_eqb (s_active_set P (fc_xh c) (fc_dt c) (fc_rho c) (fc_tau c) x y) (fe_sactive c)
  && veqb (value_at P (fc_xh c) (fc_yh c) (fc_dt c) (fc_rho c) x y (fc_act c)) (fe_value c)
  && veqb (s_value_at P (fc_xh c) (fc_yh c) (fc_dt c) (fc_rho c) x y (fc_act c)) (fe_svalue c)
  && veqb (value_at P (fc_xh c) (fc_yh c) (fc_dt c) (fc_rho c) x y
                    (active_set P (fc_xh c) (fc_dt c) (fc_rho c) None x y)) (fe_value_auto c)
  && meqb (deriv P (fc_dt c) J H (fc_act c)) (fe_deriv c)
  && meqb (s_deriv P (fc_dt c) J H (fc_act c)) (fe_sderiv c).

(* tag = #components the computed active set clips + 100 * #given active *)
Definition tag_implicit (c : fcase) : N :=
  let P := the_problem (fc_spec c) (fc_sc c) (fc_trans c) in
  (count_true (active_set P (fc_xh c) (fc_dt c) (fc_rho c) (fc_tau c) (fc_x c) (fc_y c))
   + 100 * count_true (fc_act c))%N.

Definition exact_implicit (c : fcase) : bool :=
  let P := the_problem (fc_spec c) (fc_sc c) (fc_trans c) in
  let x := fc_x c in let y := fc_y c in
  vrepr (value_at P (fc_xh c) (fc_yh c) (fc_dt c) (fc_rho c) x y (fc_act c))
  && vrepr (s_value_at P (fc_xh c) (fc_yh c) (fc_dt c) (fc_rho c) x y (fc_act c))
  && mrepr (deriv P (fc_dt c) (it_jac P x) (aug_lag_deriv_xx P x y (fc_rho c)) (fc_act c))
  && mrepr (s_deriv P (fc_dt c) (it_jac P x) (aug_lag_deriv_xx P x y (fc_rho c)) (fc_act c))
  && vrepr (proj_init P (fc_xh c) (fc_dt c) (fc_rho c) (fc_tau c) x y)
  && vrepr (s_proj_init P (fc_xh c) (fc_dt c) (fc_rho c) (fc_tau c) x y).

(* ---- unit newton ---- *)
Definition kind_of (k : nat) : solver_kind :=
  match k with 0%nat => KStandard | 1%nat => KExtended | 2%nat => KSymmetric | _ => KAsymmetric end.
Definition nk_of (k : nat) : newton_kind :=
  match k with 0%nat => Simplified | 1%nat => Full | _ => ActiveSetNewton end.

Record ncase := mk_ncase {
  nc_spec : qspec; nc_sc : option scaling; nc_trans : bool;
  nc_xh : vec; nc_yh : vec; nc_dt : Q; nc_rho : Q; nc_kind : nat; nc_nk : nat; nc_tau : option Q;
  nc_sols : list vec;
  (* implementation, per step: assembled matrix, right-hand side, StepResult dx, dy, xn, yn *)
  ne_steps : list (mat * vec * (vec * vec * vec * vec))
}.

Definition step_eqb (a b : mat * vec * (vec * vec * vec * vec)) : bool :=
  let '(M, r, (dx, dy, xn, yn)) := a in
  let '(M', r', (dx', dy', xn', yn')) := b in
  meqb M M' && veqb r r' && veqb dx dx' && veqb dy dy' && veqb xn xn' && veqb yn yn'.

Definition nc_run (c : ncase) :=
  let P := the_problem (nc_spec c) (nc_sc c) (nc_trans c) in
  newton_steps P (nc_xh c) (nc_yh c) (nc_dt c) (nc_rho c) (kind_of (nc_kind c)) (nk_of (nc_nk c)) (nc_tau c)
               (nc_xh c) (nc_yh c) (nc_sols c).

Definition check_newton (c : ncase) : bool := leqb step_eqb (nc_run c) (ne_steps c).

(* tag = kind + 10 * newton kind + 100 * (#active in the first step) + 10000 * (#components clipped by StepResult) *)
Definition tag_newton (c : ncase) : N :=
  let P := the_problem (nc_spec c) (nc_sc c) (nc_trans c) in
  let act := func_active P (nc_xh c) (nc_dt c) (nc_rho c) (kind_of (nc_kind c)) (nc_tau c) (nc_xh c) (nc_yh c) in
  let clipped := match nc_run c with
                 | (_, _, (dx, _, xn, _)) :: _ =>
                     length (filter (fun b => b)
                       (map3 (fun xnj (l u : bnd) => beqb (Some xnj) l || beqb (Some xnj) u) xn (var_lb P) (var_ub P)))
                 | [] => 0%nat
                 end in
  (N.of_nat (nc_kind c) + 10 * N.of_nat (nc_nk c) + 100 * count_true act + 10000 * N.of_nat clipped)%N.

Definition exact_newton (c : ncase) : bool :=
  forallb (fun s => let '(M, r, (dx, dy, xn, yn)) := s in mrepr M && vrepr r && vrepr dx && vrepr dy && vrepr xn && vrepr yn)
          (nc_run c).

(* ---- unit compute_xn: StepResult._compute_xn on ARBITRARY binary64 inputs (not only grid points).  The model
   computes x - dx exactly, the code rounds it; they must agree on every component the model clips (the value is
   then exactly the bound) and the code's value must lie in [lb, ub] everywhere. ---- *)
Definition check_xn (c : vec * vec * list bnd * list bnd * vec) : bool :=
  let '(x, dx, lb, ub, xn) := c in
  Nat.eqb (length xn) (length x)
  && forallb (fun b => b)
       (map4 (fun t (l u : bnd) xni =>
                let '(xi, di) := t in
                let m := fst (xn1 xi di l u) in
                lb_le l xni && le_ub xni u
                && (if qeqb m (xi - di) then true else qeqb xni m))
             (map2 pair x dx) lb ub xn).
Definition tag_xn (c : vec * vec * list bnd * list bnd * vec) : nat :=
  let '(x, dx, lb, ub, xn) := c in
  length (filter (fun b => b) (map4 (fun t (l u : bnd) (_ : Q) => let '(xi, di) := t in negb (qeqb (fst (xn1 xi di l u)) (xi - di)))
                                    (map2 pair x dx) lb ub xn)).
