(* FlowProofs.v — C01 for the flow-integration solver: the optimality measure of RestrictedFlow.residuum (after the
   repair F18) bounds the KKT residual total_res of the point; the measure before the repair does not (witness). *)
From Verif Require Import Flow VecLemmas.
From Coq Require Import Lqa Lia.

Lemma normsq_nonneg v : 0 <= normsq v.
Proof. unfold normsq. induction v as [|a v IH]; cbn; [lra|]. nra. Qed.

Lemma sq_le_abs a t : 0 <= t -> a * a <= t * t -> qabs a <= t.
Proof. intros Ht H. destruct (qabs_spec a) as [[A1 A2]|[A1 A2]]; rewrite A2; nra. Qed.

Lemma normsq_bound v t : 0 <= t -> normsq v <= t * t -> Forall (fun a => qabs a <= t) v.
Proof.
  intros Ht. unfold normsq. induction v as [|a v IH]; cbn; intros H; constructor.
  - apply sq_le_abs; auto. pose proof (normsq_nonneg v) as N. unfold normsq in N. lra.
  - apply IH. nra.
Qed.

Lemma Forall_app_l {A} (Q0 : A -> Prop) a b : Forall Q0 (a ++ b) -> Forall Q0 a /\ Forall Q0 b.
Proof. apply Forall_app. Qed.

Lemma norminf_Forall v t : 0 <= t -> Forall (fun a => qabs a <= t) v -> norminf v <= t.
Proof.
  intros Ht H. induction H as [|a v Ha Hv IH]; [cbn; exact Ht|].
  rewrite norminf_cons. apply qmax_lub; assumption.
Qed.

Lemma qabs_cancel g t : 0 <= t -> qabs (g + - g) <= t.
Proof. intros H. destruct (qabs_spec (g + - g)) as [[_ A]|[_ A]]; rewrite A; lra. Qed.
Lemma qabs_zero : qabs 0 = 0.
Proof. reflexivity. Qed.

(* one component: the stationarity defect g + d_j with the solver's own bound multiplier is 0 or g, and it is 0
   where the optimality measure drops the component *)
Lemma stat_component atol xi l u g : 0 <= atol ->
  let o := if blocked1 xi (- g) l u then 0 else - g in
  qabs (g + bdual1 atol xi l u (- g)) <= qabs o.
Proof.
  intros Ha. cbv zeta. unfold blocked1, bdual1.
  destruct (at_bound xi l && qle (- g) 0) eqn:BL; cbn [orb].
  - (* held at the lower bound: near_lower holds, the multiplier takes all of -g *)
    apply Bool.andb_true_iff in BL. destruct BL as [AL GL]. destruct l as [a|]; cbn in AL; [|discriminate]. qcases.
    assert (NL : near_lower atol xi (Some a) = true).
    { cbn. apply qle_iff. destruct (qabs_spec (xi - a)) as [[A1 A2]|[A1 A2]]; rewrite A2; lra. }
    rewrite NL. cbn [andb]. rewrite qabs_zero.
    destruct (near_upper atol xi u).
    + apply qabs_cancel; lra.
    + destruct (qmin_spec (- g) 0) as [[B1 B2]|[B1 B2]]; rewrite B2; [apply qabs_cancel; lra|exfalso; lra].
  - destruct (at_bound xi u && qle 0 (- g)) eqn:BU.
    + apply Bool.andb_true_iff in BU. destruct BU as [AU GU]. destruct u as [b|]; cbn in AU; [|discriminate]. qcases.
      assert (NU : near_upper atol xi (Some b) = true).
      { cbn. apply qle_iff. destruct (qabs_spec (b - xi)) as [[A1 A2]|[A1 A2]]; rewrite A2; lra. }
      rewrite NU. rewrite qabs_zero.
      destruct (near_lower atol xi l); cbn [andb].
      * apply qabs_cancel; lra.
      * destruct (qmax_spec (- g) 0) as [[B1 B2]|[B1 B2]]; rewrite B2; [|apply qabs_cancel; lra].
        destruct (qabs_spec (g + 0)) as [[A1 A2]|[A1 A2]]; rewrite A2; lra.
    + (* not dropped: the defect is 0 or g *)
      pose proof (qabs_nonneg (- g)) as N.
      assert (Z : qabs (g + - g) <= qabs (- g)) by (apply qabs_cancel; exact N).
      assert (W : qabs (g + 0) <= qabs (- g)).
      { destruct (qabs_spec (g + 0)) as [[A1 A2]|[A1 A2]]; rewrite A2;
        destruct (qabs_spec (- g)) as [[C1 C2]|[C1 C2]]; rewrite C2; lra. }
      destruct (near_lower atol xi l), (near_upper atol xi u); cbn [andb]; auto.
      * destruct (qmin_spec (- g) 0) as [[B1 B2]|[B1 B2]]; rewrite B2; auto.
      * destruct (qmax_spec (- g) 0) as [[B1 B2]|[B1 B2]]; rewrite B2; auto.
Qed.

Definition zip4 (x : vec) (lb ub : list bnd) (v : vec) := map2 pair (map2 pair (map2 pair x lb) ub) v.

(* the stationarity vector, component by component *)
Lemma stat_vector atol (x : vec) (lb ub : list bnd) (G : vec) t : 0 <= atol -> 0 <= t ->
  Forall (fun o => qabs o <= t)
         (map (fun q => let '(xi, l, u, d) := q in if blocked1 xi d l u then 0 else d) (zip4 x lb ub (vneg G))) ->
  norminf (vadd G (map (fun q => let '(xi, l, u, r) := q in bdual1 atol xi l u r) (zip4 x lb ub (vneg G)))) <= t.
Proof.
  intros Ha Ht. unfold zip4. revert lb ub G.
  induction x as [|xi x IH]; intros [|l lb] [|u ub] [|g G]; cbn; intros H; try exact Ht.
  - inversion H as [|o os Ho Hos]; subst.
    change (norminf ((g + bdual1 atol xi l u (- g)) :: vadd G (map (fun q => let '(xi0, l0, u0, r) := q in bdual1 atol xi0 l0 u0 r)
              (map2 pair (map2 pair (map2 pair x lb) ub) (vneg G)))) <= t).
    rewrite norminf_cons. apply qmax_lub.
    + eapply Qle_trans; [apply stat_component; exact Ha|exact Ho].
    + apply IH. exact Hos.
Qed.

Lemma bound_violation_in_box (P : problem) x :
  length (var_lb P) = length x -> length (var_ub P) = length x ->
  in_box (var_lb P) (var_ub P) x = true -> bound_violation P x <= 0.
Proof.
  unfold in_box, bound_violation. generalize (var_lb P) (var_ub P). intros lb ub L1 L2 H.
  assert (A : Forall (fun a => qabs a <= 0)
                (map2 (fun (l : bnd) xi => match l with None => 0 | Some a => qmax (a - xi) 0 end) lb x)
              /\ Forall (fun a => qabs a <= 0)
                (map2 (fun (u : bnd) xi => match u with None => 0 | Some b => qmax (xi - b) 0 end) ub x)).
  { revert lb ub L1 L2 H. induction x as [|xi x IH]; intros [|l lb] [|u ub] L1 L2 H; cbn in *; try discriminate;
      try solve [split; constructor].
    apply Bool.andb_true_iff in H. destruct H as [H0 H]. apply Bool.andb_true_iff in H0. destruct H0 as [HL HU].
    injection L1 as L1'. injection L2 as L2'.
    destruct (IH lb ub L1' L2' H) as [IA IB].
    split; constructor; try assumption.
    - destruct l as [a|]; cbn in HL; [|rewrite qabs_zero; lra]. qcases.
      destruct (qmax_spec (a - xi) 0) as [[B1 B2]|[B1 B2]]; rewrite B2; [rewrite qabs_zero; lra|exfalso; lra].
    - destruct u as [b|]; cbn in HU; [|rewrite qabs_zero; lra]. qcases.
      destruct (qmax_spec (xi - b) 0) as [[B1 B2]|[B1 B2]]; rewrite B2; [rewrite qabs_zero; lra|exfalso; lra]. }
  destruct A as [A1 A2].
  apply qmax_lub; apply norminf_Forall; try lra; assumption.
Qed.

(* ---- the theorem ---- *)
Theorem residuum_bounds_total_res (P : problem) atol x y tol :
  0 <= atol -> 0 <= tol ->
  length (var_lb P) = length x -> length (var_ub P) = length x ->
  in_box (var_lb P) (var_ub P) x = true ->
  residuum_sq P x y <= tol * tol ->
  total_res P atol x y <= tol.
Proof.
  intros Ha Ht L1 L2 HB HR. unfold residuum_sq in HR.
  pose proof (normsq_bound _ _ Ht HR) as F. apply Forall_app in F. destruct F as [Fx Fc].
  unfold total_res. apply qmax_lub; [apply qmax_lub|].
  - unfold cons_violation, it_cons. apply norminf_Forall; assumption.
  - pose proof (bound_violation_in_box P x L1 L2 HB). lra.
  - unfold stat_res, bounds_dual. apply (stat_vector atol x (var_lb P) (var_ub P) (lag_grad P x y) tol Ha Ht).
    exact Fx.
Qed.

(* ---- the measure before the repair does not bound the KKT residual: c = x + 2^-11, f = -2^-8 x on [0, 1],
   x = 0, y = 0, rho = 16, tolerance 2^-10.  The filter computed for rho = 16 holds x at its bound (the penalty
   term 16 * 2^-11 outweighs the gradient), the masked measure is |c| = 2^-11, below the tolerance, but
   grad f + J^T y + d = -2^-8: four times the tolerance. ---- *)
Definition f18_problem : problem :=
  quad_problem (mk_qspec [[0]] [-(1 # 256)] 0 [[[0]]] [[1]] [1 # 2048] [Some 0] [Some 1] [Some 0] [Some 0]).
Example old_residuum_refuted :
  let filt := create_filter f18_problem [0] [0] 16 in
  filt = [false]
  /\ qle (old_residuum_sq f18_problem [0] [0] filt) ((1 # 1024) * (1 # 1024)) = true
  /\ qlt (1 # 1024) (total_res f18_problem (1 # 1048576) [0] [0]) = true
  /\ qle (residuum_sq f18_problem [0] [0]) ((1 # 1024) * (1 # 1024)) = false.
Proof. vm_compute. repeat split. Qed.
