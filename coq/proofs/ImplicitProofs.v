(* ImplicitProofs.v — C13: the projection used in the implicit-Euler residual keeps points in the box and
   is the identity on components marked inactive; the lambda-scaled residual function is lambda times
   the standard one (y block with the opposite sign). *)
From Verif Require Import Implicit VecLemmas.
From Coq Require Import Lqa Lia.

Lemma map4_length {A B C D E} (f : A -> B -> C -> D -> E) a b c d :
  length (map4 f a b c d) = Nat.min (length a) (Nat.min (length b) (Nat.min (length c) (length d))).
Proof. revert b c d; induction a; intros [|? b] [|? c] [|? d]; cbn; auto. Qed.
Lemma map4_nth {A B C D E} (f : A -> B -> C -> D -> E) a b c d j da db dc dd de :
  (j < length a)%nat -> (j < length b)%nat -> (j < length c)%nat -> (j < length d)%nat ->
  nth j (map4 f a b c d) de = f (nth j a da) (nth j b db) (nth j c dc) (nth j d dd).
Proof.
  revert b c d j; induction a as [|x a IH]; intros [|y b] [|z c] [|w d] [|j]; cbn; intros; try lia; auto.
  apply IH; lia.
Qed.

(* ---------------- one component ---------------- *)
Lemma clip_b_in_box p l u : bnd_le l u = true -> lb_le l (clip_b p l u) = true /\ le_ub (clip_b p l u) u = true.
Proof.
  destruct l as [a|], u as [b|]; cbn; intros H; split; auto; qcases; apply qle_iff.
  - apply qmin_glb; [apply qmax_ge_r | exact H].
  - apply qmin_le_r.
  - apply qmax_ge_r.
  - apply qmin_le_r.
Qed.

Lemma clip_b_inside p l u : lb_le l p = true -> le_ub p u = true -> clip_b p l u == p.
Proof.
  destruct l as [a|], u as [b|]; cbn; intros H1 H2; qcases; try reflexivity.
  - destruct (qmax_spec p a) as [[? E]|[? E]]; rewrite E; destruct (qmin_spec a b) as [[? F]|[? F]];
      destruct (qmin_spec p b) as [[? F']|[? F']]; rewrite ?F, ?F'; lra.
  - destruct (qmax_spec p a) as [[? E]|[? E]]; rewrite E; lra.
  - destruct (qmin_spec p b) as [[? E]|[? E]]; rewrite E; lra.
Qed.

(* lambda * P_[l,u](p) = P_[lambda l, lambda u](lambda p) for lambda > 0 *)
Lemma scale_le lam p a : 0 < lam -> qle (lam * p) (a * lam) = qle p a.
Proof.
  intros HL. destruct (qle (lam * p) (a * lam)) eqn:E1, (qle p a) eqn:E2; qcases; auto; exfalso.
  - assert (0 < (p - a) * lam) by (apply Qmult_lt_0_compat; lra). lra.
  - assert (0 <= (a - p) * lam) by (apply Qmult_le_0_compat; lra). lra.
Qed.
Lemma scale_le' lam a b : 0 < lam -> qle (a * lam) (b * lam) = qle a b.
Proof. intros HL. rewrite (Qmult_comm a lam). apply scale_le. exact HL. Qed.

Lemma clip_b_scale lam p l u : 0 < lam ->
  clip_b (lam * p) (bnd_scale lam l) (bnd_scale lam u) == lam * clip_b p l u.
Proof.
  intros HL. destruct l as [a|], u as [b|]; cbn; try reflexivity.
  - unfold qmin, qmax. rewrite (scale_le lam p a HL).
    destruct (qle p a); [rewrite (scale_le' lam a b HL)|rewrite (scale_le lam p b HL)];
      match goal with |- context [qle ?x ?y] => destruct (qle x y) end; ring.
  - unfold qmax. rewrite (scale_le lam p a HL). destruct (qle p a); ring.
  - unfold qmin. rewrite (scale_le lam p b HL). destruct (qle p b); ring.
Qed.

(* ---------------- vectors ---------------- *)
Theorem project_box_spec p lb ub act j :
  (j < length p)%nat -> (j < length lb)%nat -> (j < length ub)%nat -> (j < length act)%nat ->
  nth j (project_box p lb ub act) 0
  = if nth j act false then clip_b (nth j p 0) (nth j lb None) (nth j ub None) else nth j p 0.
Proof. intros. unfold project_box. rewrite (map4_nth _ p act lb ub j 0 false None None 0) by lia. reflexivity. Qed.

(* components marked active land in [lb, ub]; components marked inactive are untouched *)
Theorem project_in_box p lb ub act j :
  (j < length p)%nat -> (j < length lb)%nat -> (j < length ub)%nat -> (j < length act)%nat ->
  nth j act false = true -> bnd_le (nth j lb None) (nth j ub None) = true ->
  lb_le (nth j lb None) (nth j (project_box p lb ub act) 0) = true
  /\ le_ub (nth j (project_box p lb ub act) 0) (nth j ub None) = true.
Proof. intros H1 H2 H3 H4 Ha Hb. rewrite project_box_spec; auto. rewrite Ha. apply clip_b_in_box. exact Hb. Qed.

Theorem project_id_inactive p lb ub act j :
  (j < length p)%nat -> (j < length lb)%nat -> (j < length ub)%nat -> (j < length act)%nat ->
  nth j act false = false -> nth j (project_box p lb ub act) 0 = nth j p 0.
Proof. intros H1 H2 H3 H4 Ha. rewrite project_box_spec; auto. rewrite Ha. reflexivity. Qed.

(* the active-set rule: a component is clipped only if it is outside the box by more than 1e-8, so a
   component that is NOT marked lies within 1e-8 of the box *)
Theorem outside1_false p l u : outside1 p l u = false ->
  match l with Some a => a - c_1e8 <= p | None => True end
  /\ match u with Some b => p <= b + c_1e8 | None => True end.
Proof.
  unfold outside1. intros H. apply orb_false_iff in H. destruct H as [H1 H2].
  split; [destruct l|destruct u]; auto; qcases; lra.
Qed.
