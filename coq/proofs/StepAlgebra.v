(* StepAlgebra.v — C14: the scaled formulations of the Newton system (extended / asymmetric: full
   system with identity rows on the active set; symmetric: reduced system on the inactive set) are
   algebraically equivalent to the standard system F'_A(z) s = F(z), for every linear H0, J, J^T, every
   active set, every lambda > 0 and rho > 0.  Vectors are functions of an index, operators are arbitrary
   maps with pointwise linearity, so nothing depends on dimensions or storage formats. *)
From Coq Require Import QArith Lqa Bool.
Open Scope Q_scope.

Section StepAlgebra.
  Definition V := nat -> Q.
  Variables H0 J Jt : V -> V.        (* Lagrangian Hessian at y + rho c, Jacobian, its transpose *)
  Hypothesis H0_lin : forall (a b : Q) (u v : V) j, H0 (fun k => a * u k + b * v k) j == a * H0 u j + b * H0 v j.
  Hypothesis J_lin : forall (a b : Q) (u v : V) i, J (fun k => a * u k + b * v k) i == a * J u i + b * J v i.
  Hypothesis Jt_lin : forall (a b : Q) (u v : V) j, Jt (fun k => a * u k + b * v k) j == a * Jt u j + b * Jt v j.
  Hypothesis H0_ext : forall (u v : V), (forall k, u k == v k) -> forall j, H0 u j == H0 v j.
  Hypothesis J_ext : forall (u v : V), (forall k, u k == v k) -> forall i, J u i == J v i.
  Hypothesis Jt_ext : forall (u v : V), (forall k, u k == v k) -> forall j, Jt u j == Jt v j.

  Variable act : nat -> bool.
  Variables lam rho : Q.
  Hypothesis lam_pos : 0 < lam.
  Hypothesis rho_pos : 0 < rho.
  Let dt := 1 / lam.
  Let fact := 1 / (1 + lam * rho).
  Variables Fx Fy : V.                (* the standard residual F(z) = (Fx, Fy) *)

  (* the scaled residual is lambda * F with the sign of the y block flipped (Implicit.v: s_value_at) *)
  Let rx : V := fun j => lam * Fx j.
  Let ry : V := fun i => - (lam * Fy i).
  Let b0 : V := fun j => dt * rx j.
  Let b2 : V := ry.
  Let b2t : V := fun i => fact * b2 i.

  (* standard system, row by row *)
  Definition std_system (dx dy : V) : Prop :=
    (forall j, act j = true -> dx j == Fx j)
    /\ (forall j, act j = false ->
          dx j + dt * (H0 dx j + rho * Jt (J dx) j + Jt dy j) == Fx j)
    /\ (forall i, - dt * J dx i + dy i == Fy i).

  (* extended / asymmetric system (same row equations, different row order / storage) *)
  Definition ext_system (sx sy : V) : Prop :=
    (forall j, act j = true -> sx j == b0 j)
    /\ (forall j, act j = false -> H0 sx j + lam * sx j + Jt sy j == rx j)
    /\ (forall i, J sx i + (- lam / (1 + lam * rho)) * sy i == b2t i).

  Definition post_dy (sy : V) : V := fun i => fact * (sy i - rho * b2 i).

  Lemma dt_lam : dt * lam == 1.
  Proof. unfold dt. field. lra. Qed.

  (* the y-row of the extended system, cleared of fractions *)
  Lemma ext_yrow_poly (sx sy : V) i :
    J sx i + (- lam / (1 + lam * rho)) * sy i == b2t i ->
    (1 + lam * rho) * J sx i - lam * sy i == - (lam * Fy i).
  Proof.
    intros E. unfold b2t, b2, ry, fact in E.
    assert (P : 0 < 1 + lam * rho) by nra.
    assert (E2 : (1 + lam * rho) * (J sx i + (- lam / (1 + lam * rho)) * sy i)
                 == (1 + lam * rho) * (1 / (1 + lam * rho) * - (lam * Fy i))) by (rewrite E; reflexivity).
    assert (L1 : (1 + lam * rho) * (J sx i + (- lam / (1 + lam * rho)) * sy i)
                 == (1 + lam * rho) * J sx i - lam * sy i) by (field; lra).
    assert (L2 : (1 + lam * rho) * (1 / (1 + lam * rho) * - (lam * Fy i)) == - (lam * Fy i)) by (field; lra).
    rewrite L1, L2 in E2. exact E2.
  Qed.

  Lemma sy_is_dy_plus (sx sy : V) i :
    J sx i + (- lam / (1 + lam * rho)) * sy i == b2t i ->
    sy i == post_dy sy i + rho * J sx i /\ post_dy sy i == dt * J sx i + Fy i.
  Proof.
    intros E. apply ext_yrow_poly in E.
    assert (P : 0 < 1 + lam * rho) by nra.
    assert (S : sy i == (1 + lam * rho) * (dt * J sx i) + Fy i).
    { assert (X : sy i == dt * (lam * sy i)) by (unfold dt; field; lra).
      rewrite X. assert (Y : lam * sy i == (1 + lam * rho) * J sx i + lam * Fy i) by lra.
      rewrite Y. unfold dt. field. lra. }
    assert (D : post_dy sy i == dt * J sx i + Fy i).
    { unfold post_dy, b2, ry, fact. rewrite S. unfold dt. field. split; lra. }
    split; [|exact D].
    rewrite D. rewrite S at 1. unfold dt. field. lra.
  Qed.

  Theorem ext_solves_std (sx sy : V) : ext_system sx sy -> std_system sx (post_dy sy).
  Proof.
    intros (Ea & Ei & Ey). unfold std_system. split; [|split].
    - intros j Hj. rewrite (Ea j Hj). unfold b0, rx. rewrite Qmult_assoc, dt_lam. ring.
    - intros j Hj. specialize (Ei j Hj).
      (* J^T sy = J^T dy + rho J^T (J sx), by linearity *)
      assert (L : Jt sy j == Jt (post_dy sy) j + rho * Jt (J sx) j).
      { rewrite (Jt_ext sy (fun k => 1 * post_dy sy k + rho * J sx k)).
        - rewrite Jt_lin. ring.
        - intros k. destruct (sy_is_dy_plus sx sy k (Ey k)) as [S _]. rewrite S at 1. ring. }
      unfold rx in Ei. rewrite L in Ei.
      assert (D : dt * (H0 sx j + lam * sx j + (Jt (post_dy sy) j + rho * Jt (J sx) j)) == dt * (lam * Fx j))
        by (rewrite Ei; reflexivity).
      assert (T : dt * lam == 1) by apply dt_lam.
      assert (X1 : dt * (lam * sx j) == sx j) by (rewrite Qmult_assoc, T; ring).
      assert (X2 : dt * (lam * Fx j) == Fx j) by (rewrite Qmult_assoc, T; ring).
      rewrite <- X2, <- D. rewrite <- X1 at 1. ring.
    - intros i. destruct (sy_is_dy_plus sx sy i (Ey i)) as [_ D]. rewrite D. ring.
  Qed.

  (* and conversely: from a solution of the standard system one of the extended system *)
  Definition pre_sy (dx dy : V) : V := fun i => dy i + rho * J dx i.

  Theorem std_solves_ext (dx dy : V) : std_system dx dy -> ext_system dx (pre_sy dx dy).
  Proof.
    intros (Sa & Si & Sy). unfold ext_system. split; [|split].
    - intros j Hj. rewrite (Sa j Hj). unfold b0, rx. rewrite Qmult_assoc, dt_lam. ring.
    - intros j Hj. specialize (Si j Hj).
      assert (L : Jt (pre_sy dx dy) j == Jt dy j + rho * Jt (J dx) j).
      { unfold pre_sy. rewrite (Jt_ext _ (fun k => 1 * dy k + rho * J dx k)) by (intros; ring).
        rewrite Jt_lin. ring. }
      rewrite L. unfold rx.
      assert (T : dt * lam == 1) by apply dt_lam.
      assert (X : lam * (dx j + dt * (H0 dx j + rho * Jt (J dx) j + Jt dy j)) == lam * Fx j) by (rewrite Si; reflexivity).
      assert (T2 : lam * dt == 1) by (rewrite Qmult_comm; exact T).
      rewrite <- X.
      assert (Y : lam * (dx j + dt * (H0 dx j + rho * Jt (J dx) j + Jt dy j))
                  == lam * dx j + (lam * dt) * (H0 dx j + rho * Jt (J dx) j + Jt dy j)) by ring.
      rewrite Y, T2. ring.
    - intros i. specialize (Sy i). unfold pre_sy, b2t, b2, ry, fact.
      assert (P : 0 < 1 + lam * rho) by nra.
      assert (Dy : dy i == Fy i + dt * J dx i) by lra. rewrite Dy. unfold dt. field. split; lra.
  Qed.

  (* the post-processing inverts pre_sy *)
  Lemma post_pre (dx dy : V) i : std_system dx dy -> post_dy (pre_sy dx dy) i == dy i.
  Proof.
    intros (_ & _ & Sy). specialize (Sy i). unfold post_dy, pre_sy, b2, ry, fact.
    assert (P : 0 < 1 + lam * rho) by nra.
    assert (Dy : dy i == Fy i + dt * J dx i) by lra. rewrite Dy. unfold dt. field. split; lra.
  Qed.

  (* ---------------- symmetric: reduced system on the inactive set ---------------- *)
  Definition onI (v : V) : V := fun k => if act k then 0 else v k.
  Definition onA (v : V) : V := fun k => if act k then v k else 0.

  Definition sym_system (sx sy : V) : Prop :=
    (forall j, act j = true -> sx j == b0 j)                 (* dx[active] = b0 is assigned, not solved *)
    /\ (forall j, act j = false ->
          H0 (onI sx) j + lam * sx j + Jt sy j == rx j - H0 (onA b0) j)
    /\ (forall i, J (onI sx) i + (- lam / (1 + lam * rho)) * sy i == b2t i - J (onA b0) i).

  Lemma split_IA (sx : V) : (forall j, act j = true -> sx j == b0 j) ->
    forall k, sx k == 1 * onI sx k + 1 * onA b0 k.
  Proof. intros Ea k. unfold onI, onA. destruct (act k) eqn:E; [rewrite (Ea k E)|]; ring. Qed.

  Theorem sym_iff_ext (sx sy : V) : sym_system sx sy <-> ext_system sx sy.
  Proof.
    unfold sym_system, ext_system. split; intros (Ea & Ei & Ey); (split; [exact Ea|split]).
    - intros j Hj. specialize (Ei j Hj).
      rewrite (H0_ext sx _ (split_IA sx Ea)), H0_lin. lra.
    - intros i. specialize (Ey i).
      rewrite (J_ext sx _ (split_IA sx Ea)), J_lin. lra.
    - intros j Hj. specialize (Ei j Hj).
      rewrite (H0_ext sx _ (split_IA sx Ea)), H0_lin in Ei. lra.
    - intros i. specialize (Ey i).
      rewrite (J_ext sx _ (split_IA sx Ea)), J_lin in Ey. lra.
  Qed.

  Corollary sym_solves_std (sx sy : V) : sym_system sx sy -> std_system sx (post_dy sy).
  Proof. intros H. apply ext_solves_std. apply sym_iff_ext. exact H. Qed.

  (* ---------------- one Newton step is exact on QP / affine data ---------------- *)
  (* if the residual is affine along the step, F(z - s) = F(z) - F'_A(z) s, then F(z - s) = 0 *)
  Theorem one_step_exact (dx dy : V) (Fx' Fy' : V) :
    std_system dx dy ->
    (forall j, act j = true -> Fx' j == Fx j - dx j) ->
    (forall j, act j = false -> Fx' j == Fx j - (dx j + dt * (H0 dx j + rho * Jt (J dx) j + Jt dy j))) ->
    (forall i, Fy' i == Fy i - (- dt * J dx i + dy i)) ->
    (forall j, Fx' j == 0) /\ (forall i, Fy' i == 0).
  Proof.
    intros (Sa & Si & Sy) A B C. split.
    - intros j. destruct (act j) eqn:E; [rewrite (A j E), (Sa j E)|rewrite (B j E), (Si j E)]; ring.
    - intros i. rewrite (C i), (Sy i). ring.
  Qed.
End StepAlgebra.
