(* DerivProofs.v — C19: the derivative checker reports exactly the first failing column and exactly its
   failing rows; correct derivatives pass; a single wrong entry above twice the tolerance is pinpointed. *)
From Verif Require Import DerivCheck VecLemmas.
From Coq Require Import Lqa Lia.

(* ---------------- rows ---------------- *)
Lemma bad_rows_aux atol : forall (dcol apx : vec) (k : nat) r,
  In r (map fst (filter (fun t => negb (isclose atol (fst (snd t)) (snd (snd t))))
                        (combine (seq k (length dcol)) (combine dcol apx))))
  <-> ((k <= r)%nat /\ (r - k < length dcol)%nat /\ (r - k < length apx)%nat
       /\ isclose atol (nth (r - k) dcol 0) (nth (r - k) apx 0) = false).
Proof.
  induction dcol as [|d dcol IH]; intros [|a apx] k r; cbn; try (split; [tauto|intros (_ & H & _); lia]).
  - split; [tauto|]. intros (_ & _ & H & _). lia.
  - destruct (isclose atol d a) eqn:E; cbn.
    + rewrite IH. split.
      * intros (A & B & C & D). repeat split; try lia. destruct (r - k)%nat as [|q] eqn:Eq; [lia|].
        replace (r - S k)%nat with q in D by lia. exact D.
      * intros (A & B & C & D). destruct (r - k)%nat as [|q] eqn:Eq; [congruence|].
        repeat split; try lia. replace (r - S k)%nat with q by lia. exact D.
    + split.
      * intros [<-|H].
        -- rewrite Nat.sub_diag. repeat split; try lia. exact E.
        -- apply IH in H. destruct H as (A & B & C & D). repeat split; try lia.
           destruct (r - k)%nat as [|q] eqn:Eq; [lia|]. replace (r - S k)%nat with q in D by lia. exact D.
      * intros (A & B & C & D). destruct (r - k)%nat as [|q] eqn:Eq.
        -- left. lia.
        -- right. apply IH. repeat split; try lia. replace (r - S k)%nat with q by lia. exact D.
Qed.

(* the reported rows are exactly the rows whose entries fail the closeness test *)
Theorem bad_rows_spec atol dcol apx r :
  In r (bad_rows atol dcol apx)
  <-> (r < length dcol)%nat /\ (r < length apx)%nat /\ isclose atol (nth r dcol 0) (nth r apx 0) = false.
Proof.
  unfold bad_rows. rewrite bad_rows_aux. rewrite Nat.sub_0_r. split; [intros (_ & A & B & C)|intros (A & B & C)]; repeat split; auto; lia.
Qed.

Lemma bad_rows_nil atol dcol apx :
  (forall r, (r < length dcol)%nat -> (r < length apx)%nat -> isclose atol (nth r dcol 0) (nth r apx 0) = true) ->
  bad_rows atol dcol apx = [].
Proof.
  intros H. destruct (bad_rows atol dcol apx) as [|r l] eqn:E; [reflexivity|].
  assert (I : In r (bad_rows atol dcol apx)) by (rewrite E; left; reflexivity).
  apply bad_rows_spec in I. destruct I as (A & B & C). rewrite H in C by assumption. discriminate.
Qed.

(* ---------------- columns ---------------- *)
(* an error names the FIRST column with a failing entry, and exactly that column's failing rows *)
Theorem error_pinpoints f x D eps atol : forall cols rows i,
  check_cols f x D eps atol cols = Some (rows, i) ->
  exists pre post, cols = pre ++ i :: post
    /\ (forall k, In k pre -> bad_rows atol (col k D) (fd_col f x k eps) = [])
    /\ rows = bad_rows atol (col i D) (fd_col f x i eps) /\ rows <> [].
Proof.
  induction cols as [|k cols IH]; intros rows i H; cbn in H; [discriminate|].
  destruct (bad_rows atol (col k D) (fd_col f x k eps)) as [|r l] eqn:E.
  - destruct (IH _ _ H) as (pre & post & -> & A & B & C).
    exists (k :: pre), post. repeat split; auto. intros k' [<-|Hk]; auto.
  - inversion H; subst. exists [], cols. repeat split; auto; [intros k []|discriminate].
Qed.

(* correct derivatives are accepted *)
Theorem correct_accepted f x D eps atol cols :
  (forall k, In k cols -> bad_rows atol (col k D) (fd_col f x k eps) = []) ->
  check_cols f x D eps atol cols = None.
Proof.
  induction cols as [|k cols IH]; intros H; cbn; [reflexivity|].
  rewrite (H k (or_introl eq_refl)). apply IH. intros k' Hk. apply H. right. exact Hk.
Qed.

(* closeness: within atol is close, beyond twice the threshold of a close neighbour is not *)
Lemma isclose_within atol e a : qabs (e - a) <= atol -> isclose atol e a = true.
Proof.
  intros H. unfold isclose. apply qle_iff. pose proof (qabs_nonneg a).
  assert (0 <= c_rtol * qabs a) by (apply Qmult_le_0_compat; [discriminate|assumption]). lra.
Qed.

Lemma isclose_shift atol e a d : isclose atol e a = true ->
  2 * (atol + c_rtol * qabs a) < qabs d -> isclose atol (e + d) a = false.
Proof.
  unfold isclose. intros H Hd. apply qle_iff in H. apply qle_false.
  set (t := atol + c_rtol * qabs a) in *.
  apply qabs_le in H.
  destruct (qabs_spec d) as [[? E]|[? E]]; rewrite E in Hd;
    destruct (qabs_spec (e + d - a)) as [[? F]|[? F]]; rewrite F; lra.
Qed.

(* ---------------- a single corrupted entry ---------------- *)
Lemma add_at_nth v j d k : (k < length v)%nat ->
  nth k (add_at v j d) 0 = if Nat.eqb k j then nth k v 0 + d else nth k v 0.
Proof.
  intros Hk. unfold add_at. rewrite (map2_nth _ (seq 0 (length v)) v k 0%nat 0 0); [|rewrite seq_length; exact Hk|exact Hk].
  rewrite seq_nth by exact Hk. reflexivity.
Qed.
Lemma add_at_length v j d : length (add_at v j d) = length v.
Proof. unfold add_at. rewrite map2_length, seq_length. lia. Qed.

Lemma add_at2_entry M r c d i k : (i < length M)%nat -> (k < length (nth i M []))%nat ->
  nth k (nth i (add_at2 M r c d) []) 0
  = if Nat.eqb i r && Nat.eqb k c then nth k (nth i M []) 0 + d else nth k (nth i M []) 0.
Proof.
  intros Hi Hk. unfold add_at2.
  rewrite map2_nth with (da := 0%nat) (db := @nil Q); [|rewrite seq_length; exact Hi|exact Hi].
  rewrite seq_nth by exact Hi. cbn [Nat.add].
  destruct (Nat.eqb i r); cbn [andb]; [apply add_at_nth; exact Hk|reflexivity].
Qed.

Lemma add_at2_length M r c d : length (add_at2 M r c d) = length M.
Proof. unfold add_at2. rewrite map2_length, seq_length. lia. Qed.

Lemma col_length j (M : mat) : length (col j M) = length M.
Proof. unfold col. apply map_length. Qed.
Lemma col_nth j (M : mat) i : nth i (col j M) 0 = nth j (nth i M []) 0.
Proof.
  unfold col. destruct (Nat.lt_ge_cases i (length M)) as [H|H].
  - rewrite (nth_indep _ 0 (nth j [] 0)) by (rewrite map_length; exact H).
    rewrite (map_nth (fun row => nth j row 0)). reflexivity.
  - rewrite (nth_overflow (map _ M)) by (rewrite map_length; exact H).
    rewrite (nth_overflow M) by exact H. destruct j; reflexivity.
Qed.

Lemma check_cols_first f x D eps atol pre i post :
  (forall k, In k pre -> bad_rows atol (col k D) (fd_col f x k eps) = []) ->
  bad_rows atol (col i D) (fd_col f x i eps) <> [] ->
  check_cols f x D eps atol (pre ++ i :: post) = Some (bad_rows atol (col i D) (fd_col f x i eps), i).
Proof.
  induction pre as [|k pre IH]; intros H Hn; cbn.
  - destruct (bad_rows atol (col i D) (fd_col f x i eps)); [contradiction|reflexivity].
  - rewrite (H k (or_introl eq_refl)). apply IH; auto. intros k' Hk. apply H. right. exact Hk.
Qed.

Lemma seq_split n c : (c < n)%nat -> seq 0 n = seq 0 c ++ c :: seq (S c) (n - S c).
Proof.
  intros H. replace n with (c + S (n - S c))%nat at 1 by lia. rewrite seq_app. cbn. reflexivity.
Qed.

(* D passes everywhere; entry (r, c) is then corrupted by more than twice its closeness threshold:
   the checker reports column c and exactly row r *)
Theorem single_corruption_detected f x (D : mat) eps atol r c d n :
  (c < n)%nat -> (r < length D)%nat ->
  Forall (fun row => length row = n) D ->
  (forall k, length (fd_col f x k eps) = length D) ->
  (forall k, (k < n)%nat -> bad_rows atol (col k D) (fd_col f x k eps) = []) ->
  2 * (atol + c_rtol * qabs (nth r (fd_col f x c eps) 0)) < qabs d ->
  exists rows, check_cols f x (add_at2 D r c d) eps atol (seq 0 n) = Some (rows, c)
               /\ forall r', In r' rows <-> r' = r.
Proof.
  intros Hc Hr HD Hf Hpass Hd.
  set (D' := add_at2 D r c d).
  assert (Hrow : forall i, (i < length D)%nat -> length (nth i D []) = n).
  { intros i Hi. rewrite Forall_forall in HD. apply HD. apply nth_In. exact Hi. }
  (* entries of D' *)
  assert (Hent : forall i k, (i < length D)%nat -> (k < n)%nat ->
            nth i (col k D') 0 = if Nat.eqb i r && Nat.eqb k c then nth i (col k D) 0 + d else nth i (col k D) 0).
  { intros i k Hi Hk. rewrite !col_nth. unfold D'. apply add_at2_entry; [exact Hi|rewrite Hrow; assumption]. }
  (* every entry of D passes *)
  assert (Hok : forall i k, (i < length D)%nat -> (k < n)%nat ->
            isclose atol (nth i (col k D) 0) (nth i (fd_col f x k eps) 0) = true).
  { intros i k Hi Hk. destruct (isclose atol (nth i (col k D) 0) (nth i (fd_col f x k eps) 0)) eqn:E; [reflexivity|].
    assert (I : In i (bad_rows atol (col k D) (fd_col f x k eps))).
    { apply bad_rows_spec. rewrite col_length, Hf. auto. }
    rewrite (Hpass k Hk) in I. destruct I. }
  exists (bad_rows atol (col c D') (fd_col f x c eps)). split.
  - rewrite (seq_split n c Hc). apply check_cols_first.
    + intros k Hk. apply in_seq in Hk. apply bad_rows_nil. intros i Hi _.
      unfold D' in Hi. rewrite col_length, add_at2_length in Hi.
      rewrite Hent by (auto; lia).
      replace (Nat.eqb k c) with false by (symmetry; apply Nat.eqb_neq; lia). rewrite andb_false_r.
      apply Hok; [exact Hi|lia].
    + intros E.
      assert (I : In r (bad_rows atol (col c D') (fd_col f x c eps))).
      { apply bad_rows_spec. unfold D'. rewrite col_length, add_at2_length, Hf. repeat split; auto.
        fold D'. rewrite Hent by auto. rewrite !Nat.eqb_refl. cbn [andb].
        apply isclose_shift; [apply Hok; auto|exact Hd]. }
      rewrite E in I. destruct I.
  - intros r'. rewrite bad_rows_spec. unfold D'. rewrite col_length, add_at2_length, Hf. fold D'. split.
    + intros (A & _ & B). rewrite Hent in B by auto.
      destruct (Nat.eqb_spec r' r) as [->|N]; [reflexivity|]. cbn [andb] in B. rewrite Hok in B by auto. discriminate.
    + intros ->. repeat split; auto. rewrite Hent by auto. rewrite !Nat.eqb_refl. cbn [andb].
      apply isclose_shift; [apply Hok; auto|exact Hd].
Qed.
