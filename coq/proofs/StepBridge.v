(* StepBridge.v — C14 at the level of the lists the code builds: a vector that solves the system the
   ASYMMETRIC step solver assembles (StepSolvers.matrix KAsymmetric / rhs KAsymmetric), post-processed as the
   code does, solves the system the STANDARD step solver assembles.  This instantiates the abstract algebra of
   StepAlgebra.v with the concrete list operators and closes, for this pair, the gap between the assembled
   rows and the abstract row equations. *)
From Verif Require Import StepSolvers StepAlgebra VecLemmas ImplicitProofs.
From Coq Require Import Lqa Lia.

(* ------------------------------------------------------------------ list lemmas *)
Lemma dot_nil_l v : dot [] v = 0.
Proof. reflexivity. Qed.
Lemma dot_nil_r v : dot v [] = 0.
Proof. destruct v; reflexivity. Qed.

Lemma dot_app a b c d : length a = length c -> dot (a ++ b) (c ++ d) == dot a c + dot b d.
Proof.
  revert c. induction a as [|x a IH]; intros [|y c] H; cbn in *; try discriminate; [ring|].
  rewrite IH by lia. ring.
Qed.

Lemma dot_vzero_l n v : dot (vzero n) v == 0.
Proof. revert v. induction n as [|n IH]; intros [|y v]; cbn; try reflexivity. rewrite IH. ring. Qed.

Lemma dot_vadd_l a b v : length a = length b -> dot (vadd a b) v == dot a v + dot b v.
Proof.
  revert b v. induction a as [|x a IH]; intros [|y b] [|z v] H; cbn in *; try discriminate; try ring.
  rewrite IH by lia. ring.
Qed.

Lemma dot_vscale_l s a v : dot (vscale s a) v == s * dot a v.
Proof. revert v. induction a as [|x a IH]; intros [|z v]; cbn; try ring. rewrite IH. ring. Qed.

Lemma dot_vneg_l a v : dot (vneg a) v == - dot a v.
Proof. revert v. induction a as [|x a IH]; intros [|z v]; cbn; try ring. rewrite IH. ring. Qed.

(* <s e_j, v> = s v_j *)
Lemma dot_unit_row_from k n j s v : (k <= j)%nat -> (j < k + n)%nat ->
  dot (map (fun i => if Nat.eqb i j then s else 0) (seq k n)) v == s * nth (j - k) v 0.
Proof.
  revert k v. induction n as [|n IH]; intros k v H1 H2; [lia|].
  cbn [seq map]. destruct v as [|z v].
  - cbn. destruct (j - k)%nat; ring.
  - cbn [dot]. destruct (Nat.eqb_spec k j) as [->|NE].
    + rewrite Nat.sub_diag. cbn [nth].
      assert (Z0 : dot (map (fun i => if Nat.eqb i j then s else 0) (seq (S j) n)) v == 0).
      { clear. generalize (S j) (Nat.lt_succ_diag_r j). intros k0 Hk. revert k0 Hk v.
        induction n as [|n IH]; intros k0 Hk v; cbn; [reflexivity|]. destruct v as [|z v]; [reflexivity|].
        cbn. destruct (Nat.eqb_spec k0 j); [lia|]. rewrite IH by lia. ring. }
      rewrite Z0. ring.
    + rewrite IH by lia. replace (j - k)%nat with (S (j - S k)) by lia. cbn [nth]. ring.
Qed.
Lemma dot_unit_row n j s v : (j < n)%nat -> dot (unit_row n j s) v == s * nth j v 0.
Proof. intros H. unfold unit_row. rewrite dot_unit_row_from by lia. rewrite Nat.sub_0_r. reflexivity. Qed.

(* <column j of J, w> = (J^T w)_j *)
Lemma dot_col j (J : mat) w : dot (col j J) w == colsum j J w.
Proof.
  unfold col. revert w. induction J as [|r J IH]; intros [|a w]; cbn; try reflexivity.
  rewrite IH. ring.
Qed.

Lemma veq_app_inv a b c d : length a = length c -> veq (a ++ b) (c ++ d) -> veq a c /\ veq b d.
Proof.
  revert c. induction a as [|x a IH]; intros [|y c] HL H; cbn in *; try discriminate.
  - split; [constructor|exact H].
  - inversion H; subst. destruct (IH c ltac:(lia) H5) as [A B]. split; [constructor; assumption|exact B].
Qed.

Lemma veq_of_nth a b : length a = length b -> (forall j, (j < length a)%nat -> nth j a 0 == nth j b 0) -> veq a b.
Proof.
  revert b. induction a as [|x a IH]; intros [|y b] HL H; cbn in *; try discriminate; [constructor|].
  constructor; [exact (H 0%nat ltac:(lia))|]. apply IH; [lia|]. intros j Hj. exact (H (S j) ltac:(lia)).
Qed.

Lemma veq_app a b c d : veq a c -> veq b d -> veq (a ++ b) (c ++ d).
Proof. intros H1 H2. induction H1; cbn; [exact H2|constructor; assumption]. Qed.

Lemma map3_seq_nth {B C D} (f : nat -> B -> C -> D) n (b : list B) (c : list C) j db dc dd :
  (j < n)%nat -> (j < length b)%nat -> (j < length c)%nat ->
  nth j (map3 f (seq 0 n) b c) dd = f j (nth j b db) (nth j c dc).
Proof.
  intros H1 H2 H3. rewrite (map3_nth f (seq 0 n) b c j 0%nat db dc dd) by (rewrite ?seq_length; lia).
  rewrite seq_nth by lia. reflexivity.
Qed.
Lemma map2_seq_nth {B D} (f : nat -> B -> D) n (b : list B) j db dd :
  (j < n)%nat -> (j < length b)%nat -> nth j (map2 f (seq 0 n) b) dd = f j (nth j b db).
Proof.
  intros H1 H2. rewrite (map2_nth f (seq 0 n) b j 0%nat db dd) by (rewrite ?seq_length; lia).
  rewrite seq_nth by lia. reflexivity.
Qed.

(* b[act] = av, b[~act] = iv, componentwise *)
Lemma scatter_select (act : mask) (u v : vec) : length u = length act -> length v = length act ->
  forall j, (j < length act)%nat ->
  nth j (scatter act (select act u) (select (mnot act) v)) 0 = if nth j act false then nth j u 0 else nth j v 0.
Proof.
  revert u v. induction act as [|b act IH]; intros [|a u] [|c v] Hu Hv j Hj; cbn in *; try discriminate; try lia.
  destruct b; cbn; destruct j as [|j]; try reflexivity; apply IH; lia.
Qed.
Lemma scatter_length (act : mask) (a i : vec) : length (scatter act a i) = length act.
Proof. revert a i. induction act as [|b act IH]; intros a i; cbn; [reflexivity|]. destruct b; cbn; rewrite IH; reflexivity. Qed.
Lemma select_vscale s (m : mask) v : select m (vscale s v) = vscale s (select m v).
Proof.
  revert v. induction m as [|b m IH]; intros [|a v]; cbn; try reflexivity; destruct b; cbn; try reflexivity.
  - unfold vscale in IH. rewrite IH. reflexivity.
  - unfold vscale in IH. apply IH.
Qed.

Ltac len := unfold vec, mat, mask in *;
  rewrite ?map3_length, ?map2_length, ?map_length, ?seq_length, ?vadd_length, ?app_length, ?vzero_length; lia.

(* ------------------------------------------------------------------ the bridge *)
Section Bridge.
  Variable P : problem.
  Variable dt rho : Q.
  Hypothesis dt_pos : 0 < dt.
  Hypothesis rho_pos : 0 < rho.
  Variable act : mask.
  Variables xd yd : vec.

  Notation n := (nvars P).
  Notation m := (ncons P).
  Notation lam := (1 / dt).
  Notation J := (jac_d P xd).
  Notation H0 := (hess_sc P rho xd yd).

  Record wfb : Prop := {
    wb_act : length act = n;
    wb_J : length J = m;
    wb_Jrows : Forall (fun r => length r = n) J;
    wb_H : length H0 = n;
    wb_Hrows : Forall (fun r => length r = n) H0
  }.
  Hypothesis W : wfb.

  (* the concrete operators: rows of the lists applied to (tabulated) functions *)
  Definition tab (k : nat) (u : V) : vec := map u (seq 0 k).
  Definition H0op (u : V) : V := fun j => dot (nth j H0 []) (tab n u).
  Definition Jop (u : V) : V := fun i => dot (nth i J []) (tab n u).
  Definition Jtop (w : V) : V := fun j => colsum j J (tab m w).
  Definition actf : nat -> bool := fun j => nth j act false.
  Definition vecf (v : vec) : V := fun k => nth k v 0.

  Lemma tab_vecf v k : length v = k -> tab k (vecf v) = v.
  Proof.
    intros <-. unfold tab, vecf. induction v as [|x v IH] using rev_ind; [reflexivity|].
    rewrite app_length. cbn [length]. rewrite Nat.add_1_r, seq_S, map_app. cbn [map Nat.add].
    rewrite app_nth2 by lia. rewrite Nat.sub_diag. cbn [nth]. f_equal.
    rewrite <- IH at 2. apply map_ext_in. intros a Ha. apply in_seq in Ha. rewrite app_nth1 by lia. reflexivity.
  Qed.

  Lemma dot_tab_lin r k (a b : Q) (u v : V) :
    dot r (tab k (fun i => a * u i + b * v i)) == a * dot r (tab k u) + b * dot r (tab k v).
  Proof.
    unfold tab. generalize 0%nat. revert r. induction k as [|k IH]; intros r s0; cbn.
    - rewrite !dot_nil_r. ring.
    - destruct r as [|x r]; cbn; [ring|]. rewrite IH. ring.
  Qed.
  Lemma dot_tab_ext r k (u v : V) : (forall i, u i == v i) -> dot r (tab k u) == dot r (tab k v).
  Proof.
    intros E. unfold tab. generalize 0%nat. revert r. induction k as [|k IH]; intros r s0; cbn; [reflexivity|].
    destruct r as [|x r]; cbn; [reflexivity|]. rewrite IH, E. reflexivity.
  Qed.
  Lemma colsum_tab_lin j (M : mat) k (a b : Q) (u v : V) :
    colsum j M (tab k (fun i => a * u i + b * v i)) == a * colsum j M (tab k u) + b * colsum j M (tab k v).
  Proof.
    unfold tab. generalize 0%nat. revert M. induction k as [|k IH]; intros M s0; cbn.
    - destruct M; cbn; ring.
    - destruct M as [|r M]; cbn; [ring|]. rewrite IH. ring.
  Qed.
  Lemma colsum_tab_ext j (M : mat) k (u v : V) : (forall i, u i == v i) -> colsum j M (tab k u) == colsum j M (tab k v).
  Proof.
    intros E. unfold tab. generalize 0%nat. revert M. induction k as [|k IH]; intros M s0; cbn.
    - destruct M; reflexivity.
    - destruct M as [|r M]; cbn; [reflexivity|]. rewrite IH, E. reflexivity.
  Qed.

  (* linearity and extensionality of the concrete operators: the hypotheses of StepAlgebra *)
  Lemma H0op_lin : forall (a b : Q) (u v : V) j, H0op (fun k => a * u k + b * v k) j == a * H0op u j + b * H0op v j.
  Proof. intros. unfold H0op. apply dot_tab_lin. Qed.
  Lemma Jop_lin : forall (a b : Q) (u v : V) i, Jop (fun k => a * u k + b * v k) i == a * Jop u i + b * Jop v i.
  Proof. intros. unfold Jop. apply dot_tab_lin. Qed.
  Lemma Jtop_lin : forall (a b : Q) (u v : V) j, Jtop (fun k => a * u k + b * v k) j == a * Jtop u j + b * Jtop v j.
  Proof. intros. unfold Jtop. apply colsum_tab_lin. Qed.
  Lemma H0op_ext : forall (u v : V), (forall k, u k == v k) -> forall j, H0op u j == H0op v j.
  Proof. intros. unfold H0op. apply dot_tab_ext. assumption. Qed.
  Lemma Jop_ext : forall (u v : V), (forall k, u k == v k) -> forall i, Jop u i == Jop v i.
  Proof. intros. unfold Jop. apply dot_tab_ext. assumption. Qed.
  Lemma Jtop_ext : forall (u v : V), (forall k, u k == v k) -> forall j, Jtop u j == Jtop v j.
  Proof. intros. unfold Jtop. apply colsum_tab_ext. assumption. Qed.

  (* ---------------- the rows the asymmetric solver assembles, applied to sol = sx ++ sy ---------------- *)
  Variables sx sy : vec.
  Hypothesis Lsx : length sx = n.
  Hypothesis Lsy : length sy = m.

  Lemma hess_lam_nth j : (j < n)%nat ->
    nth j (hess_lam P dt rho xd yd) [] = vadd (nth j H0 []) (unit_row n j lam).
  Proof.
    intros Hj. pose proof W as [Wa WJ WJr WH WHr]. unfold hess_lam. unfold nn.
    rewrite (map2_seq_nth (B:=vec) (D:=vec) _ n H0 j [] []) by len. unfold lamb_. reflexivity.
  Qed.
  Lemma H0_row_length j : (j < n)%nat -> length (nth j H0 []) = n.
  Proof. intros Hj. pose proof W as [Wa WJ WJr WH WHr]. rewrite Forall_forall in WHr. apply WHr. apply nth_In. len. Qed.
  Lemma J_row_length i : (i < m)%nat -> length (nth i J []) = n.
  Proof. intros Hi. pose proof W as [Wa WJ WJr WH WHr]. rewrite Forall_forall in WJr. apply WJr. apply nth_In. len. Qed.

  (* row j < n of the asymmetric matrix *)
  Lemma asym_row_x j : (j < n)%nat ->
    dot (nth j (matrix P dt rho KAsymmetric act xd yd) []) (sx ++ sy)
    == if actf j then nth j sx 0
       else H0op (vecf sx) j + lam * nth j sx 0 + Jtop (vecf sy) j.
  Proof.
    intros Hj. pose proof W as [Wa WJ WJr WH WHr]. unfold matrix. unfold nn, mm.
    assert (HL : length (hess_lam P dt rho xd yd) = n) by (unfold hess_lam, nn; len).
    rewrite app_nth1 by len.
    rewrite (map3_seq_nth (B:=bool) (C:=vec) (D:=vec) _ n act (hess_lam P dt rho xd yd) j false [] []) by len.
    unfold actf. destruct (nth j act false).
    - rewrite dot_unit_row by lia. rewrite app_nth1 by lia. ring.
    - rewrite hess_lam_nth by exact Hj.
      pose proof (H0_row_length j Hj) as HR.
      assert (HU : length (unit_row n j lam) = n) by (unfold unit_row; len).
      rewrite dot_app by (rewrite vadd_length; lia).
      rewrite dot_vadd_l by lia.
      rewrite dot_unit_row by exact Hj. rewrite dot_col.
      unfold H0op, Jtop. rewrite (tab_vecf sx n Lsx), (tab_vecf sy m Lsy). reflexivity.
  Qed.

  (* row n + i of the asymmetric matrix *)
  Lemma asym_row_y i : (i < m)%nat ->
    dot (nth (n + i) (matrix P dt rho KAsymmetric act xd yd) []) (sx ++ sy)
    == Jop (vecf sx) i + lower dt rho * nth i sy 0.
  Proof.
    intros Hi. pose proof W as [Wa WJ WJr WH WHr]. unfold matrix. unfold nn, mm.
    assert (HL : length (hess_lam P dt rho xd yd) = n) by (unfold hess_lam, nn; len).
    match goal with |- context [nth _ (?T ++ _) _] => set (top := T) end.
    assert (HT : length top = n) by (unfold top; len).
    rewrite app_nth2 by lia. replace (n + i - length top)%nat with i by lia.
    rewrite (map2_seq_nth (B:=vec) (D:=vec) _ m J i [] []) by len.
    pose proof (J_row_length i Hi) as HR.
    rewrite dot_app by lia.
    rewrite dot_unit_row by exact Hi.
    unfold Jop. rewrite (tab_vecf sx n Lsx). reflexivity.
  Qed.
End Bridge.

(* ------------------------------------------------------------------ scaled residual = lambda * residual *)
Lemma vsub_nth a b j : (j < length a)%nat -> (j < length b)%nat -> nth j (vsub a b) 0 = nth j a 0 - nth j b 0.
Proof. intros. unfold vsub. now apply map2_nth. Qed.
Lemma vsub_length a b : length (vsub a b) = Nat.min (length a) (length b).
Proof. apply map2_length. Qed.
Lemma vneg_length a : length (vneg a) = length a.
Proof. apply map_length. Qed.

Lemma clip_b_compat p p' l u : p == p' -> clip_b p l u == clip_b p' l u.
Proof.
  intros E. destruct l as [a|], u as [b|]; cbn; try exact E.
  - unfold qmin, qmax. destruct (qle p a) eqn:A, (qle p' a) eqn:A'; qcases; try lra;
      match goal with |- context [qle ?s ?t] => destruct (qle s t) eqn:B end;
      match goal with |- context [qle ?s ?t] => destruct (qle s t) eqn:B' end; qcases; lra.
  - unfold qmax. destruct (qle p a) eqn:A, (qle p' a) eqn:A'; qcases; lra.
  - unfold qmin. destruct (qle p b) eqn:A, (qle p' b) eqn:A'; qcases; lra.
Qed.

Section Residuals.
  Variable P : problem.
  Variables xh yh : vec.
  Variable dt rho : Q.
  Hypothesis dt_pos : 0 < dt.
  Variable act : mask.
  Variables x y : vec.
  Notation n := (nvars P).
  Notation m := (ncons P).
  Notation lam := (1 / dt).
  Notation g := (aug_lag_deriv_x P x y rho).
  Notation c := (it_cons P x).

  Record wfr : Prop := {
    wr_x : length x = n; wr_xh : length xh = n; wr_g : length g = n;
    wr_lb : length (var_lb P) = n; wr_ub : length (var_ub P) = n; wr_act : length act = n;
    wr_y : length y = m; wr_yh : length yh = m; wr_c : length c = m
  }.
  Hypothesis W : wfr.

  Lemma lam_pos : 0 < lam.
  Proof. apply Qlt_shift_div_l; lra. Qed.
  Lemma lam_dt : lam * dt == 1.
  Proof. field. lra. Qed.

  Notation F := (value_at P xh yh dt rho x y act).
  Notation Fs := (s_value_at P xh yh dt rho x y act).

  Lemma F_length : length F = (n + m)%nat.
  Proof.
    pose proof W as [A B C D E G H I K]. unfold value_at, project_box, proj_init.
    unfold vec, mat, mask in *.
    rewrite app_length, !vsub_length, map4_length, !vsub_length, vadd_length, !vscale_length. lia.
  Qed.
  Lemma Fs_length : length Fs = (n + m)%nat.
  Proof.
    pose proof W as [A B C D E G H I K]. unfold s_value_at, project_box, s_proj_init, s_lb, s_ub.
    unfold vec, mat, mask in *.
    rewrite app_length, vneg_length, !vsub_length, map4_length, !vsub_length, vadd_length, !vscale_length, !map_length. lia.
  Qed.

  Ltac lens := unfold vec, mat, mask in *;
    rewrite ?app_length, ?vneg_length, ?vsub_length, ?map4_length, ?vadd_length, ?vscale_length, ?map_length; lia.

  (* components of the standard residual *)
  Lemma F_x j : (j < n)%nat ->
    nth j F 0 == nth j x 0 - (let p := nth j xh 0 - dt * nth j g 0 in
                              if nth j act false then clip_b p (nth j (var_lb P) None) (nth j (var_ub P) None) else p).
  Proof.
    intros Hj. pose proof W as [A B C D E G H I K].
    unfold value_at, proj_init.
    set (p := vsub xh (vscale dt g)).
    assert (Lp : length p = n) by (unfold p; lens).
    assert (Lq : length (project_box p (var_lb P) (var_ub P) act) = n) by (unfold project_box; lens).
    rewrite app_nth1 by lens. rewrite vsub_nth by lens. rewrite project_box_spec by lia.
    assert (Ep : nth j p 0 == nth j xh 0 - dt * nth j g 0).
    { unfold p. rewrite vsub_nth by lens. rewrite vscale_nth. reflexivity. }
    cbv zeta. destruct (nth j act false); [rewrite (clip_b_compat _ _ _ _ Ep)|rewrite Ep]; reflexivity.
  Qed.
  Lemma F_y i : (i < m)%nat -> nth (n + i) F 0 == nth i y 0 - (nth i yh 0 + dt * nth i c 0).
  Proof.
    intros Hi. pose proof W as [A B C D E G H I K].
    unfold value_at, proj_init.
    set (p := vsub xh (vscale dt g)).
    assert (Lp : length p = n) by (unfold p; lens).
    assert (Lq : length (vsub x (project_box p (var_lb P) (var_ub P) act)) = n) by (unfold project_box; lens).
    rewrite app_nth2 by lia. rewrite Lq. replace (n + i - n)%nat with i by lia.
    rewrite vsub_nth by lens. rewrite vadd_nth by lens. rewrite vscale_nth. reflexivity.
  Qed.

  (* components of the scaled residual *)
  Lemma Fs_x j : (j < n)%nat ->
    nth j Fs 0 == lam * nth j x 0 - (let p := lam * nth j xh 0 - nth j g 0 in
                                    if nth j act false
                                    then clip_b p (bnd_scale lam (nth j (var_lb P) None)) (bnd_scale lam (nth j (var_ub P) None))
                                    else p).
  Proof.
    intros Hj. pose proof W as [A B C D E G H I K].
    unfold s_value_at, s_proj_init, s_lb, s_ub, Implicit.lam.
    set (p := vsub (vscale lam xh) g).
    assert (Lp : length p = n) by (unfold p; lens).
    assert (Ll : length (map (bnd_scale lam) (var_lb P)) = n) by lens.
    assert (Lu : length (map (bnd_scale lam) (var_ub P)) = n) by lens.
    assert (Lq : length (project_box p (map (bnd_scale lam) (var_lb P)) (map (bnd_scale lam) (var_ub P)) act) = n)
      by (unfold project_box; lens).
    rewrite app_nth1 by lens. rewrite vsub_nth by lens. rewrite project_box_spec by lia. rewrite vscale_nth.
    assert (Ep : nth j p 0 == lam * nth j xh 0 - nth j g 0).
    { unfold p. rewrite vsub_nth by lens. rewrite vscale_nth. reflexivity. }
    assert (El : nth j (map (bnd_scale lam) (var_lb P)) None = bnd_scale lam (nth j (var_lb P) None)).
    { rewrite (nth_indep _ None (bnd_scale lam None)) by lens. apply map_nth. }
    assert (Eu : nth j (map (bnd_scale lam) (var_ub P)) None = bnd_scale lam (nth j (var_ub P) None)).
    { rewrite (nth_indep _ None (bnd_scale lam None)) by lens. apply map_nth. }
    rewrite El, Eu. cbv zeta.
    destruct (nth j act false); [rewrite (clip_b_compat _ _ _ _ Ep)|rewrite Ep]; reflexivity.
  Qed.
  Lemma Fs_y i : (i < m)%nat -> nth (n + i) Fs 0 == - (lam * nth i y 0 - (lam * nth i yh 0 + nth i c 0)).
  Proof.
    intros Hi. pose proof W as [A B C D E G H I K].
    unfold s_value_at, s_proj_init, s_lb, s_ub, Implicit.lam.
    set (p := vsub (vscale lam xh) g).
    assert (Lp : length p = n) by (unfold p; lens).
    assert (Lq : length (vsub (vscale lam x) (project_box p (map (bnd_scale lam) (var_lb P)) (map (bnd_scale lam) (var_ub P)) act)) = n)
      by (unfold project_box; lens).
    rewrite app_nth2 by lia. rewrite Lq. replace (n + i - n)%nat with i by lia.
    rewrite vneg_nth. rewrite vsub_nth by lens. rewrite vadd_nth by lens. rewrite !vscale_nth. reflexivity.
  Qed.

  (* x block: scaled = lambda * standard;  y block: scaled = - lambda * standard *)
  Lemma scaled_residual_x j : (j < n)%nat -> nth j Fs 0 == lam * nth j F 0.
  Proof.
    intros Hj. rewrite (Fs_x j Hj), (F_x j Hj). cbv zeta.
    pose proof lam_pos as LP. pose proof lam_dt as LD.
    assert (Ep : lam * nth j xh 0 - nth j g 0 == lam * (nth j xh 0 - dt * nth j g 0)).
    { transitivity (lam * nth j xh 0 - (lam * dt) * nth j g 0); [rewrite LD; ring|ring]. }
    destruct (nth j act false).
    - rewrite (clip_b_compat _ _ _ _ Ep), clip_b_scale by exact LP. ring.
    - rewrite Ep. ring.
  Qed.
  Lemma scaled_residual_y i : (i < m)%nat -> nth (n + i) Fs 0 == - (lam * nth (n + i) F 0).
  Proof.
    intros Hi. rewrite (Fs_y i Hi), (F_y i Hi). pose proof lam_dt as LD.
    transitivity (- (lam * nth i y 0 - (lam * nth i yh 0 + (lam * dt) * nth i c 0))); [rewrite LD; ring|ring].
  Qed.
End Residuals.

(* ------------------------------------------------------------------ matrix lemmas for the standard rows *)
Lemma mvec_nth (M : mat) v j : nth j (mvec M v) 0 = dot (nth j M []) v.
Proof.
  unfold mvec. destruct (Nat.lt_ge_cases j (length M)) as [H|H].
  - rewrite (nth_indep _ 0 (dot [] v)) by (rewrite map_length; exact H). apply (map_nth (fun r => dot r v)).
  - rewrite (nth_overflow (map _ M)) by (rewrite map_length; exact H). rewrite (nth_overflow M) by exact H. reflexivity.
Qed.
Lemma mvec_length (M : mat) v : length (mvec M v) = length M.
Proof. apply map_length. Qed.

(* <M^T w, v> = <w, M v> *)
Lemma dot_tmvec k (M : mat) w v : Forall (fun r => length r = k) M -> length v = k ->
  dot (tmvec k M w) v == dot w (mvec M v).
Proof.
  revert w. induction M as [|r M IH]; intros w HM Hv.
  - cbn. rewrite dot_vzero_l. destruct w; reflexivity.
  - destruct w as [|a w]; cbn [tmvec mvec map dot].
    + rewrite dot_vzero_l. reflexivity.
    + inversion HM as [|r' M' Hr HM' E]. clear E.
      rewrite dot_vadd_l by (rewrite vscale_length, tmvec_length by exact HM'; exact Hr).
      rewrite dot_vscale_l, IH by assumption. reflexivity.
Qed.

Lemma dot_comm a b : dot a b == dot b a.
Proof. revert b. induction a as [|x a IH]; intros [|y b]; cbn; try reflexivity. rewrite IH. ring. Qed.

Lemma colsum_as_dot j (M : mat) w : colsum j M w == dot w (col j M).
Proof. rewrite <- dot_col. apply dot_comm. Qed.

Lemma transpose_nth k (M : mat) j : (j < k)%nat -> nth j (transpose k M) [] = col j M.
Proof.
  intros H. unfold transpose. rewrite (nth_indep _ [] (col 0 M)) by (rewrite map_length, seq_length; exact H).
  rewrite (map_nth (fun i => col i M)). rewrite seq_nth by exact H. reflexivity.
Qed.
Lemma madd_nth (A B : mat) j : (j < length A)%nat -> (j < length B)%nat -> nth j (madd A B) [] = vadd (nth j A []) (nth j B []).
Proof. intros. unfold madd. now apply map2_nth. Qed.
Lemma mscale_nth s (A : mat) j : (j < length A)%nat -> nth j (mscale s A) [] = vscale s (nth j A []).
Proof.
  intros H. unfold mscale. rewrite (nth_indep _ [] (vscale s [])) by (rewrite map_length; exact H).
  apply (map_nth (vscale s)).
Qed.
Lemma mmul_nth k (A B : mat) j : (j < length A)%nat -> nth j (mmul k A B) [] = tmvec k B (nth j A []).
Proof.
  intros H. unfold mmul. rewrite (nth_indep _ [] (tmvec k B [])) by (rewrite map_length; exact H).
  apply (map_nth (fun r => tmvec k B r)).
Qed.

Lemma colsum_overflow j (M : mat) w k : Forall (fun r => length r = k) M -> (k <= j)%nat -> colsum j M w == 0.
Proof.
  revert w. induction M as [|r M IH]; intros [|a w] HM Hj; cbn; try reflexivity.
  inversion HM; subst. rewrite IH by assumption. rewrite nth_overflow by lia. ring.
Qed.

(* ------------------------------------------------------------------ the theorem *)
Section AsymmetricSolvesStandard.
  Variable P : problem.
  Variables xh yh : vec.
  Variable dt rho : Q.
  Hypothesis dt_pos : 0 < dt.
  Hypothesis rho_pos : 0 < rho.
  Variable act : mask.
  Variables xd yd : vec.       (* point the derivatives were taken at *)
  Variables x y : vec.         (* iterate the step is taken from *)
  Notation n := (nvars P).
  Notation m := (ncons P).
  Notation lam := (1 / dt).
  Notation J := (jac_d P xd).
  Notation H0 := (hess_sc P rho xd yd).

  Hypothesis WB : wfb P rho act xd yd.
  Hypothesis WR : wfr P xh yh rho act x y.

  Notation F := (value_at P xh yh dt rho x y act).
  Notation Fs := (s_value_at P xh yh dt rho x y act).
  Definition Fxf : V := fun j => if Nat.ltb j n then nth j F 0 else 0.
  Definition Fyf : V := fun i => if Nat.ltb i m then nth (n + i) F 0 else 0.

  Notation Hop := (H0op P rho xd yd).
  Notation Jo := (Jop P xd).
  Notation Jt := (Jtop P xd).
  Notation af := (actf act).

  Variable sol : vec.
  Hypothesis Lsol : length sol = (n + m)%nat.
  Notation sx := (firstn n sol).
  Notation sy := (skipn n sol).

  Lemma Lsx : length sx = n.
  Proof. rewrite firstn_length. lia. Qed.
  Lemma Lsy : length sy = m.
  Proof. rewrite skipn_length. lia. Qed.
  Lemma sol_split : sol = sx ++ sy.
  Proof. symmetry. apply firstn_skipn. Qed.

  Lemma lam_pos' : 0 < lam.
  Proof. apply Qlt_shift_div_l; lra. Qed.

  (* the right-hand side the asymmetric solver builds, componentwise *)
  Lemma asym_rhs_x j : (j < n)%nat ->
    nth j (rhs P xh yh dt rho KAsymmetric act xd yd x y) 0
    == if af j then dt * nth j Fs 0 else nth j Fs 0.
  Proof.
    intros Hj. pose proof WR as [A B C D E G H I K]. pose proof (Fs_length P xh yh dt rho act x y WR) as LF.
    unfold rhs, b0, b1, b2t, b2, r_sc, nn, inact.
    assert (Lr : length (firstn n Fs) = n) by (rewrite firstn_length; lia).
    assert (Ls : length (scatter act (vscale dt (select act (firstn n Fs))) (select (mnot act) (firstn n Fs))) = n)
      by (rewrite scatter_length; exact G).
    rewrite app_nth1 by lia.
    rewrite <- select_vscale.
    rewrite scatter_select by (rewrite ?vscale_length; lia).
    unfold actf. destruct (nth j act false).
    - rewrite vscale_nth. rewrite <- (firstn_skipn n Fs) at 2. rewrite app_nth1 by lia. reflexivity.
    - rewrite <- (firstn_skipn n Fs) at 2. rewrite app_nth1 by lia. reflexivity.
  Qed.
  Lemma asym_rhs_y i : (i < m)%nat ->
    nth (n + i) (rhs P xh yh dt rho KAsymmetric act xd yd x y) 0 == fact dt rho * nth (n + i) Fs 0.
  Proof.
    intros Hi. pose proof WR as [A B C D E G H I K]. pose proof (Fs_length P xh yh dt rho act x y WR) as LF.
    unfold rhs, b0, b1, b2t, b2, r_sc, nn, inact.
    assert (Ls : length (scatter act (vscale dt (select act (firstn n Fs))) (select (mnot act) (firstn n Fs))) = n)
      by (rewrite scatter_length; exact G).
    rewrite app_nth2 by lia. rewrite Ls. replace (n + i - n)%nat with i by lia.
    rewrite vscale_nth. rewrite <- (firstn_skipn n Fs) at 2.
    rewrite app_nth2 by (rewrite firstn_length; lia). rewrite firstn_length. replace (n + i - Nat.min n (length Fs))%nat with i by lia.
    reflexivity.
  Qed.

  (* a solution of the asymmetric list system satisfies the abstract extended row equations *)
  Hypothesis Hsol : veq (mvec (matrix P dt rho KAsymmetric act xd yd) sol) (rhs P xh yh dt rho KAsymmetric act xd yd x y).

  Lemma asym_list_solves_ext :
    ext_system Hop Jo Jt af lam rho Fxf Fyf (vecf sx) (vecf sy).
  Proof.
    pose proof WB as [Wa WJ WJr WH WHr]. pose proof WR as [A B C D E G H I K].
    pose proof Lsx as LX. pose proof Lsy as LY. pose proof lam_pos' as LP.
    assert (LD : 1 / lam == dt) by (field; lra).
    unfold ext_system. split; [|split].
    - (* active rows *)
      intros j Hj. unfold actf in Hj.
      assert (Hjn : (j < n)%nat).
      { destruct (Nat.lt_ge_cases j n); [assumption|]. rewrite nth_overflow in Hj by lia. discriminate. }
      pose proof (veq_nth _ _ j Hsol) as E1. rewrite mvec_nth in E1. rewrite sol_split in E1 at 1.
      rewrite (asym_row_x P dt rho act xd yd WB sx sy LX LY j Hjn) in E1. rewrite (asym_rhs_x j Hjn) in E1.
      unfold actf in E1. rewrite Hj in E1.
      unfold vecf, Fxf. replace (Nat.ltb j n) with true by (symmetry; apply Nat.ltb_lt; exact Hjn).
      rewrite E1, (scaled_residual_x P xh yh dt rho dt_pos act x y WR j Hjn). rewrite LD. ring.
    - (* inactive rows *)
      intros j Hj. unfold actf in Hj.
      destruct (Nat.lt_ge_cases j n) as [Hjn|Hjn].
      + pose proof (veq_nth _ _ j Hsol) as E1. rewrite mvec_nth in E1. rewrite sol_split in E1 at 1.
        rewrite (asym_row_x P dt rho act xd yd WB sx sy LX LY j Hjn) in E1. rewrite (asym_rhs_x j Hjn) in E1.
        unfold actf in E1. rewrite Hj in E1.
        unfold vecf at 2. unfold Fxf. replace (Nat.ltb j n) with true by (symmetry; apply Nat.ltb_lt; exact Hjn).
        rewrite E1, (scaled_residual_x P xh yh dt rho dt_pos act x y WR j Hjn). reflexivity.
      + (* beyond the dimension everything vanishes *)
        unfold Fxf. replace (Nat.ltb j n) with false by (symmetry; apply Nat.ltb_ge; exact Hjn).
        unfold H0op, Jtop, vecf at 2. rewrite (nth_overflow H0) by (unfold vec, mat in *; lia).
        rewrite (nth_overflow sx) by lia. rewrite (colsum_overflow j J _ n WJr Hjn). cbn. ring.
    - (* constraint rows *)
      intros i.
      destruct (Nat.lt_ge_cases i m) as [Him|Him].
      + pose proof (veq_nth _ _ (n + i)%nat Hsol) as E1. rewrite mvec_nth in E1. rewrite sol_split in E1 at 1.
        rewrite (asym_row_y P dt rho act xd yd WB sx sy LX LY i Him) in E1. rewrite (asym_rhs_y i Him) in E1.
        unfold vecf at 2. unfold Fyf. replace (Nat.ltb i m) with true by (symmetry; apply Nat.ltb_lt; exact Him).
        unfold lower, lamb_ in E1. rewrite E1, (scaled_residual_y P xh yh dt rho dt_pos act x y WR i Him).
        unfold fact, lamb_. reflexivity.
      + unfold Fyf. replace (Nat.ltb i m) with false by (symmetry; apply Nat.ltb_ge; exact Him).
        unfold Jop, vecf at 2. rewrite (nth_overflow J) by (unfold vec, mat in *; lia).
        rewrite (nth_overflow sy) by lia. cbn. ring.
  Qed.

  (* hence (StepAlgebra.ext_solves_std, instantiated with the list operators) the abstract standard equations hold *)
  Lemma asym_list_solves_std_abstract :
    std_system Hop Jo Jt af lam rho Fxf Fyf (vecf sx) (post_dy lam rho Fyf (vecf sy)).
  Proof.
    apply (ext_solves_std Hop Jo Jt (Jtop_lin P xd) (Jtop_ext P xd) af lam rho lam_pos' rho_pos Fxf Fyf).
    exact asym_list_solves_ext.
  Qed.
End AsymmetricSolvesStandard.

Lemma tab_rows (M : mat) v : map (fun i => dot (nth i M []) v) (seq 0 (length M)) = mvec M v.
Proof.
  unfold mvec. induction M as [|r M IH] using rev_ind; [reflexivity|].
  rewrite app_length. cbn [length]. rewrite Nat.add_1_r, seq_S, !map_app. cbn [map Nat.add].
  rewrite app_nth2 by lia. rewrite Nat.sub_diag. cbn [nth]. f_equal.
  rewrite <- IH. apply map_ext_in. intros a Ha. apply in_seq in Ha. rewrite app_nth1 by lia. reflexivity.
Qed.

(* ------------------------------------------------------------------ the standard rows, and the list-level theorem *)
Section StandardRows.
  Variable P : problem.
  Variables xh yh : vec.
  Variable dt rho : Q.
  Hypothesis dt_pos : 0 < dt.
  Hypothesis rho_pos : 0 < rho.
  Variable act : mask.
  Variables xd yd : vec.
  Variables x y : vec.
  Notation n := (nvars P).
  Notation m := (ncons P).
  Notation lam := (1 / dt).
  Notation J := (jac_d P xd).
  Notation H0 := (hess_sc P rho xd yd).
  Hypothesis WB : wfb P rho act xd yd.
  Hypothesis WR : wfr P xh yh rho act x y.
  Notation Hop := (H0op P rho xd yd).
  Notation Jo := (Jop P xd).
  Notation Jt := (Jtop P xd).
  Notation af := (actf act).
  Notation F := (value_at P xh yh dt rho x y act).
  Notation Mstd := (matrix P dt rho KStandard act xd yd).

  Variables dx dy : vec.
  Hypothesis Ldx : length dx = n.
  Hypothesis Ldy : length dy = m.

  Lemma tab_Jop : tab m (Jo (vecf dx)) = mvec J dx.
  Proof.
    pose proof WB as [Wa WJ WJr WH WHr]. unfold tab, Jop. rewrite (tab_vecf dx n Ldx).
    unfold vec, mat in *. rewrite <- WJ. apply tab_rows.
  Qed.

  Lemma hess_std_row j : (j < n)%nat ->
    nth j (hess_std P rho xd yd) [] = vadd (nth j H0 []) (vscale rho (tmvec n J (col j J))).
  Proof.
    intros Hj. pose proof WB as [Wa WJ WJr WH WHr].
    unfold hess_std, aug_lag_deriv_xx, hess_sc, jac_d, n_, it_cons, it_jac in *.
    assert (LT : length (transpose n (p_jac P xd)) = n) by (unfold transpose; rewrite map_length, seq_length; reflexivity).
    rewrite madd_nth; [| unfold vec, mat in *; lia | unfold mscale, mmul; rewrite !map_length; lia].
    f_equal. rewrite mscale_nth by (unfold mmul; rewrite map_length; lia).
    rewrite mmul_nth by lia. rewrite transpose_nth by exact Hj. reflexivity.
  Qed.

  Lemma std_row_x j : (j < n)%nat ->
    dot (nth j Mstd []) (dx ++ dy)
    == if af j then nth j dx 0
       else nth j dx 0 + dt * (Hop (vecf dx) j + rho * Jt (Jo (vecf dx)) j + Jt (vecf dy) j).
  Proof.
    intros Hj. pose proof WB as [Wa WJ WJr WH WHr].
    unfold matrix, deriv, n_v, m_c.
    assert (LH : length (hess_std P rho xd yd) = n).
    { unfold hess_std, aug_lag_deriv_xx, madd, hess_sc, n_, it_jac, it_cons, jac_d in *. rewrite map2_length.
      unfold mscale, mmul, transpose. rewrite !map_length, seq_length. unfold vec, mat in *. lia. }
    match goal with |- context [nth _ (?T ++ _) _] => set (top := T) end.
    assert (HT : length top = n) by (unfold top; unfold vec, mat, mask in *; rewrite map3_length, seq_length; lia).
    rewrite app_nth1 by lia. unfold top.
    rewrite (map3_seq_nth (B:=bool) (C:=vec) (D:=vec) _ n act (hess_std P rho xd yd) j false [] [])
      by (unfold vec, mat, mask in *; lia).
    unfold actf. destruct (nth j act false).
    - rewrite dot_app by (unfold unit_row; rewrite map_length, seq_length; lia).
      rewrite dot_unit_row by exact Hj. rewrite dot_vzero_l. ring.
    - rewrite hess_std_row by exact Hj.
      pose proof (H0_row_length P rho act xd yd WB dx dy Ldx Ldy j Hj) as HR.
      assert (LTm : length (tmvec n J (col j J)) = n) by (apply tmvec_length; exact WJr).
      assert (LU : length (unit_row n j 1) = n) by (unfold unit_row; rewrite map_length, seq_length; reflexivity).
      rewrite dot_app by (unfold vec in *; rewrite vadd_length, vscale_length, vadd_length, vscale_length; lia).
      rewrite dot_vadd_l by (unfold vec in *; rewrite vscale_length, vadd_length, vscale_length; lia).
      rewrite dot_unit_row by exact Hj.
      rewrite !dot_vscale_l.
      rewrite dot_vadd_l by (unfold vec in *; rewrite vscale_length; lia).
      rewrite dot_vscale_l.
      rewrite (dot_tmvec n J (col j J) dx WJr Ldx).
      rewrite dot_col.
      unfold H0op, Jtop. rewrite tab_Jop. rewrite (tab_vecf dx n Ldx), (tab_vecf dy m Ldy).
      rewrite dot_col. ring.
  Qed.

  Lemma std_row_y i : (i < m)%nat ->
    dot (nth (n + i) Mstd []) (dx ++ dy) == - dt * Jo (vecf dx) i + nth i dy 0.
  Proof.
    intros Hi. pose proof WB as [Wa WJ WJr WH WHr].
    unfold matrix, deriv, n_v, m_c.
    assert (LH : length (hess_std P rho xd yd) = n).
    { unfold hess_std, aug_lag_deriv_xx, madd, hess_sc, n_, it_jac, it_cons, jac_d in *. rewrite map2_length.
      unfold mscale, mmul, transpose. rewrite !map_length, seq_length. unfold vec, mat in *. lia. }
    match goal with |- context [nth _ (?T ++ _) _] => set (top := T) end.
    assert (HT : length top = n) by (unfold top; unfold vec, mat, mask in *; rewrite map3_length, seq_length; lia).
    rewrite app_nth2 by lia. replace (n + i - length top)%nat with i by lia.
    rewrite (map2_seq_nth (B:=vec) (D:=vec) _ m J i [] []) by (unfold vec, mat in *; lia).
    pose proof (J_row_length P rho act xd yd WB dx dy Ldx Ldy i Hi) as HR.
    rewrite dot_app by (unfold vec in *; rewrite vscale_length; lia).
    rewrite dot_vscale_l. rewrite dot_unit_row by exact Hi.
    unfold Jop. rewrite (tab_vecf dx n Ldx). ring.
  Qed.
End StandardRows.

Section ListTheorem.
  Variable P : problem.
  Variables xh yh : vec.
  Variable dt rho : Q.
  Hypothesis dt_pos : 0 < dt.
  Hypothesis rho_pos : 0 < rho.
  Variable act : mask.
  Variables xd yd : vec.
  Variables x y : vec.
  Notation n := (nvars P).
  Notation m := (ncons P).
  Notation lam := (1 / dt).
  Notation J := (jac_d P xd).
  Hypothesis WB : wfb P rho act xd yd.
  Hypothesis WR : wfr P xh yh rho act x y.
  Notation F := (value_at P xh yh dt rho x y act).
  Notation Fs := (s_value_at P xh yh dt rho x y act).
  Notation Hop := (H0op P rho xd yd).
  Notation Jo := (Jop P xd).
  Notation Jt := (Jtop P xd).
  Notation af := (actf act).
  Notation Fx := (Fxf P xh yh dt rho act x y).
  Notation Fy := (Fyf P xh yh dt rho act x y).

  Variable sol : vec.
  Hypothesis Lsol : length sol = (n + m)%nat.
  Hypothesis Hsol : veq (mvec (matrix P dt rho KAsymmetric act xd yd) sol) (rhs P xh yh dt rho KAsymmetric act xd yd x y).

  Notation sx := (firstn n sol).
  Notation sy := (skipn n sol).
  (* what the code computes from the linear solver's answer *)
  Notation dyl := (vscale (fact dt rho) (vsub sy (vscale rho (b2 P xh yh dt rho act x y)))).

  Lemma post_is : post P xh yh dt rho KAsymmetric act x y sol = (sx, dyl).
  Proof. reflexivity. Qed.

  Lemma Ldyl : length dyl = m.
  Proof.
    pose proof WR as [A B C D E G H I K]. pose proof (Fs_length P xh yh dt rho act x y WR) as LF.
    unfold b2, r_sc, nn. unfold vec in *. rewrite vscale_length, vsub_length, vscale_length, !skipn_length. lia.
  Qed.

  (* the list dy is the abstract post-processing of sy, at every index *)
  Lemma dyl_is_post k : vecf dyl k == post_dy lam rho Fy (vecf sy) k.
  Proof.
    pose proof WR as [A B C D E G H I K]. pose proof (Fs_length P xh yh dt rho act x y WR) as LF.
    pose proof Ldyl as LD.
    assert (LY : length sy = m) by (rewrite skipn_length; lia).
    unfold vecf, post_dy, Fyf.
    destruct (Nat.lt_ge_cases k m) as [Hk|Hk].
    - replace (Nat.ltb k m) with true by (symmetry; apply Nat.ltb_lt; exact Hk).
      rewrite vscale_nth.
      assert (Lb : length (b2 P xh yh dt rho act x y) = m) by (unfold b2, r_sc, nn; rewrite skipn_length; lia).
      rewrite vsub_nth by (unfold vec in *; rewrite ?vscale_length; lia). rewrite vscale_nth.
      assert (Eb : nth k (b2 P xh yh dt rho act x y) 0 == - (lam * nth (n + k) F 0)).
      { unfold b2, r_sc, nn. rewrite <- (scaled_residual_y P xh yh dt rho dt_pos act x y WR k Hk).
        rewrite <- (firstn_skipn n Fs) at 2. rewrite app_nth2 by (rewrite firstn_length; lia).
        rewrite firstn_length. replace (n + k - Nat.min n (length Fs))%nat with k by lia. reflexivity. }
      rewrite Eb. unfold fact, lamb_. reflexivity.
    - replace (Nat.ltb k m) with false by (symmetry; apply Nat.ltb_ge; exact Hk).
      rewrite (nth_overflow dyl) by lia. rewrite (nth_overflow sy) by lia. ring.
  Qed.

  (* C14, on the lists the code builds: the post-processed answer of the asymmetric system solves the
     standard system F'_A(z) s = F(z) *)
  Theorem asymmetric_solves_standard_lists :
    veq (mvec (matrix P dt rho KStandard act xd yd) (sx ++ dyl)) (rhs P xh yh dt rho KStandard act xd yd x y).
  Proof.
    pose proof WB as [Wa WJ WJr WH WHr]. pose proof WR as [A B C D E G H I K].
    pose proof (asym_list_solves_std_abstract P xh yh dt rho dt_pos rho_pos act xd yd x y WB WR sol Lsol Hsol)
      as (Sa & Si & Sy).
    assert (LX : length sx = n) by (rewrite firstn_length; lia).
    pose proof Ldyl as LY.
    assert (DT : 1 / lam == dt) by (field; lra).
    assert (LM : length (matrix P dt rho KStandard act xd yd) = (n + m)%nat).
    { assert (LH : length (hess_std P rho xd yd) = n).
      { unfold hess_std, aug_lag_deriv_xx, madd, hess_sc, n_, it_jac, it_cons, jac_d in *. rewrite map2_length.
        unfold mscale, mmul, transpose. rewrite !map_length, seq_length. unfold vec, mat in *. lia. }
      unfold matrix, deriv, n_v, m_c. unfold vec, mat, mask in *.
      rewrite app_length, map3_length, map2_length, !seq_length. lia. }
    unfold rhs, rhs_std.
    apply veq_of_nth.
    - rewrite mvec_length, LM. symmetry. apply (F_length P xh yh dt rho act x y WR).
    - intros j Hj. rewrite mvec_length, LM in Hj. rewrite mvec_nth.
      destruct (Nat.lt_ge_cases j n) as [Hjn|Hjn].
      + rewrite (std_row_x P dt rho act xd yd WB sx dyl LX LY j Hjn).
        unfold actf in *. destruct (nth j act false) eqn:EA.
        * specialize (Sa j EA). unfold vecf, Fxf in Sa.
          replace (Nat.ltb j n) with true in Sa by (symmetry; apply Nat.ltb_lt; exact Hjn). exact Sa.
        * specialize (Si j EA). unfold Fxf in Si.
          replace (Nat.ltb j n) with true in Si by (symmetry; apply Nat.ltb_lt; exact Hjn).
          rewrite <- Si. unfold vecf at 1 4.
          rewrite (Jtop_ext P xd _ _ dyl_is_post j). rewrite DT. reflexivity.
      + replace j with (n + (j - n))%nat by lia.
        assert (Hi : (j - n < m)%nat) by lia.
        rewrite (std_row_y P dt rho act xd yd WB sx dyl LX LY (j - n)%nat Hi).
        specialize (Sy (j - n)%nat). unfold Fyf in Sy.
        replace (Nat.ltb (j - n) m) with true in Sy by (symmetry; apply Nat.ltb_lt; exact Hi).
        rewrite <- Sy. rewrite <- (dyl_is_post (j - n)%nat). unfold vecf at 2. rewrite DT. reflexivity.
  Qed.
End ListTheorem.
