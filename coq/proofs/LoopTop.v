(* LoopTop.v — the loop invariants packaged for `solve` (from the initial state) and for the
   states in which a run ends. *)
From Verif Require Import Loop VecLemmas LoopProofs LoopProofs2 PenaltyProofs.
From Coq Require Import Lqa Lia.

Section LoopTop.
  Variable It : Type.
  Variable it_total : It -> Q.
  Variable it_linf : It -> bool.
  Variable it_obj : It -> Q.
  Variable it_feas : It -> bool.
  Variable it_pdata : It -> pdata.
  Variable step_norm : It -> It -> Q.

  Notation state := (st It).
  Notation check := (check It it_total it_linf it_obj it_feas).
  Notation body := (body It it_pdata step_norm).
  Notation run := (run It it_total it_linf it_obj it_feas it_pdata step_norm).
  Notation solve := (solve It it_total it_linf it_obj it_feas it_pdata step_norm).
  Notation oracle := (oracle It).
  Notation reach := (reach It it_total it_linf it_obj it_feas it_pdata step_norm).
  Notation same_alg := (same_alg It).

  (* where a run can end: in a state equal (up to the clock position) to a reachable top-of-loop
     state, or in the state body built when it raised the lambda error *)
  Inductive ends (c : cfg) (orc : oracle) (clk : clock) (s0 : state) : outcome It -> Prop :=
  | ends_done s stt fin : reach c orc clk s0 s -> check c clk s = (Some stt, fin) -> ends c orc clk s0 (Done It stt fin)
  | ends_stop s s1 o : reach c orc clk s0 s -> check c clk s = (None, s1) -> body c orc clk s1 = inr o ->
                       ends c orc clk s0 o.

  Lemma run_ends fuel c orc clk s0 o : run fuel c orc clk s0 = o -> o <> OutOfFuel It -> ends c orc clk s0 o.
  Proof.
    intros H Hf. destruct o as [stt fin|fin|w fin|].
    - destruct (run_done It it_total it_linf it_obj it_feas it_pdata step_norm fuel c orc clk s0 s0 stt fin
                         (reach_0 _ _ _ _ _ _ _ _ _ _ _) H) as (s' & R & EC).
      eapply ends_done; eauto.
    - destruct (run_stop It it_total it_linf it_obj it_feas it_pdata step_norm fuel c orc clk s0 s0 _
                         (reach_0 _ _ _ _ _ _ _ _ _ _ _) H) as (s' & s1 & R & EC & EB); try discriminate.
      eapply ends_stop; eauto.
    - destruct (run_stop It it_total it_linf it_obj it_feas it_pdata step_norm fuel c orc clk s0 s0 _
                         (reach_0 _ _ _ _ _ _ _ _ _ _ _) H) as (s' & s1 & R & EC & EB); try discriminate.
      eapply ends_stop; eauto.
    - congruence.
  Qed.

  Ltac sa SA := destruct SA as (Sc & Sl & Sr & Sp & Si & Sn & Sts & Sds & Sa & Str & Spa & Sti & Spd & Snc).

  (* ------------------------------------------------------------ the initial state *)
  Lemma init_count c clk x0 : I_count It (init_st It c clk x0).
  Proof. unfold I_count. cbn. auto. Qed.
  Lemma init_limit c clk x0 : I_limit It c (init_st It c clk x0).
  Proof. unfold I_limit. cbn. destruct (c_iter_limit c); [lia|exact I]. Qed.
  Lemma init_chain c clk x0 : I_chain It x0 (init_st It c clk x0).
  Proof. unfold I_chain. cbn. reflexivity. Qed.
  Lemma init_path c clk x0 : I_path It c x0 (init_st It c clk x0).
  Proof. unfold I_path, acc_dts, acc_next. cbn. split; [reflexivity|]. destruct (c_collect_path c); auto. Qed.
  Lemma init_lamb c clk x0 : I_lamb It c (init_st It c clk x0).
  Proof. unfold I_lamb, last_lamb. cbn. repeat split; auto. intros X; contradiction. Qed.
  Lemma init_rho c clk x0 : 0 < pp_rho (c_pparams c) -> I_rho It c (init_st It c clk x0).
  Proof.
    intros H. unfold I_rho. cbn. unfold p_initial_rho, p_init. cbn.
    repeat split; auto; try lra. intros u [].
  Qed.

  (* ------------------------------------------------------------ transfer across check *)
  Lemma count_same s s1 : same_alg s s1 -> I_count It s -> I_count It s1.
  Proof. intros SA [A [B C]]. sa SA. unfold I_count. rewrite Si, Sa, Str, Sn. auto. Qed.
  Lemma limit_same c s s1 : same_alg s s1 -> I_limit It c s -> I_limit It c s1.
  Proof. intros SA A. sa SA. unfold I_limit in *. rewrite Si. exact A. Qed.
  Lemma chain_same x0 s s1 : same_alg s s1 -> I_chain It x0 s -> I_chain It x0 s1.
  Proof. intros SA A. sa SA. unfold I_chain in *. rewrite Sa, Str, Sc. exact A. Qed.
  Lemma path_same c x0 s s1 : same_alg s s1 -> I_path It c x0 s -> I_path It c x0 s1.
  Proof. intros SA A. sa SA. unfold I_path, acc_dts, acc_next in *. rewrite Sa, Str, Spa, Sti. exact A. Qed.
  Lemma lamb_same c s s1 : same_alg s s1 -> I_lamb It c s -> I_lamb It c s1.
  Proof. intros SA A. sa SA. unfold I_lamb in *. rewrite Sl, Str. exact A. Qed.
  Lemma rho_same c s s1 : same_alg s s1 -> I_rho It c s -> I_rho It c s1.
  Proof. intros SA A. sa SA. unfold I_rho in *. rewrite Sr, Sp, Str. exact A. Qed.

  (* ------------------------------------------------------------ all invariants, at every state a
     solve can be in at the top of the loop and in every state it can return *)
  Definition Inv (c : cfg) (x0 : It) (s : state) : Prop :=
    I_count It s /\ I_limit It c s /\ I_chain It x0 s /\ I_path It c x0 s /\ I_lamb It c s
    /\ (0 < pp_rho (c_pparams c) -> I_rho It c s).

  Lemma inv_reach c orc clk x0 s : reach c orc clk (init_st It c clk x0) s -> Inv c x0 s.
  Proof.
    intros R. unfold Inv. split; [|split; [|split; [|split; [|split]]]].
    - eapply count_inv; [apply init_count|exact R].
    - eapply limit_inv; [apply init_limit|exact R].
    - eapply chain_inv; [apply init_chain|exact R].
    - eapply path_inv; [apply init_path|exact R].
    - eapply lamb_inv; [apply init_lamb|exact R].
    - intros Hp. eapply rho_inv; [exact policy_ok|exact Hp|apply init_rho; exact Hp|exact R].
  Qed.

  Lemma inv_same c x0 s s1 : same_alg s s1 -> Inv c x0 s -> Inv c x0 s1.
  Proof.
    intros SA (A & B & C & D & E & F). unfold Inv. split; [|split; [|split; [|split; [|split]]]].
    - eapply count_same; eauto.
    - eapply limit_same; eauto.
    - eapply chain_same; eauto.
    - eapply path_same; eauto.
    - eapply lamb_same; eauto.
    - intros Hp. eapply rho_same; eauto.
  Qed.

  Theorem solve_done_inv fuel c orc clk x0 stt fin :
    solve fuel c orc clk x0 = Done It stt fin -> Inv c x0 fin.
  Proof.
    intros H. unfold Loop.solve in H.
    destruct (run_done It it_total it_linf it_obj it_feas it_pdata step_norm fuel c orc clk _ _ stt fin
                       (reach_0 _ _ _ _ _ _ _ _ _ _ _) H) as (s' & R & EC).
    eapply inv_same; [eapply check_same; exact EC|]. apply inv_reach with (orc := orc) (clk := clk). exact R.
  Qed.

  (* ------------------------------------------------------------ C02: the status is justified *)
  Theorem status_justified fuel c orc clk x0 stt fin :
    solve fuel c orc clk x0 = Done It stt fin ->
    match stt with
    | IterationLimit => c_iter_limit c = Some (itn It fin)
    | TimeLimit => exists t tl, c_time_limit c = Some tl /\ (0 < cpos It fin)%nat /\ t = clk (cpos It fin - 1)%nat
                                /\ tl <= t - tstart It fin
    | Optimal => it_total (cur It fin) <= c_opt_tol c
    | LocallyInfeasible => it_linf (cur It fin) = true
    | Unbounded => it_obj (cur It fin) <= c_obj_lower c /\ it_feas (cur It fin) = true
    end
    /\ match c_iter_limit c with Some L => (itn It fin <= L)%nat | None => True end
    /\ (c_iter_limit c = Some (itn It fin) -> stt = IterationLimit).
  Proof.
    intros H. pose proof (solve_done_inv _ _ _ _ _ _ _ H) as (_ & HL & _).
    unfold Loop.solve in H.
    destruct (run_done It it_total it_linf it_obj it_feas it_pdata step_norm fuel c orc clk _ _ stt fin
                       (reach_0 _ _ _ _ _ _ _ _ _ _ _) H) as (s' & R & EC).
    pose proof (check_same It it_total it_linf it_obj it_feas _ _ _ _ _ EC) as SA. sa SA.
    pose proof (inv_reach _ _ _ _ _ R) as (_ & HL' & _). unfold I_limit in HL, HL'.
    split; [|split; [exact HL|]].
    - destruct (check_spec It it_total it_linf it_obj it_feas _ _ _ _ _ EC) as [(Hh & Ho & Hs)|(Hh & Hc & R1)].
      + inversion Ho; subst. destruct (c_iter_limit c) as [L|]; [|discriminate].
        apply Nat.leb_le in Hh. f_equal. lia.
      + destruct R1 as [(D & Ho)|(D & [(T & Ho)|(T & [(F & Ho)|(F & [(U & Ho)|(U & Ho)])])])];
          inversion Ho; subst.
        * unfold deadline_passed in D. destruct (c_time_limit c) as [tl|] eqn:ET; [|discriminate].
          exists (clk (cpos It s')), tl. rewrite Hc. cbn. rewrite Nat.sub_0_r, Sts.
          repeat split; auto; try lia. apply qle_iff in D. lra.
        * rewrite Sc. apply qle_iff. exact T.
        * rewrite Sc. exact F.
        * rewrite Sc. apply andb_true_iff in U. destruct U as [U1 U2]. split; [apply qle_iff; exact U1|exact U2].
    - intros E. destruct (check_spec It it_total it_linf it_obj it_feas _ _ _ _ _ EC) as [(Hh & Ho & Hs)|(Hh & _)].
      + inversion Ho. reflexivity.
      + exfalso. rewrite E in Hh. rewrite Si in Hh. rewrite Nat.leb_refl in Hh. discriminate.
  Qed.

  (* no solve performs more iterations than the limit, whichever way it ends *)
  Theorem never_beyond_limit fuel c orc clk x0 o L :
    solve fuel c orc clk x0 = o -> c_iter_limit c = Some L ->
    match o with
    | Done _ _ fin | LambdaError _ fin | Internal _ _ fin => (itn It fin <= L)%nat
    | OutOfFuel _ => True
    end.
  Proof.
    intros H HL. destruct o as [stt fin|fin|w fin|]; auto.
    - pose proof (solve_done_inv _ _ _ _ _ _ _ H) as (_ & B & _). unfold I_limit in B. rewrite HL in B. exact B.
    - unfold Loop.solve in H.
      destruct (run_stop It it_total it_linf it_obj it_feas it_pdata step_norm fuel c orc clk _ _ _
                         (reach_0 _ _ _ _ _ _ _ _ _ _ _) H) as (s' & s1 & R & EC & EB); try discriminate.
      pose proof (inv_reach _ _ _ _ _ R) as (_ & B & _). unfold I_limit in B. rewrite HL in B.
      pose proof (check_same It it_total it_linf it_obj it_feas _ _ _ _ _ EC) as SA. sa SA.
      destruct (body_stop It it_pdata step_norm _ _ _ _ _ EB) as [(f' & E & _ & _ & Hi & _)|(w & f' & nx & E & _ & Hi & _)];
        inversion E; subst; lia.
    - unfold Loop.solve in H.
      destruct (run_stop It it_total it_linf it_obj it_feas it_pdata step_norm fuel c orc clk _ _ _
                         (reach_0 _ _ _ _ _ _ _ _ _ _ _) H) as (s' & s1 & R & EC & EB); try discriminate.
      pose proof (inv_reach _ _ _ _ _ R) as (_ & B & _). unfold I_limit in B. rewrite HL in B.
      pose proof (check_same It it_total it_linf it_obj it_feas _ _ _ _ _ EC) as SA. sa SA.
      destruct (body_stop It it_pdata step_norm _ _ _ _ _ EB) as [(f' & E & _ & _ & Hi & _)|(w' & f' & nx & E & _ & Hi & _)];
        inversion E; subst; lia.
  Qed.

  (* ------------------------------------------------------------ C06/C07: how a solve can end *)
  (* no internal assertion of the penalty policies fires when what they read are norms *)
  Theorem solve_never_internal fuel c orc clk x0 w fin :
    0 < pp_rho (c_pparams c) ->
    (forall x, 0 <= d_ynorm (it_pdata x) /\ 0 <= d_yprod (it_pdata x) /\ 0 <= d_viol (it_pdata x)
               /\ (c_policy c = Pareto -> d_bound (it_pdata x) <> None)) ->
    solve fuel c orc clk x0 <> Internal It w fin.
  Proof.
    intros Hp Hd H. unfold Loop.solve in H.
    destruct (run_stop It it_total it_linf it_obj it_feas it_pdata step_norm fuel c orc clk _ _ _
                       (reach_0 _ _ _ _ _ _ _ _ _ _ _) H) as (s' & s1 & R & EC & EB); try discriminate.
    pose proof (inv_reach _ _ _ _ _ R) as (_ & _ & _ & _ & _ & B). specialize (B Hp).
    pose proof (check_same It it_total it_linf it_obj it_feas _ _ _ _ _ EC) as SA.
    pose proof (rho_same _ _ _ SA B) as (_ & B1 & B2 & _).
    destruct (body_stop It it_pdata step_norm _ _ _ _ _ EB) as [(f' & E & _)|(w' & f' & nx & E & _ & _ & EU)];
      [discriminate|].
    destruct (Hd nx) as (D1 & D2 & D3 & D4).
    eapply policy_no_assert; [| exact D1 | exact D2 | exact D3 | exact D4 | exact EU]. lra.
  Qed.

  (* ------------------------------------------------------------ C12: distance factor *)
  Variable dist : It -> It -> Q.
  Hypothesis dist_refl : forall a, dist a a == 0.
  Hypothesis dist_tri : forall a b c, dist a c <= dist a b + dist b c.
  Hypothesis dist_step : forall a b, dist a b <= step_norm a b.

  Definition I_dist (x0 : It) (s : state) : Prop := dist x0 (cur It s) <= pdist It s.

  Lemma dist_inv c orc clk x0 s0 : I_dist x0 s0 -> forall s, reach c orc clk s0 s -> I_dist x0 s.
  Proof.
    intros H0. apply reach_ind_inv; auto.
    - intros s s1 A SA _. sa SA. unfold I_dist in *. rewrite Sc, Spd. exact A.
    - intros s s' nx l acc fin d k a A _ BS. destruct BS. unfold I_dist in *. destruct fin.
      + destruct (bs_accept eq_refl) as (-> & _ & _ & _ & -> & _).
        pose proof (dist_tri x0 (cur It s) nx). pose proof (dist_step (cur It s) nx). lra.
      + destruct (bs_reject eq_refl) as (-> & _ & _ & _ & _ & -> & _). exact A.
  Qed.

  Theorem path_dist_ge_direct fuel c orc clk x0 stt fin :
    solve fuel c orc clk x0 = Done It stt fin -> dist x0 (cur It fin) <= pdist It fin.
  Proof.
    intros H. unfold Loop.solve in H.
    destruct (run_done It it_total it_linf it_obj it_feas it_pdata step_norm fuel c orc clk _ _ stt fin
                       (reach_0 _ _ _ _ _ _ _ _ _ _ _) H) as (s' & R & EC).
    pose proof (check_same It it_total it_linf it_obj it_feas _ _ _ _ _ EC) as SA. sa SA.
    rewrite Sc, Spd. eapply dist_inv; [|exact R]. unfold I_dist. cbn. rewrite dist_refl. lra.
  Qed.
  (* ------------------------------------------------------------ C05: a predicate every step result has *)
  (* if the start has property B and every iterate the step computation returns has it (StepResult clips:
     C05_compute_xn_in_box), then so have the current iterate and every announced `next`, in every state *)
  Variable B : It -> Prop.
  Definition I_box (s : state) : Prop :=
    B (cur It s) /\ Forall (fun a => B (fst (fst a)) /\ B (snd (fst a))) (announced It s).

  Lemma box_inv c (orc : oracle) clk s0 :
    (forall i x r d b nx l a k, orc i x r d b = Ans It nx l a k -> B nx) ->
    I_box s0 -> forall s, reach c orc clk s0 s -> I_box s.
  Proof.
    intros Horc H0 s R. induction R as [|s s1 s2 R IH EC EB]; [exact H0|].
    pose proof (check_same It it_total it_linf it_obj it_feas _ _ _ _ _ EC) as SA. sa SA.
    destruct (body_spec It it_pdata step_norm _ _ _ _ _ EB) as (nx & l & acc & k & fin & ER & BS).
    destruct IH as [Bc Ba]. rewrite <- Sc in Bc. rewrite <- Sa in Ba.
    assert (Bn : B nx).
    { destruct (resolve_cases It _ _ _ _ _ _ _ _ _ _ ER) as [(-> & _)|(n & E)]; [exact Bc|].
      eapply Horc. exact E. }
    destruct BS. unfold I_box. rewrite bs_ann. split.
    - destruct fin; [destruct (bs_accept eq_refl) as (-> & _)|destruct (bs_reject eq_refl) as (-> & _)]; assumption.
    - apply Forall_app. split; [exact Ba|]. constructor; [cbn; auto|constructor].
  Qed.

  Theorem solve_keeps_box fuel c (orc : oracle) clk x0 stt fin :
    (forall i x r d b nx l a k, orc i x r d b = Ans It nx l a k -> B nx) -> B x0 ->
    solve fuel c orc clk x0 = Done It stt fin -> I_box fin.
  Proof.
    intros Horc H0 H. unfold Loop.solve in H.
    destruct (run_done It it_total it_linf it_obj it_feas it_pdata step_norm fuel c orc clk _ _ stt fin
                       (reach_0 _ _ _ _ _ _ _ _ _ _ _) H) as (s' & R & EC).
    pose proof (check_same It it_total it_linf it_obj it_feas _ _ _ _ _ EC) as SA. sa SA.
    unfold I_box. rewrite Sc, Sa.
    eapply box_inv; [exact Horc| |exact R]. unfold I_box. cbn. split; [exact H0|constructor].
  Qed.
End LoopTop.
