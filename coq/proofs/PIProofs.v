(* PIProofs.v — the PI controller returns K_P * (current error) + K_I * (sum of the errors since the last reset). *)
From Verif Require Import PICtl VecLemmas.
From Coq Require Import Lqa Lia.

Fixpoint err_sum (ref : Q) (vals : list Q) : Q :=
  match vals with [] => 0 | v :: vs => (ref - v) + err_sum ref vs end.

(* after updates with the values vals (no reset in between), starting from accumulated error s *)
Fixpoint run_updates (c : pi_cfg) (s : Q) (vals : list Q) : Q * Q :=      (* (error_sum, last output) *)
  match vals with
  | [] => (s, 0)
  | v :: vs => let '(s', out) := pi_update c s v in
               match vs with [] => (s', out) | _ => run_updates c s' vs end
  end.

Lemma run_updates_sum c : forall vals s, fst (run_updates c s vals) == s + err_sum (pi_ref c) vals.
Proof.
  induction vals as [|v vs IH]; intros s; cbn; [ring|].
  destruct vs as [|w ws]; [cbn; ring|].
  rewrite IH. cbn [err_sum]. ring.
Qed.

Theorem pi_output c : forall vals s v,
  snd (run_updates c s (vals ++ [v]))
  == pi_KP c * (pi_ref c - v) + pi_KI c * (s + err_sum (pi_ref c) vals + (pi_ref c - v)).
Proof.
  induction vals as [|w ws IH]; intros s v; cbn [app run_updates pi_update].
  - cbn. ring.
  - destruct (ws ++ [v]) as [|a l] eqn:E; [destruct ws; discriminate|].
    rewrite <- E. rewrite IH. cbn [err_sum]. ring.
Qed.

(* with non-negative gains, a measured value below the reference on every step gives a positive output
   (the log-scale controller then returns exp(positive) > 1: the step size is increased) *)
Theorem pi_output_sign c vals v :
  0 <= pi_KP c -> 0 <= pi_KI c -> Forall (fun w => w <= pi_ref c) vals -> v <= pi_ref c ->
  0 <= snd (run_updates c 0 (vals ++ [v])).
Proof.
  intros HP HI Hv Hlast. rewrite pi_output.
  assert (HS : 0 <= err_sum (pi_ref c) vals).
  { induction Hv as [|w ws Hw _ IH]; cbn; [lra|]. lra. }
  assert (0 <= pi_ref c - v) by lra.
  assert (0 <= pi_KP c * (pi_ref c - v)) by (apply Qmult_le_0_compat; assumption).
  assert (0 <= pi_KI c * (0 + err_sum (pi_ref c) vals + (pi_ref c - v))) by (apply Qmult_le_0_compat; lra).
  lra.
Qed.
