(* CallbackProofs.v — invariants of the callback registry over arbitrary operation sequences (C12). *)
From Verif Require Import Callbacks.
From Coq Require Import Lia.

Definition cb_inv (s : cb_state) : Prop := NoDup (cb_handles s) /\ Forall (fun h => h < cb_next s) (cb_handles s).

Lemma remove_first_subset h l x : In x (remove_first h l) -> In x l.
Proof.
  induction l as [|y l IH]; cbn; [auto|]. destruct (Nat.eqb y h); [auto|]. intros [E|H]; auto.
Qed.
Lemma remove_first_nodup h l : NoDup l -> NoDup (remove_first h l).
Proof.
  induction 1 as [|y l Hy Hn IH]; cbn; [constructor|]. destruct (Nat.eqb y h); [exact Hn|].
  constructor; [|exact IH]. intros Hin. apply Hy. eapply remove_first_subset. exact Hin.
Qed.
Lemma remove_first_gone h l : NoDup l -> ~ In h (remove_first h l).
Proof.
  induction 1 as [|y l Hy Hn IH]; cbn; [auto|]. destruct (Nat.eqb y h) eqn:E.
  - apply Nat.eqb_eq in E. subst. exact Hy.
  - intros [E'|H]; [apply Nat.eqb_neq in E; auto|auto].
Qed.
Lemma remove_first_other h l x : x <> h -> In x l -> In x (remove_first h l).
Proof.
  intros Hx. induction l as [|y l IH]; cbn; [auto|]. destruct (Nat.eqb y h) eqn:E.
  - apply Nat.eqb_eq in E. subst. intros [E'|H]; [congruence|exact H].
  - intros [E'|H]; [left; exact E'|right; auto].
Qed.

Lemma nodup_snoc (l : list nat) x : NoDup l -> ~ In x l -> NoDup (l ++ [x]).
Proof.
  induction 1 as [|y l Hy Hn IH]; cbn; intros Hx.
  - constructor; [auto|constructor].
  - constructor.
    + rewrite in_app_iff. intros [H|[H|[]]]; [auto|subst; apply Hx; left; reflexivity].
    + apply IH. intros H. apply Hx. right. exact H.
Qed.

Lemma cb_step_inv s o : cb_inv s -> cb_inv (fst (cb_step s o)).
Proof.
  intros [Hn Hf]. destruct o as [|h|]; cbn.
  - split.
    + apply nodup_snoc; [exact Hn|]. intros H. rewrite Forall_forall in Hf. specialize (Hf _ H). cbn in Hf. lia.
    + apply Forall_app. split.
      * eapply Forall_impl; [|exact Hf]. cbn. intros; lia.
      * constructor; [cbn; lia|constructor].
  - destruct (existsb (Nat.eqb h) (cb_handles s)); cbn; [|split; assumption].
    split; [apply remove_first_nodup; exact Hn|].
    rewrite Forall_forall in *. intros x Hx. apply Hf. eapply remove_first_subset. exact Hx.
  - split; assumption.
Qed.

Lemma cb_init_inv : cb_inv cb_init.
Proof. split; constructor. Qed.

(* every reachable state *)
Theorem cb_run_inv ops : forall s, cb_inv s -> cb_inv (fst (cb_run s ops)).
Proof.
  induction ops as [|o ops IH]; intros s H; cbn; [exact H|].
  destruct (cb_step s o) as [s1 out] eqn:E. specialize (IH s1).
  destruct (cb_run s1 ops) as [s2 outs] eqn:E2. cbn in *. apply IH.
  pose proof (cb_step_inv s o H) as H1. rewrite E in H1. exact H1.
Qed.

(* a dispatch calls every handle that is registered at that moment, each exactly once *)
Theorem dispatch_calls_each_once s h : cb_inv s ->
  match snd (cb_step s CbDispatch) with
  | OCalled hs => (In h hs <-> In h (cb_handles s)) /\ (In h (cb_handles s) -> count_occ Nat.eq_dec hs h = 1)
  | _ => False
  end.
Proof.
  intros [Hn _]. cbn. split; [tauto|]. intros Hin. apply NoDup_count_occ'; assumption.
Qed.

(* a handle returned by register is called by every later dispatch until it is unregistered: registering and
   dispatching (in any number, in any order) never loses a handle; unregistering another handle does not either *)
Definition keeps (h : nat) (o : cb_op) : Prop := match o with CbUnregister h' => h' <> h | _ => True end.
Theorem registered_stays ops : forall s h, In h (cb_handles s) -> Forall (keeps h) ops ->
  In h (cb_handles (fst (cb_run s ops))).
Proof.
  induction ops as [|o ops IH]; intros s h Hin Hk; cbn; [exact Hin|].
  inversion Hk as [|? ? K1 K2]; subst.
  destruct (cb_step s o) as [s1 out] eqn:E.
  destruct (cb_run s1 ops) as [s2 outs] eqn:E2. cbn.
  specialize (IH s1 h). rewrite E2 in IH. cbn in IH. apply IH; [|exact K2].
  destruct o as [|h'|]; cbn in E; inversion E; subst; cbn.
  - rewrite in_app_iff. left. exact Hin.
  - destruct (existsb (Nat.eqb h') (cb_handles s)); inversion H0; subst; cbn; [|exact Hin].
    apply remove_first_other; [intros ->; apply K1; reflexivity|exact Hin].
  - exact Hin.
Qed.
Theorem register_then_called s ops : cb_inv s ->
  let '(s1, out) := cb_step s CbRegister in
  match out with
  | OHandle h => Forall (keeps h) ops -> In h (cb_handles (fst (cb_run s1 ops)))
  | _ => False
  end.
Proof.
  intros _. cbn. intros Hk. apply registered_stays; [|exact Hk]. cbn. rewrite in_app_iff. right. left. reflexivity.
Qed.

(* an unregistered handle is not called any more (until the end: ids are never reused) *)
Theorem unregistered_is_gone s h : cb_inv s -> In h (cb_handles s) ->
  ~ In h (cb_handles (fst (cb_step s (CbUnregister h)))).
Proof.
  intros [Hn _] Hin. cbn.
  assert (E : existsb (Nat.eqb h) (cb_handles s) = true).
  { apply existsb_exists. exists h. split; [exact Hin|apply Nat.eqb_refl]. }
  rewrite E. cbn. apply remove_first_gone. exact Hn.
Qed.
