(* TauProofs.v — compute_tau never takes np.min of an empty selection, its internal assertion min_tau >= 0 holds, and
   what the two rules return (C06; cf. Effects.numeric_asserts). *)
From Verif Require Import ActiveTau VecLemmas.
From Coq Require Import Lqa Lia.

Lemma filter_nonempty {A} (f : A -> bool) l : forallb (fun a => negb (f a)) l = false -> filter f l <> [].
Proof.
  induction l as [|a l IH]; cbn; [discriminate|]. destruct (f a); cbn; [discriminate|exact IH].
Qed.

(* the minimum over a list of positive extended numbers is positive *)
Lemma fold_min_pos ts : forall t, ext_pos t = true -> forallb ext_pos ts = true -> ext_pos (fold_left ext_min ts t) = true.
Proof.
  induction ts as [|a ts IH]; intros t Ht Hts; cbn in *; [exact Ht|].
  apply andb_prop in Hts as [Ha Hts]. apply IH; [|exact Hts].
  destruct t as [p|], a as [q|]; cbn in *; auto. unfold qmin. destruct (qle p q); assumption.
Qed.
Lemma filter_all {A} (f : A -> bool) l : forallb f (filter f l) = true.
Proof. induction l as [|a l IH]; cbn; [reflexivity|]. destruct (f a) eqn:E; cbn; [rewrite E; exact IH|exact IH]. Qed.

(* SmallestActiveSet: never the crash; the value is 1 or half a POSITIVE minimum (so `assert min_tau >= 0` holds and
   the returned tau is positive) *)
Theorem smallest_no_crash x g lb ub : compute_tau ASSmallest x g lb ub <> TauCrash.
Proof.
  unfold compute_tau. destruct (forallb ext_nonpos (tau_vals x g lb ub)) eqn:E; [discriminate|].
  pose proof (filter_nonempty ext_pos _ E) as NE.
  destruct (filter ext_pos (tau_vals x g lb ub)); [congruence|discriminate].
Qed.
Theorem smallest_positive x g lb ub t : compute_tau ASSmallest x g lb ub = TauVal t -> ext_pos t = true.
Proof.
  unfold compute_tau. destruct (forallb ext_nonpos (tau_vals x g lb ub)) eqn:E.
  - intros H. inversion H; subst. reflexivity.
  - pose proof (filter_all ext_pos (tau_vals x g lb ub)) as FA.
    destruct (filter ext_pos (tau_vals x g lb ub)) as [|t0 ts]; [discriminate|].
    intros H. inversion H; subst. cbn in FA. apply andb_prop in FA as [H0 Hts].
    pose proof (fold_min_pos ts t0 H0 Hts) as P.
    destruct (fold_left ext_min ts t0) as [p|]; cbn in *; [|reflexivity].
    apply qlt_iff in P. apply qlt_iff. lra.
Qed.
(* the assertion in the code: min_tau >= 0 for the minimum that is taken *)
Theorem smallest_min_tau_nonneg x g lb ub t0 ts :
  filter ext_pos (tau_vals x g lb ub) = t0 :: ts ->
  match fold_left ext_min ts t0 with Fin p => 0 <= p | PInf => True end.
Proof.
  intros E. pose proof (filter_all ext_pos (tau_vals x g lb ub)) as FA. rewrite E in FA. cbn in FA.
  apply andb_prop in FA as [H0 Hts]. pose proof (fold_min_pos ts t0 H0 Hts) as P.
  destruct (fold_left ext_min ts t0) as [p|]; [|exact I]. cbn in P. apply qlt_iff in P. lra.
Qed.

(* LargestActiveSet: at least one, and the crash only for a problem without variables *)
Lemma ext_max_ge1 a : match ext_max a (Fin 1) with Fin p => 1 <= p | PInf => True end.
Proof. destruct a as [p|]; cbn; [|exact I]. unfold qmax. destruct (qle p 1) eqn:E; [lra|]. apply qle_false in E. lra. Qed.
Theorem largest_ge_one x g lb ub t : compute_tau ASLargest x g lb ub = TauVal t ->
  match t with Fin p => 1 <= p | PInf => True end.
Proof.
  unfold compute_tau. destruct (tau_vals x g lb ub) as [|t0 ts]; [discriminate|].
  intros H. inversion H; subst. apply ext_max_ge1.
Qed.
Theorem largest_crash_only_without_variables x g lb ub :
  compute_tau ASLargest x g lb ub = TauCrash -> tau_vals x g lb ub = [].
Proof. unfold compute_tau. destruct (tau_vals x g lb ub); [reflexivity|discriminate]. Qed.
