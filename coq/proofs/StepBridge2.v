(* StepBridge2.v — C14 at the level of the lists the code builds, for the EXTENDED and SYMMETRIC step solvers:
   a vector that solves the system either of them assembles, post-processed as the code does, solves the
   system the ASYMMETRIC solver assembles for the same data and yields the same (dx, dy); StepBridge.v then
   carries it to the STANDARD system.  Together: all four step solvers compute the Newton step of the
   standard system, proved on the assembled rows themselves. *)
From Verif Require Import StepSolvers StepAlgebra VecLemmas ImplicitProofs KKTProofs StepBridge.
From Coq Require Import Lqa Lia.

(* ------------------------------------------------------------------ masks, select and scatter *)
Lemma select_map {A B} (f : A -> B) (mk : mask) (l : list A) : select mk (map f l) = map f (select mk l).
Proof.
  revert l. induction mk as [|b mk IH]; intros [|a l]; cbn; try reflexivity; destruct b; cbn; rewrite ?IH; reflexivity.
Qed.

Lemma select_vsub (mk : mask) (a b : vec) : length a = length b ->
  select mk (vsub a b) = vsub (select mk a) (select mk b).
Proof.
  revert a b. induction mk as [|c mk IH]; intros [|p a] [|q b] HL; cbn in *; try discriminate; try reflexivity.
  - destruct c; reflexivity.
  - destruct c; cbn; unfold vsub in *; cbn; rewrite IH by lia; reflexivity.
Qed.

(* equations indexed by the selected positions, read off position by position *)
Lemma select_map_seq (mk : mask) (g : nat -> Q) (v : vec) k : length v = length mk ->
  veq (map g (select mk (seq k (length mk)))) (select mk v) ->
  forall j, (j < length mk)%nat -> nth j mk false = true -> g (k + j)%nat == nth j v 0.
Proof.
  revert v k. induction mk as [|b mk IH]; intros [|a v] k HL HV j Hj Hb; cbn in *; try discriminate; try lia.
  destruct b.
  - cbn in HV. inversion HV as [|? ? ? ? E1 E2]; subst.
    destruct j as [|j].
    + replace (k + 0)%nat with k by lia. exact E1.
    + replace (k + S j)%nat with (S k + j)%nat by lia. apply IH; try assumption; lia.
  - destruct j as [|j]; [discriminate|].
    replace (k + S j)%nat with (S k + j)%nat by lia. apply IH; try assumption; lia.
Qed.

Lemma mnot_length (mk : mask) : length (mnot mk) = length mk.
Proof. unfold mnot. apply map_length. Qed.
Lemma mnot_nth (mk : mask) j : (j < length mk)%nat -> nth j (mnot mk) false = negb (nth j mk false).
Proof. revert j. induction mk as [|b mk IH]; intros [|j] Hj; cbn in *; try lia; [reflexivity|apply IH; lia]. Qed.

Lemma count_split (mk : mask) :
  (length (filter (fun b => b) mk) + length (filter (fun b => b) (mnot mk)) = length mk)%nat.
Proof. unfold mnot. induction mk as [|b mk IH]; cbn; [reflexivity|]. destruct b; cbn; lia. Qed.

(* on an active position the scattered vector does not depend on the inactive part *)
Lemma scatter_active (act : mask) (a i i' : vec) j : nth j act false = true ->
  nth j (scatter act a i) 0 = nth j (scatter act a i') 0.
Proof.
  revert a i i' j. induction act as [|b act IH]; intros a i i' [|j] Hb; cbn in *; try discriminate.
  - destruct b; [reflexivity|discriminate].
  - destruct b; cbn; apply IH; exact Hb.
Qed.

(* a row times a scattered vector splits into its active and inactive columns *)
Lemma dot_scatter (act : mask) (h a i : vec) : length h = length act ->
  length a = length (filter (fun b => b) act) -> length i = length (filter (fun b => b) (mnot act)) ->
  dot h (scatter act a i) == dot (select act h) a + dot (select (mnot act) h) i.
Proof.
  revert h a i. induction act as [|b act IH]; intros [|p h] a i Hh Ha Hi; cbn in *; try discriminate.
  - destruct a; destruct i; cbn in *; try discriminate. ring.
  - destruct b; cbn in *; fold (mnot act) in *.
    + destruct a as [|q a]; cbn in *; [discriminate|]. rewrite IH by lia. ring.
    + destruct i as [|q i]; cbn in *; [discriminate|]. rewrite IH by lia. ring.
Qed.

Lemma nth_map_lt {A B} (f : A -> B) (l : list A) j da db : (j < length l)%nat -> nth j (map f l) db = f (nth j l da).
Proof. revert j. induction l as [|a l IH]; intros [|j] Hj; cbn in *; try lia; [reflexivity|apply IH; lia]. Qed.

Lemma mvec_app (A B : mat) v : mvec (A ++ B) v = mvec A v ++ mvec B v.
Proof. unfold mvec. apply map_app. Qed.

Lemma dot_unit_row_pad n k j s v : (j < n)%nat -> (n <= length v)%nat ->
  dot (unit_row n j s ++ vzero k) v == s * nth j v 0.
Proof.
  intros Hj Hv. rewrite <- (firstn_skipn n v) at 1.
  rewrite dot_app by (unfold unit_row; rewrite map_length, seq_length, firstn_length; lia).
  rewrite dot_unit_row by exact Hj. rewrite dot_vzero_l.
  rewrite <- (firstn_skipn n v) at 2. rewrite app_nth1 by (rewrite firstn_length; lia). ring.
Qed.

Ltac lens := unfold vec, mat, mask in *;
  repeat (progress rewrite ?map3_length, ?map2_length, ?map_length, ?seq_length, ?vadd_length, ?app_length, ?vzero_length,
          ?vscale_length, ?firstn_length, ?skipn_length, ?scatter_length, ?mvec_length, ?mnot_length); try lia.

(* ------------------------------------------------------------------ Extended  =>  Asymmetric *)
Section ExtendedList.
  Variable P : problem.
  Variables xh yh : vec.
  Variable dt rho : Q.
  Variable act : mask.
  Variables xd yd : vec.
  Variables x y : vec.
  Notation n := (nvars P).
  Notation m := (ncons P).
  Notation J := (jac_d P xd).
  Hypothesis WB : wfb P rho act xd yd.
  Hypothesis WR : wfr P xh yh rho act x y.
  Notation Fs := (s_value_at P xh yh dt rho x y act).
  Notation r := (firstn n Fs).
  Notation HL := (hess_lam P dt rho xd yd).

  Lemma HL_length : length HL = n.
  Proof. pose proof WB as [Wa WJ WJr WH WHr]. unfold hess_lam, nn. lens. Qed.
  Lemma HL_row j : (j < n)%nat -> length (nth j HL []) = n.
  Proof.
    intros Hj. pose proof WB as [Wa WJ WJr WH WHr]. unfold hess_lam, nn.
    rewrite (map2_seq_nth (B:=vec) (D:=vec) _ n _ j []) by lia.
    rewrite vadd_length. unfold unit_row. rewrite map_length, seq_length.
    rewrite Forall_forall in WHr. rewrite (WHr (nth j (hess_sc P rho xd yd) [])) by (apply nth_In; lia). lia.
  Qed.
  Lemma J_row i : (i < m)%nat -> length (nth i J []) = n.
  Proof.
    intros Hi. pose proof WB as [Wa WJ WJr WH WHr]. rewrite Forall_forall in WJr. apply WJr. apply nth_In. lia.
  Qed.
  Lemma r_length : length r = n.
  Proof. pose proof (Fs_length P xh yh dt rho act x y WR). rewrite firstn_length. lia. Qed.
  Lemma r_nth j : (j < n)%nat -> nth j r 0 = nth j Fs 0.
  Proof.
    intros Hj. pose proof r_length. rewrite <- (firstn_skipn n Fs) at 2. rewrite app_nth1 by lia. reflexivity.
  Qed.

  Lemma asym_matrix_x j : (j < n)%nat ->
    nth j (matrix P dt rho KAsymmetric act xd yd) []
    = if nth j act false then unit_row (n + m) j 1 else nth j HL [] ++ col j J.
  Proof.
    intros Hj. pose proof WB as [Wa WJ WJr WH WHr]. pose proof HL_length as LH.
    unfold matrix, nn, mm. rewrite app_nth1 by lens.
    rewrite (map3_seq_nth (B:=bool) (C:=vec) (D:=vec) _ n act HL j false [] []) by lia. reflexivity.
  Qed.
  Lemma asym_matrix_y i : (i < m)%nat ->
    nth (n + i) (matrix P dt rho KAsymmetric act xd yd) [] = nth i J [] ++ unit_row m i (lower dt rho).
  Proof.
    intros Hi. pose proof WB as [Wa WJ WJr WH WHr]. pose proof HL_length as LH.
    unfold matrix, nn, mm. rewrite app_nth2 by lens.
    match goal with |- context[(n + i - ?L)%nat] => replace (n + i - L)%nat with i by lens end.
    rewrite (map2_seq_nth (B:=vec) (D:=vec) _ m J i []) by lia. reflexivity.
  Qed.
  Lemma asym_matrix_length : length (matrix P dt rho KAsymmetric act xd yd) = (n + m)%nat.
  Proof. pose proof WB as [Wa WJ WJr WH WHr]. pose proof HL_length as LH. unfold matrix, nn, mm. lens. Qed.
  Lemma asym_rhs_length : length (rhs P xh yh dt rho KAsymmetric act xd yd x y) = (n + m)%nat.
  Proof.
    pose proof WR as [A B C D E G H I K]. pose proof (Fs_length P xh yh dt rho act x y WR) as LF.
    unfold rhs, b2t, b2, r_sc, nn. lens.
  Qed.
  Lemma asym_rhs_x' j : (j < n)%nat ->
    nth j (rhs P xh yh dt rho KAsymmetric act xd yd x y) 0 == if nth j act false then dt * nth j Fs 0 else nth j Fs 0.
  Proof. intros Hj. apply (asym_rhs_x P xh yh dt rho act xd yd x y WR (vzero (n + m)) (vzero_length _) j Hj). Qed.
  Lemma asym_rhs_y' i : (i < m)%nat ->
    nth (n + i) (rhs P xh yh dt rho KAsymmetric act xd yd x y) 0 = nth i (b2t P xh yh dt rho act x y) 0.
  Proof.
    intros Hi. pose proof WR as [A B C D E G H I K]. unfold rhs. rewrite app_nth2 by lens.
    rewrite scatter_length. replace (n + i - length act)%nat with i by lia. reflexivity.
  Qed.

  Variable sol : vec.
  Hypothesis Lsol : length sol = (n + m)%nat.
  Hypothesis Hsol : veq (mvec (matrix P dt rho KExtended act xd yd) sol) (rhs P xh yh dt rho KExtended act xd yd x y).

  Theorem extended_solves_asymmetric_lists :
    veq (mvec (matrix P dt rho KAsymmetric act xd yd) sol) (rhs P xh yh dt rho KAsymmetric act xd yd x y).
  Proof.
    pose proof WB as [Wa WJ WJr WH WHr]. pose proof WR as [A B C D E G H I K].
    pose proof (Fs_length P xh yh dt rho act x y WR) as LF. pose proof r_length as Lr. pose proof HL_length as LH.
    unfold matrix, rhs, nn, mm in Hsol. rewrite !mvec_app in Hsol.
    apply veq_app_inv in Hsol as [E0 E12].
    2:{ unfold b0, r_sc, nn, inact. rewrite mvec_length, map_length, vscale_length.
        rewrite !select_length by (rewrite ?seq_length; lia). reflexivity. }
    apply veq_app_inv in E12 as [E1 E2].
    2:{ unfold b1, r_sc, nn, inact. rewrite mvec_length, map_length.
        rewrite !select_length by (rewrite ?seq_length, ?mnot_length; lia). reflexivity. }
    (* read the two selected blocks position by position *)
    assert (P0 : forall j, (j < n)%nat -> nth j act false = true ->
                 dot (unit_row n j 1 ++ vzero m) sol == dt * nth j Fs 0).
    { intros j Hj Ha. unfold b0, r_sc, nn in E0. rewrite <- select_vscale in E0.
      unfold mvec in E0. rewrite map_map in E0. rewrite <- Wa in E0 at 1.
      pose proof (select_map_seq act (fun j => dot (unit_row n j 1 ++ vzero m) sol) (vscale dt r) 0
                    ltac:(rewrite vscale_length; lia) E0 j ltac:(lia) Ha) as Q0.
      cbn [Nat.add] in Q0. rewrite Q0, vscale_nth, r_nth by exact Hj. reflexivity. }
    assert (P1 : forall j, (j < n)%nat -> nth j act false = false ->
                 dot (nth j HL [] ++ col j J) sol == nth j Fs 0).
    { intros j Hj Ha. unfold b1, r_sc, nn, inact in E1.
      unfold mvec in E1. rewrite map_map in E1. rewrite <- (mnot_length act) in Wa. rewrite <- Wa in E1 at 1.
      pose proof (select_map_seq (mnot act) (fun j => dot (nth j HL [] ++ col j J) sol) r 0
                    ltac:(lia) E1 j ltac:(lia)) as Q1.
      rewrite mnot_nth in Q1 by (rewrite mnot_length in Wa; lia). rewrite Ha in Q1. specialize (Q1 eq_refl).
      cbn [Nat.add] in Q1. rewrite Q1, r_nth by exact Hj. reflexivity. }
    apply veq_of_nth.
    - rewrite mvec_length, asym_matrix_length, asym_rhs_length. reflexivity.
    - intros j Hj. rewrite mvec_length, asym_matrix_length in Hj. rewrite mvec_nth.
      destruct (Nat.lt_ge_cases j n) as [Hjn|Hjn].
      + rewrite (asym_matrix_x j Hjn), (asym_rhs_x' j Hjn).
        destruct (nth j act false) eqn:EA.
        * rewrite dot_unit_row by lia. rewrite <- (P0 j Hjn EA). rewrite dot_unit_row_pad by lia. reflexivity.
        * apply (P1 j Hjn EA).
      + replace j with (n + (j - n))%nat by lia.
        assert (Hi : (j - n < m)%nat) by lia.
        rewrite (asym_matrix_y _ Hi), (asym_rhs_y' _ Hi).
        pose proof (veq_nth _ _ (j - n)%nat E2) as Q2. rewrite mvec_nth in Q2.
        rewrite (map2_seq_nth (B:=vec) (D:=vec) _ m J (j - n)%nat []) in Q2 by lia. exact Q2.
  Qed.

  (* the code's post-processing is literally the same for the two solvers *)
  Lemma extended_post_same :
    post P xh yh dt rho KExtended act x y sol = post P xh yh dt rho KAsymmetric act x y sol.
  Proof. reflexivity. Qed.
End ExtendedList.

(* ------------------------------------------------------------------ Symmetric  =>  Asymmetric *)
Section SymmetricList.
  Variable P : problem.
  Variables xh yh : vec.
  Variable dt rho : Q.
  Variable act : mask.
  Variables xd yd : vec.
  Variables x y : vec.
  Notation n := (nvars P).
  Notation m := (ncons P).
  Notation J := (jac_d P xd).
  Hypothesis WB : wfb P rho act xd yd.
  Hypothesis WR : wfr P xh yh rho act x y.
  Notation Fs := (s_value_at P xh yh dt rho x y act).
  Notation r := (firstn n Fs).
  Notation HL := (hess_lam P dt rho xd yd).
  Notation ina := (mnot act).
  Notation na := (length (filter (fun b : bool => b) act)).
  Notation ni := (length (filter (fun b : bool => b) ina)).
  Notation B0 := (b0 P xh yh dt rho act x y).
  Notation B2t := (b2t P xh yh dt rho act x y).

  Variable sol : vec.                       (* the reduced system's solution: inactive x-part, then the y-part *)
  Hypothesis Lsol : length sol = (ni + m)%nat.
  Hypothesis Hsol : veq (mvec (matrix P dt rho KSymmetric act xd yd) sol) (rhs P xh yh dt rho KSymmetric act xd yd x y).

  Notation sI := (firstn ni sol).
  Notation sy := (skipn ni sol).
  (* the full-length vector the code reassembles: active entries from b0, inactive ones from the solution *)
  Definition sym_full : vec := scatter act B0 sI ++ sy.

  Lemma B0_length : length B0 = na.
  Proof.
    pose proof WR as [A B C D E G H I K]. pose proof (r_length P xh yh dt rho act x y WR) as Lr.
    unfold b0, r_sc, nn. rewrite vscale_length. apply select_length. lia.
  Qed.
  Lemma sI_length : length sI = ni.
  Proof. rewrite firstn_length. lia. Qed.
  Lemma sy_length : length sy = m.
  Proof. rewrite skipn_length. lia. Qed.
  Lemma sym_full_length : length sym_full = (n + m)%nat.
  Proof. pose proof WR as [A B C D E G H I K]. unfold sym_full. rewrite app_length, scatter_length, sy_length. lia. Qed.

  Theorem symmetric_solves_asymmetric_lists :
    veq (mvec (matrix P dt rho KAsymmetric act xd yd) sym_full) (rhs P xh yh dt rho KAsymmetric act xd yd x y).
  Proof.
    pose proof WB as [Wa WJ WJr WH WHr]. pose proof WR as [A B C D E G H I K].
    pose proof (Fs_length P xh yh dt rho act x y WR) as LF. pose proof (r_length P xh yh dt rho act x y WR) as Lr.
    pose proof (HL_length P dt rho act xd yd WB) as LH.
    pose proof B0_length as LB0. pose proof sI_length as LsI. pose proof sy_length as Lsy.
    pose proof (count_split act) as CS.
    assert (Lina : length ina = n) by (rewrite mnot_length; exact Wa).
    assert (Lsc : length (scatter act B0 sI) = n) by (rewrite scatter_length; exact Wa).
    unfold matrix, rhs, nn, mm, inact in Hsol. rewrite mvec_app in Hsol.
    set (GG := fun j : nat => dot (select act (nth j HL [])) B0) in *.
    apply veq_app_inv in Hsol as [E1 E2].
    2:{ unfold b1, r_sc, nn, inact. rewrite mvec_length, map_length, vsub_length, map_length.
        rewrite !select_length by (rewrite ?seq_length, ?mnot_length; lia). lia. }
    (* inactive rows of the reduced system, position by position *)
    assert (P1 : forall j, (j < n)%nat -> nth j act false = false ->
                 dot (select ina (nth j HL [])) sI + dot (col j J) sy == nth j Fs 0 - GG j).
    { intros j Hj Ha. unfold b1, r_sc, nn, inact in E1.
      unfold mvec in E1. rewrite map_map in E1.
      rewrite <- (select_map GG ina (seq 0 n)) in E1.
      rewrite <- select_vsub in E1 by (rewrite map_length, seq_length; lia).
      rewrite <- Lina in E1 at 1.
      pose proof (select_map_seq ina (fun j => dot (select ina (nth j HL []) ++ col j J) sol)
                    (vsub r (map GG (seq 0 n))) 0
                    ltac:(rewrite vsub_length, map_length, seq_length; lia) E1 j ltac:(lia)) as Q1.
      rewrite mnot_nth in Q1 by lia. rewrite Ha in Q1. specialize (Q1 eq_refl). cbn [Nat.add] in Q1.
      rewrite vsub_nth in Q1 by (rewrite ?map_length, ?seq_length; lia).
      rewrite (nth_map_lt GG (seq 0 n) j 0%nat 0) in Q1 by (rewrite seq_length; lia).
      rewrite seq_nth in Q1 by lia. cbn [Nat.add] in Q1.
      rewrite (r_nth P xh yh dt rho act x y WR j Hj) in Q1. rewrite <- Q1.
      rewrite <- (firstn_skipn ni sol) at 3.
      rewrite dot_app; [reflexivity|].
      rewrite select_length by (rewrite (HL_row P dt rho act xd yd WB j Hj); lia). lia. }
    (* constraint rows of the reduced system *)
    assert (P2 : forall i, (i < m)%nat ->
                 dot (select ina (nth i J [])) sI + lower dt rho * nth i sy 0
                 == nth i B2t 0 - dot (select act (nth i J [])) B0).
    { intros i Hi. pose proof (veq_nth _ _ i E2) as Q2. rewrite mvec_nth in Q2.
      rewrite (map2_seq_nth (B:=vec) (D:=vec) _ m J i []) in Q2 by lia.
      assert (Lb2 : length B2t = m) by (unfold b2t, b2, r_sc, nn; rewrite vscale_length, skipn_length; lia).
      rewrite vsub_nth in Q2 by (rewrite ?map_length; unfold vec, mat in *; lia).
      rewrite (nth_map_lt (fun jrow : list Q => dot (select act jrow) B0) J i [] 0) in Q2 by (unfold vec, mat in *; lia).
      rewrite <- Q2. rewrite <- (firstn_skipn ni sol) at 3.
      rewrite dot_app.
      - rewrite dot_unit_row by exact Hi. reflexivity.
      - rewrite select_length by (rewrite (J_row P rho act xd yd WB i Hi); lia). lia. }
    apply veq_of_nth.
    - rewrite mvec_length, (asym_matrix_length P dt rho act xd yd WB), (asym_rhs_length P xh yh dt rho act xd yd x y WR). reflexivity.
    - intros j Hj. rewrite mvec_length, (asym_matrix_length P dt rho act xd yd WB) in Hj. rewrite mvec_nth.
      destruct (Nat.lt_ge_cases j n) as [Hjn|Hjn].
      + rewrite (asym_matrix_x P dt rho act xd yd WB j Hjn).
        destruct (nth j act false) eqn:EA.
        * rewrite dot_unit_row by lia. unfold sym_full, rhs. rewrite !app_nth1 by (rewrite scatter_length; lia).
          rewrite (scatter_active act B0 sI (b1 P xh yh dt rho act x y) j EA). ring.
        * rewrite (asym_rhs_x' P xh yh dt rho act xd yd x y WR j Hjn), EA.
          unfold sym_full. rewrite dot_app by (rewrite (HL_row P dt rho act xd yd WB j Hjn); lia).
          rewrite dot_scatter by (rewrite ?(HL_row P dt rho act xd yd WB j Hjn); lia).
          specialize (P1 j Hjn EA). unfold GG in P1.
          rewrite <- Qplus_assoc, P1. ring.
      + replace j with (n + (j - n))%nat by lia.
        assert (Hi : (j - n < m)%nat) by lia.
        rewrite (asym_matrix_y P dt rho act xd yd WB _ Hi), (asym_rhs_y' P xh yh dt rho act xd yd x y WR _ Hi).
        unfold sym_full. rewrite dot_app by (rewrite (J_row P rho act xd yd WB _ Hi); lia).
        rewrite dot_scatter by (rewrite ?(J_row P rho act xd yd WB _ Hi); lia).
        rewrite dot_unit_row by exact Hi.
        specialize (P2 _ Hi). rewrite <- Qplus_assoc, P2. ring.
  Qed.

  (* and the code's post-processing of the reduced solution is the asymmetric post-processing of the full vector *)
  Lemma symmetric_post_same :
    post P xh yh dt rho KSymmetric act x y sol = post P xh yh dt rho KAsymmetric act x y sym_full.
  Proof.
    pose proof WR as [A B C D E G H I K].
    assert (Lsc : length (scatter act B0 sI) = n) by (rewrite scatter_length; exact G).
    unfold post, sym_full, inact, nn.
    rewrite <- Lsc at 1 2.
    rewrite firstn_app, Nat.sub_diag, firstn_O, app_nil_r, firstn_all.
    rewrite skipn_app, Nat.sub_diag, skipn_all. cbn [skipn app]. reflexivity.
  Qed.
End SymmetricList.

(* ------------------------------------------------------------------ all four step solvers *)
Section AllKinds.
  Variable P : problem.
  Variables xh yh : vec.
  Variable dt rho : Q.
  Hypothesis dt_pos : 0 < dt.
  Hypothesis rho_pos : 0 < rho.
  Variable act : mask.
  Variables xd yd : vec.
  Variables x y : vec.
  Notation n := (nvars P).
  Notation m := (ncons P).
  Hypothesis WB : wfb P rho act xd yd.
  Hypothesis WR : wfr P xh yh rho act x y.

  (* size of the system each solver hands to the linear solver *)
  Definition sys_len (k : solver_kind) : nat :=
    match k with
    | KSymmetric => (length (filter (fun b : bool => b) (mnot act)) + m)%nat
    | _ => (n + m)%nat
    end.
  (* the step (dx ++ dy) the code forms from the linear solver's answer *)
  Definition post_vec (k : solver_kind) (sol : vec) : vec :=
    let '(dx, dy) := post P xh yh dt rho k act x y sol in dx ++ dy.

  Theorem every_kind_solves_standard_lists (k : solver_kind) (sol : vec) :
    length sol = sys_len k ->
    veq (mvec (matrix P dt rho k act xd yd) sol) (rhs P xh yh dt rho k act xd yd x y) ->
    veq (mvec (matrix P dt rho KStandard act xd yd) (post_vec k sol)) (rhs P xh yh dt rho KStandard act xd yd x y).
  Proof.
    intros L Hs. destruct k; unfold sys_len in L.
    - unfold post_vec, post. unfold nn. rewrite firstn_skipn. exact Hs.
    - unfold post_vec. rewrite extended_post_same. unfold post.
      apply (asymmetric_solves_standard_lists P xh yh dt rho dt_pos rho_pos act xd yd x y WB WR sol L).
      apply (extended_solves_asymmetric_lists P xh yh dt rho act xd yd x y WB WR sol L Hs).
    - unfold post_vec. rewrite (symmetric_post_same P xh yh dt rho act x y WR sol). unfold post.
      apply (asymmetric_solves_standard_lists P xh yh dt rho dt_pos rho_pos act xd yd x y WB WR _
               (sym_full_length P xh yh dt rho act x y WR sol L)).
      apply (symmetric_solves_asymmetric_lists P xh yh dt rho act xd yd x y WB WR sol L Hs).
    - unfold post_vec, post.
      apply (asymmetric_solves_standard_lists P xh yh dt rho dt_pos rho_pos act xd yd x y WB WR sol L Hs).
  Qed.

  Lemma post_vec_length (k : solver_kind) (sol : vec) : length sol = sys_len k -> length (post_vec k sol) = (n + m)%nat.
  Proof.
    intros L. pose proof WR as [A B C D E G H I K]. pose proof (Fs_length P xh yh dt rho act x y WR) as LF.
    pose proof (count_split act) as CS.
    destruct k; unfold sys_len in L; unfold post_vec, post, b2, r_sc, nn, inact.
    - rewrite firstn_skipn. exact L.
    - lens. unfold vsub. lens.
    - lens. unfold vsub. lens.
    - lens. unfold vsub. lens.
  Qed.

  (* Hence: where the standard Newton matrix determines its solution (it is injective on vectors of the right
     length — the case in which "the Newton step" exists at all), any two step solvers, each given any exact
     solution of its own system, produce the same step. *)
  Definition injective_on (M : mat) (k : nat) : Prop :=
    forall v w, length v = k -> length w = k -> veq (mvec M v) (mvec M w) -> veq v w.

  Theorem all_kinds_same_step (k1 k2 : solver_kind) (s1 s2 : vec) :
    injective_on (matrix P dt rho KStandard act xd yd) (n + m) ->
    length s1 = sys_len k1 -> length s2 = sys_len k2 ->
    veq (mvec (matrix P dt rho k1 act xd yd) s1) (rhs P xh yh dt rho k1 act xd yd x y) ->
    veq (mvec (matrix P dt rho k2 act xd yd) s2) (rhs P xh yh dt rho k2 act xd yd x y) ->
    veq (post_vec k1 s1) (post_vec k2 s2).
  Proof.
    intros Inj L1 L2 H1 H2. apply Inj; try (apply post_vec_length; assumption).
    eapply veq_trans; [apply every_kind_solves_standard_lists; eassumption|].
    apply veq_sym. apply every_kind_solves_standard_lists; assumption.
  Qed.
End AllKinds.
