(* Effects.v — classifiers over the structural facts regenerated from /repo/pygradflow (gen/Facts.v).
   Every classifier is total and fail-closed: a record it does not recognise is NOT ok, so a new
   construction site, evaluation site, raise, assert, in-place operation, persistent attribute or observer
   branch makes the per-run obligation (factprops/*.v) fail.  The soundness statements proved here are the
   small abstract arguments that turn "every site is of a known, harmless kind" into the property. *)
From Coq Require Import String List Bool ZArith Lia.
Import ListNotations.
Open Scope string_scope.

Fixpoint contains (needle hay : string) : bool :=
  prefix needle hay || match hay with EmptyString => false | String _ h' => contains needle h' end.
Definition mem (s : string) (l : list string) : bool := existsb (String.eqb s) l.
Definition any_prefix (ps : list string) (s : string) : bool := existsb (fun p => prefix p s) ps.
Definition any_contains (ps : list string) (s : string) : bool := existsb (fun p => contains p s) ps.

(* ------------------------------------------------------------------ scope *)
(* modules outside the claims: the flow-integration solver, controllers and linear solvers whose
   dependencies are absent from this sandbox, display formatting, command-line runners *)
Definition out_of_scope (m : string) : bool :=
  prefix "integration/" m
  || mem m ["step/box_control.py"; "step/opti_control.py"; "step/box_solver.py"; "linear_solver/cholesky_solver.py";
            "linear_solver/ma57_solver.py"; "linear_solver/mumps_solver.py"; "linear_solver/ssids_solver.py"].
Definition known_modules : list string :=
  ["__init__.py"; "active_set.py"; "callbacks.py"; "cons_problem.py"; "controller.py"; "deriv_check.py"; "display.py";
   "eval.py"; "implicit_func.py"; "iterate.py"; "log.py"; "newton.py"; "params.py"; "penalty.py"; "problem.py";
   "result.py"; "scale.py"; "solver.py"; "status.py"; "timer.py"; "transform.py"; "util.py";
   "linear_solver/__init__.py"; "linear_solver/gmres_solver.py"; "linear_solver/linear_solver.py";
   "linear_solver/lu_solver.py"; "linear_solver/minres_solver.py";
   "step/cond_estimate.py"; "step/distance_ratio_control.py"; "step/exact_control.py"; "step/fixed_control.py";
   "step/linear_solver.py"; "step/newton_control.py"; "step/residuum_ratio_control.py"; "step/step_control.py";
   "step/step_solver_error.py"; "step/solver/__init__.py"; "step/solver/asymmetric_step_solver.py";
   "step/solver/extended_step_solver.py"; "step/solver/scaled_step_solver.py"; "step/solver/standard_step_solver.py";
   "step/solver/step_solver.py"; "step/solver/symmetric_step_solver.py"].
Definition module_ok (m : string) : bool := out_of_scope m || mem m known_modules.

(* ------------------------------------------------------------------ C05: where iterates come from *)
Inductive origin := Start | ClippedStep | CopyOf | Clipped | LineSearchTrial | UnusedClass.

Definition classify_iterate_site (s : string * string * string * string) : option origin :=
  let '(m, f, callee, arg) := s in
  if out_of_scope m then Some UnusedClass else
  match callee with
  | "StepResult" =>
      (* StepResult clips whatever dx it is given (C05_compute_xn_in_box) *)
      if mem f ["ScaledStepSolver.solve"; "StandardStepSolver.solve"; "GlobalizedNewtonMethod.step";
                "FixedActiveSetNewtonMethod.create_step"] then Some ClippedStep else None
  | "Iterate" =>
      if String.eqb f "Iterate.copy" && String.eqb arg "np.copy(self.x)" then Some CopyOf
      else if String.eqb f "Iterate.clipped" && prefix "xclip" arg then Some Clipped
      else if String.eqb f "StepResult.iterate" && prefix "xn <- self.xn" arg then Some ClippedStep
      else if String.eqb f "Transformation.create_transformed_iterate" && prefix "x <- self.transform_sol(x, y)" arg then Some Start
      else if String.eqb f "GlobalizedNewtonMethod.step" then
        (* the Armijo trial point: in the box only if it is the clipped expression *)
        if String.eqb arg "next_x <- np.clip(iterate.x - dx, problem.var_lb, problem.var_ub)" then Some Clipped
        else Some LineSearchTrial
      else None
  | _ => None
  end.
(* LineSearchTrial is NOT an in-box origin: it was finding F8 (Globalized line search, repaired by 67231bb: the trial
   point is now np.clip(iterate.x - dx, var_lb, var_ub)); the obligation says there is no such site, so the old code
   or a second unclipped site is reported *)
Definition iterate_site_ok (s : string * string * string * string) : bool :=
  match classify_iterate_site s with Some _ => true | None => false end.
Definition unclipped_sites (l : list (string * string * string * string)) :=
  filter (fun s => match classify_iterate_site s with Some LineSearchTrial => true | _ => false end) l.

(* calls of the user's callbacks: through an Iterate's cached properties, forwarded by a wrapper problem
   with its own argument, at the start point, or from the two exempt places *)
Inductive eval_kind := ViaIterate | Forward | StartPoint | ScalingPoint | DerivCheckPoint.
Definition classify_eval_site (s : string * string * string * string * string) : option eval_kind :=
  let '(m, f, recv, cb, arg) := s in
  if out_of_scope m then Some Forward else
  if String.eqb m "iterate.py" && String.eqb recv "self.eval" && String.eqb arg "self.x" then Some ViaIterate
  else if String.eqb m "eval.py" && String.eqb recv "self.problem" && String.eqb arg "x" then Some Forward
  else if String.eqb m "cons_problem.py" && String.eqb recv "self.problem" && String.eqb arg "self.orig_vals(x)" then Some Forward
  else if String.eqb m "cons_problem.py" && String.eqb f "ConstrainedProblem.transform_sol" && String.eqb arg "orig_x" then Some StartPoint
  else if String.eqb m "scale.py" && String.eqb recv "self.problem" && String.eqb arg "x_orig" then Some Forward
  else if String.eqb m "scale.py" && String.eqb f "create_scaling" && String.eqb arg "scaling_primal" then Some ScalingPoint
  else if String.eqb m "solver.py" && String.eqb f "Solver._deriv_check" && String.eqb recv "eval" && String.eqb arg "x" then Some DerivCheckPoint
  else if String.eqb cb "lag_hess" && mem recv ["iterate"; "self"] && mem m ["display.py"; "iterate.py";
            "step/solver/asymmetric_step_solver.py"; "step/solver/scaled_step_solver.py"] then Some ViaIterate
  else None.
Definition eval_site_ok s := match classify_eval_site s with Some _ => true | None => false end.

(* ------------------------------------------------------------------ C06 / C07: raises, asserts, guards *)
Inductive raise_kind := Deliberate | Converted | AbstractMethod | ConfigError.
Definition classify_raise (s : string * string * string * list string) : option raise_kind :=
  let '(m, f, exc, handlers) := s in
  if out_of_scope m then Some ConfigError else
  if prefix "NotImplementedError" exc then Some AbstractMethod
  else if String.eqb m "solver.py" && String.eqb f "Solver.solve"
          && (prefix "Exception('Failed to evaluate initial iterate')" exc || prefix "Exception(f'Inverse step size" exc) then Some Deliberate
  else if String.eqb m "newton.py" && prefix "Exception('Line search failed" exc then Some Deliberate
  else if String.eqb m "deriv_check.py" && prefix "DerivError(" exc then Some Deliberate
  else if String.eqb m "eval.py" && prefix "EvalError(" exc then Some Converted                    (* caught by compute_step / the prelude *)
  else if prefix "linear_solver/" m && prefix "LinearSolverError(" exc then Some Converted          (* caught by the step solvers *)
  else if String.eqb m "step/cond_estimate.py" && prefix "LinearSolverError('Condition estimate broke down')" exc
       then Some Converted                                                                          (* caught by StepSolver.estimate_rcond (required guard) *)
  else if prefix "step/solver/" m && String.eqb exc "StepSolverError" then Some Converted           (* caught by compute_step *)
  else if String.eqb m "step/solver/symmetric_step_solver.py" && prefix "LinearSolverError('Invalid matrix inertia')" exc
          && mem "LinearSolverError" handlers then Some Converted
  else if String.eqb m "step/exact_control.py" && prefix "StepSolverError('Time limit reached')" exc then Some Converted
  else if String.eqb m "scale.py" && String.eqb f "create_scaling" && prefix "ValueError(" exc then Some ConfigError
  else if String.eqb m "scale.py" && String.eqb f "scale_symmetric" then Some ConfigError           (* equilibration did not converge: at construction *)
  else if String.eqb m "penalty.py" && String.eqb f "penalty_strategy" then Some ConfigError
  else if String.eqb m "step/solver/symmetric_step_solver.py" && prefix "Exception('Inertia correction requested" exc then Some ConfigError
  else None.
Definition raise_ok s := match classify_raise s with Some _ => true | None => false end.

(* assertions: about shapes / dtypes / presence (true of arrays the package built itself), about the
   configuration, or numeric ones, each of which is an obligation discharged by a theorem *)
Inductive assert_kind := ShapeInvariant | ConfigCheck | Numeric (thm : string).
Definition numeric_asserts : list (string * string * string) :=
  [ ("step/solver/scaled_step_solver.py", "fact > 0.0", "lambda > 0 and rho > 0 give 1/(1+lambda rho) > 0 (C15_lambda_stays_positive, C16_trial_penalties)");
    ("newton.py", "dt > 0.0", "C15_lambda_stays_positive"); ("newton.py", "rho > 0.0", "C16_trial_penalties");
    ("step/solver/__init__.py", "dt > 0.0", "C15_lambda_stays_positive"); ("step/solver/__init__.py", "rho > 0.0", "C16_trial_penalties");
    ("step/solver/asymmetric_step_solver.py", "dt > 0.0", "C15_lambda_stays_positive"); ("step/solver/asymmetric_step_solver.py", "rho > 0.0", "C16_trial_penalties");
    ("step/solver/extended_step_solver.py", "dt > 0.0", "C15_lambda_stays_positive"); ("step/solver/extended_step_solver.py", "rho > 0.0", "C16_trial_penalties");
    ("step/solver/extended_step_solver.py", "self.dt > 0.0", "C15_lambda_stays_positive");
    ("step/solver/symmetric_step_solver.py", "dt > 0.0", "C15_lambda_stays_positive"); ("step/solver/symmetric_step_solver.py", "rho > 0.0", "C16_trial_penalties");
    ("step/distance_ratio_control.py", "dt > 0.0", "C15_lambda_stays_positive"); ("step/exact_control.py", "dt > 0.0", "C15_lambda_stays_positive");
    ("step/fixed_control.py", "dt > 0.0", "C15_lambda_stays_positive"); ("step/residuum_ratio_control.py", "dt > 0.0", "C15_lambda_stays_positive");
    ("penalty.py", "ynorm >= 0.0", "norm"); ("penalty.py", "yprod >= 0.0", "abs"); ("penalty.py", "viol >= 0.0", "square");
    ("penalty.py", "next_rho > self.rho", "C16_no_internal_assert"); ("penalty.py", "next_rho >= self.rho", "C16_no_internal_assert");
    ("penalty.py", "np.isfinite(bound)", "C16_no_internal_assert (bound finite: ||J^T c|| > local_infeas_tol >= 0 was tested just before)");
    ("controller.py", "val > 0.0", "theta is a quotient of non-zero norms"); ("controller.py", "ref > 0.0", "configuration theta_ref > 0");
    ("controller.py", "self.K_P >= 0.0", "configuration"); ("controller.py", "self.K_I >= 0.0", "configuration");
    ("implicit_func.py", "(lb <= ub).all()", "Problem.__init__ checked the bounds"); ("implicit_func.py", "(lb != np.inf).all()", "Problem.__init__");
    ("implicit_func.py", "(ub != -np.inf).all()", "Problem.__init__");
    ("implicit_func.py", "(lb[active_set] <= p[active_set]).all()", "C13_projection_in_box"); ("implicit_func.py", "(p[active_set] <= ub[active_set]).all()", "C13_projection_in_box");
    ("solver.py", "rho != -1.0", "C16_trial_penalties (rho > 0)");
    ("solver.py", "path_dist >= direct_dist or np.isclose(path_dist, direct_dist)", "C12_dist_factor");
    ("step/cond_estimate.py", "0 < min_prob < 1", "constant"); ("step/cond_estimate.py", "num_its > 0", "size >= 1 (empty systems are skipped)");
    ("step/newton_control.py", "min_tau >= 0", "C06_compute_tau_smallest_assertion");
    ("step/solver/asymmetric_step_solver.py", "(curr_cols[:-1] <= curr_cols[1:]).all()", "unused since the fix of F16");
    ("step/solver/asymmetric_step_solver.py", "(0 <= curr_cols).all()", "unused since the fix of F16");
    ("step/solver/asymmetric_step_solver.py", "(curr_cols < n + m).all()", "unused since the fix of F16");
    ("problem.py", "(var_lb <= var_ub).all()", "input validation"); ("problem.py", "(var_lb < np.inf).all()", "input validation");
    ("problem.py", "(var_ub > -np.inf).all()", "input validation"); ("problem.py", "(cons_lb <= cons_ub).all()", "input validation");
    ("problem.py", "(cons_lb < np.inf).all()", "input validation"); ("problem.py", "(cons_ub > -np.inf).all()", "input validation");
    ("linear_solver/minres_solver.py", "symmetric", "the symmetric step solver passes symmetric=True") ].

Definition classify_assert (s : string * string * string) : option assert_kind :=
  let '(m, f, test) := s in
  if out_of_scope m || String.eqb m "display.py" then Some ShapeInvariant else
  if any_contains [".shape"; ".dtype"; "is not None"; "isinstance"; ".ndim"; "is None"; "len("] test then Some ShapeInvariant
  else if any_contains ["_type == "; "Type."] test then Some ConfigCheck
  else match find (fun t => let '(m', test', _) := t in String.eqb m m' && String.eqb test test') numeric_asserts with
       | Some (_, _, thm) => Some (Numeric thm)
       | None => None
       end.
Definition assert_ok s := match classify_assert s with Some _ => true | None => false end.

(* guards that must be present: (module, function, callee, handler class) *)
Definition required_guards : list (string * string * string * string) :=
  [ ("step/step_control.py", "StepController.compute_step", "self.step", "StepSolverError");
    ("step/step_control.py", "StepController.compute_step", "self.step", "EvalError");
    ("step/step_control.py", "StepController.compute_step", "step.iterate.check_eval", "EvalError");
    ("solver.py", "Solver.solve", "iterate.check_eval", "EvalError");
    ("solver.py", "Solver.solve", "print_problem_stats", "EvalError");
    ("step/solver/step_solver.py", "StepSolver.estimate_rcond", "estimator.estimate_rcond", "LinearSolverError");
    ("linear_solver/lu_solver.py", "LUSolver.__init__", "sp.sparse.linalg.splu", "RuntimeError");
    ("display.py", "StateData.__getitem__", "entry", "Exception") ].
Definition guard_present (gs : list (string * string * string * list string)) (r : string * string * string * string) : bool :=
  let '(m, f, callee, h) := r in
  existsb (fun g => let '(m', f', c', hs) := g in String.eqb m m' && String.eqb f f' && String.eqb callee c' && mem h hs) gs
  && forallb (fun g => let '(m', f', c', hs) := g in
                       negb (String.eqb m m' && String.eqb f f' && String.eqb callee c') || mem h hs) gs.
(* handlers whose job is to SWALLOW: they must not re-raise (whatever the log level or any other observer says) *)
Definition swallowing_handlers : list (string * string * string) :=
  [ ("display.py", "StateData.__getitem__", "Exception");
    ("step/solver/step_solver.py", "StepSolver.estimate_rcond", "LinearSolverError");
    ("step/step_control.py", "StepController.compute_step", "StepSolverError");
    ("step/step_control.py", "StepController.compute_step", "EvalError") ].
Definition handler_swallows (hb : list (string * string * string * list string)) (r : string * string * string) : bool :=
  let '(m, f, h) := r in
  existsb (fun g => let '(m', f', h', _) := g in String.eqb m m' && String.eqb f f' && String.eqb h h') hb
  && forallb (fun g => let '(m', f', h', effs) := g in
                       negb (String.eqb m m' && String.eqb f f' && String.eqb h h') || negb (mem "raise" effs)) hb.
(* every factorisation / back-solve issued by a step solver sits under a LinearSolverError handler *)
Definition linear_call_guarded (g : string * string * string * list string) : bool :=
  let '(m, f, callee, hs) := g in
  if prefix "step/solver/" m && mem callee ["self.linear_solver"; "self.solver.solve"]
  then mem "LinearSolverError" hs else true.

(* ------------------------------------------------------------------ C09: observer-controlled branches *)
(* what may run EAGERLY under such a branch: stores into the observer's own state and calls of the display / log /
   path machinery.  Problem evaluations (iterate.obj_nonlin, iterate.aug_lag, func.value_at, ...) are allowed only
   DEFERRED (inside a lambda / nested def stored into the display state): they then run inside
   StateData.__getitem__, whose handler swallows every exception (swallowing_handlers below). *)
Definition observer_effect_prefixes : list string :=
  [ "store state"; "store path"; "store rcond"; "store self.res_func"; "store self.display"; "store complete_path";
    "store model_times"; "call StateData"; "call logger."; "call display.row"; "call inner_display";
    "call path.append"; "call path_times.append"; "call np.vstack"; "call np.hstack";
    "call result._set_path"; "call self.estimate_rcond"; "call cols.append"; "call AttrColumn"; "call RCondFormatter";
    "call StateAttr"; "expr "; "deferred "; "store iterate"; "call self.display.row" ].
Definition observer_effect_ok (f : string) (e : string) : bool :=
  any_prefix observer_effect_prefixes e
  || (String.eqb e "return" && mem f ["StepController.display_step"; "StepController.compute_step"]).
Definition observer_site_ok (s : string * string * string * list string * list string) : bool :=
  let '(m, f, test, body, orelse) := s in
  out_of_scope m || String.eqb m "display.py"
  || (forallb (observer_effect_ok f) body && forallb (observer_effect_ok f) orelse).

(* ------------------------------------------------------------------ C10: what survives a solve *)
Definition creation_ok (s : string * string * string) : bool :=
  let '(m, f, ctor) := s in
  out_of_scope m ||
  existsb (fun t => let '(f', c') := t in String.eqb f f' && String.eqb ctor c')
    [ ("Solver.solve", "penalty_strategy"); ("Solver.solve", "solver_display"); ("Solver.solve", "step_controller");
      ("Solver.solve", "Timer"); ("Solver.perform_iteration", "step_controller"); ("Solver.perform_iteration", "Timer");
      ("Solver.__init__", "Callbacks"); ("Solver.__init__", "Transformation");
      ("Transformation.__init__", "create_scaling"); ("Transformation.__init__", "create_evaluator");
      ("LogController.__init__", "Controller"); ("DistanceRatioController.__init__", "LogController");
      ("ResiduumRatioController.__init__", "LogController"); ("StepController.compute_step", "inner_display");
      ("StepSolver.estimate_rcond", "ConditionEstimator") ].
(* objects that outlive a solve: what they store, and where *)
Definition persistent_classes : list string :=
  ["Solver"; "Transformation"; "Scaling"; "ScaledProblem"; "ConstrainedProblem"; "Problem"; "Evaluator"; "SimpleEvaluator";
   "ValidatingEvaluator"; "Callbacks"; "CallbackHandle"].
Definition persistent_store_ok (s : string * string * string * string) : bool :=
  let '(m, cls, f, attr) := s in
  if out_of_scope m || negb (mem cls persistent_classes) then true else
  if String.eqb cls "Solver" then
    (String.eqb f "Solver.__init__" && mem attr ["orig_problem"; "params"; "callbacks"; "transform"; "problem"])
    || (String.eqb f "Solver.solve" && mem attr ["evaluator"; "penalty_strategy"; "rho"])
  else if mem cls ["Evaluator"; "SimpleEvaluator"; "ValidatingEvaluator"] then
    mem f ["Evaluator.__init__"; "Evaluator.reset_num_evals"; "ValidatingEvaluator.__init__"]
  else if String.eqb cls "ConstrainedProblem" then mem f ["ConstrainedProblem.__init__"; "ConstrainedProblem.create_slacks"]
  else contains ".__init__" f.
(* what Solver.solve stores on the solver object it stores before it reads *)
Definition solve_store_before_load (s : string * string * string * Z * Z) : bool :=
  let '(m, f, attr, st, ld) := s in
  if String.eqb m "solver.py" && String.eqb f "Solver.solve" then Z.ltb st ld else true.
Definition module_state_ok (s : string * string * string) : bool :=
  let '(m, name, value) := s in
  out_of_scope m
  || existsb (fun t => let '(m', n') := t in String.eqb m m' && String.eqb name n')
       [ ("eval.py", "warn_hessian_pattern"); ("eval.py", "warn_hessian_values"); ("log.py", "logger"); ("newton.py", "logger");
         ("solver.py", "header_interval"); ("step/cond_estimate.py", "seed"); ("linear_solver/__init__.py", "__all__");
         ("params.py", "Params.time_limit") ].
Definition default_arg_ok (s : string * string * string) : bool :=
  let '(m, f, d) := s in out_of_scope m || (String.eqb m "solver.py" && String.eqb f "Solver.__init__" && String.eqb d "Params()").

(* ------------------------------------------------------------------ C11: in-place operations *)
(* an operation is harmless if everything its target may be bound to is an object the package created
   itself (flow-insensitive: EVERY assignment to the name in the function must be fresh) *)
Definition fresh_markers : list string :=
  [ "np.copy("; "copy=True"; "np.zeros"; "np.empty"; "np.full"; "np.ones"; "np.abs("; "np.sqrt("; "np.concatenate";
    "sp.sparse.eye"; "sp.sparse.diags"; "StateData("; ".dot("; " @ "; " - "; " + "; " * "; "linear_solver.solve(" ].
Definition is_literal (o : string) : bool := mem o ["0"; "0.0"; "1.0"; "[False]"].
Definition origin_fresh (o : string) : bool := is_literal o || any_contains fresh_markers o.
(* targets that are not arrays: counters, dictionaries of the package's own objects *)
Definition target_is_bookkeeping (t : string) : bool :=
  any_prefix ["state["; "self._attrs["; "self.num_evals["; "has_warned["] t.
(* reviewed by hand: (module, function, target) *)
Definition reviewed_inplace : list (string * string * string) :=
  [ ("iterate.py", "_read_only", "a.flags.writeable");              (* flag only; values untouched (F3 remainder, see DESIGN) *)
    ("step/solver/step_solver.py", "StepResult._compute_xn", "dx[at_lb]");   (* dx = np.copy(dx) precedes *)
    ("step/solver/step_solver.py", "StepResult._compute_xn", "dx[at_ub]");
    ("step/solver/step_solver.py", "StepResult.iterate", "iterate.x.dtype"); (* astype(copy=False) of the package's own xn *)
    ("step/solver/asymmetric_step_solver.py", "AsymmetricStepSolver.compute_deriv", "hess");          (* sparse += rebinds *)
    ("step/solver/asymmetric_step_solver.py", "AsymmetricStepSolver.overwrite_active_rows", "curr_data[:]");   (* unused since F16 *)
    ("step/solver/asymmetric_step_solver.py", "AsymmetricStepSolver.overwrite_active_rows", "curr_data[k]");
    ("step/solver/asymmetric_step_solver.py", "AsymmetricStepSolver.overwrite_active_rows", "curr_cols[k]");
    ("newton.py", "GlobalizedNewtonMethod.step", "step_result.active_set") ].
Definition inplace_ok (s : string * string * string * string * list string) : bool :=
  let '(m, f, kind, target, origins) := s in
  out_of_scope m || (String.eqb m "display.py" && negb (prefix "method " kind || prefix "function " kind))
  || target_is_bookkeeping target
  (* the review below was of stores / augmented assignments / copy=False: a mutating method or function call on the
     same name is a different operation and is not covered by it *)
  || (negb (prefix "method " kind || prefix "function " kind)
      && existsb (fun t => let '(m', f', t') := t in String.eqb m m' && String.eqb f f' && String.eqb target t') reviewed_inplace)
  || (negb (match origins with [] => true | _ => false end) && forallb origin_fresh origins).

(* ------------------------------------------------------------------ soundness arguments *)
(* C05: if every construction site has an in-box origin, every iterate of a run is in the box.  Abstractly:
   a run is a list of construction events; an event is in the box if it is the start (in-box by hypothesis),
   a clipped step or a clip (in-box by C05_compute_xn_in_box), or a copy of an earlier in-box iterate. *)
Inductive event := EStart | EClipped | ECopy (of : nat) | EOther.
Fixpoint in_box_upto (tr : list event) (k : nat) : Prop :=
  match tr with
  | [] => True
  | e :: tr' => match k with
                | O => True
                | S k' => in_box_upto tr' k'
                end
  end.
Definition event_from_known_site (e : event) : bool := match e with EOther => false | _ => true end.

Section BoxTrace.
  Variable inbox : nat -> Prop.                   (* the k-th constructed iterate lies in the box *)
  Variable tr : list event.
  Hypothesis start_in : forall k, nth_error tr k = Some EStart -> inbox k.
  Hypothesis clipped_in : forall k, nth_error tr k = Some EClipped -> inbox k.
  Hypothesis copy_in : forall k j, nth_error tr k = Some (ECopy j) -> (j < k)%nat -> inbox j -> inbox k.
  Hypothesis copies_look_back : forall k j, nth_error tr k = Some (ECopy j) -> (j < k)%nat.

  Theorem all_iterates_in_box : forallb event_from_known_site tr = true -> forall k, (k < length tr)%nat -> inbox k.
  Proof.
    intros Hall. intros k. induction k as [k IH] using (well_founded_induction Wf_nat.lt_wf). intros Hk.
    destruct (nth_error tr k) as [e|] eqn:E.
    - destruct e.
      + apply start_in. exact E.
      + apply clipped_in. exact E.
      + pose proof (copies_look_back _ _ E) as Hj. eapply copy_in; eauto. apply IH; [exact Hj|lia].
      + exfalso. rewrite forallb_forall in Hall. apply nth_error_In in E. specialize (Hall _ E). discriminate.
    - apply nth_error_None in E. lia.
  Qed.
End BoxTrace.

(* C10: a solve that reads, of everything that persists, only components that no solve writes, returns
   the same result whatever happened before.  Abstractly: the persistent world is a function from
   component names to values; `solve` is any function of (world, input) that depends on the world only
   through the readable components; other solves only change writable components. *)
Section History.
  Variable comp value input result : Type.
  Definition world := comp -> value.
  Variable readable : comp -> bool.               (* components the algorithmic part of solve may read *)
  Variable solve : world -> input -> world * result.
  Hypothesis reads_only_readable : forall w w' i, (forall c, readable c = true -> w c = w' c) -> snd (solve w i) = snd (solve w' i).
  Hypothesis writes_only_unreadable : forall w i c, readable c = true -> fst (solve w i) c = w c.

  Fixpoint after (w : world) (hist : list input) : world :=
    match hist with [] => w | i :: h => after (fst (solve w i)) h end.

  Theorem history_independent : forall hist w i, snd (solve (after w hist) i) = snd (solve w i).
  Proof.
    induction hist as [|j h IH]; intros w i; cbn; [reflexivity|].
    rewrite IH. apply reads_only_readable. intros c Hc. apply writes_only_unreadable. exact Hc.
  Qed.
End History.

(* C11: if no in-place operation targets an object that may alias a caller-owned one, the caller's objects
   keep their values.  Abstractly: a heap of objects, some caller-owned; operations write to an object id. *)
Section Heap.
  Variable value : Type.
  Definition heap := nat -> value.
  Variable caller_owned : nat -> bool.
  Definition write (h : heap) (o : nat) (v : value) : heap := fun k => if Nat.eqb k o then v else h k.
  Fixpoint run_ops (h : heap) (ops : list (nat * value)) : heap :=
    match ops with [] => h | (o, v) :: r => run_ops (write h o v) r end.

  Theorem caller_values_preserved : forall ops h,
    forallb (fun op => negb (caller_owned (fst op))) ops = true ->
    forall k, caller_owned k = true -> run_ops h ops k = h k.
  Proof.
    induction ops as [|[o v] r IH]; intros h Hall k Hk; cbn in *; [reflexivity|].
    apply andb_true_iff in Hall. destruct Hall as [H1 H2].
    rewrite IH by assumption. unfold write.
    destruct (Nat.eqb_spec k o) as [->|]; [rewrite Hk in H1; discriminate|reflexivity].
  Qed.
End Heap.
