(* FilterProofs.v — the penalty filter is a Pareto front (C18), for any carrier
   with a boolean comparison; reflexivity/transitivity only where stated. *)
From Verif Require Import Penalty.

Section FilterProofs.
  Variable T : Type.
  Variable leb : T -> T -> bool.
  Notation dom := (dominates leb).
  Notation ins := (filter_insert leb).

  (* pairwise non-dominated, as an inductive invariant *)
  Inductive AC : list (T * T) -> Prop :=
  | AC_nil : AC []
  | AC_cons e es : AC es ->
      Forall (fun x => dom e x = false /\ dom x e = false) es -> AC (e :: es).

  (* the same thing said with positions: distinct positions never dominate each other *)
  Definition antichain (es : list (T * T)) : Prop :=
    forall i j a b, i <> j -> nth_error es i = Some a -> nth_error es j = Some b -> dom a b = false.

  Lemma AC_antichain es : AC es -> antichain es.
  Proof.
    induction 1 as [|e es Hes IH Hall]; intros i j a b Hij Hi Hj.
    - destruct i; discriminate.
    - rewrite Forall_forall in Hall.
      destruct i as [|i], j as [|j]; cbn in Hi, Hj.
      + congruence.
      + injection Hi as <-. apply nth_error_In in Hj. apply (Hall b Hj).
      + injection Hj as <-. apply nth_error_In in Hi. apply (Hall a Hi).
      + apply (IH i j a b); auto.
  Qed.

  Lemma antichain_AC es : antichain es -> AC es.
  Proof.
    induction es as [|e es IH]; intros H; constructor.
    - apply IH. intros i j a b Hij Hi Hj. apply (H (S i) (S j) a b); auto.
    - apply Forall_forall. intros x Hx. apply In_nth_error in Hx. destruct Hx as [k Hk].
      split; [apply (H O (S k) e x) | apply (H (S k) O x e)]; auto.
  Qed.

  Lemma AC_filter f es : AC es -> AC (filter f es).
  Proof.
    induction 1 as [|e es Hes IH Hall]; cbn; [constructor|].
    destruct (f e); [constructor|]; auto.
    rewrite Forall_forall in *. intros x Hx. apply filter_In in Hx. apply Hall, Hx.
  Qed.

  Lemma AC_snoc es p :
    AC es -> Forall (fun x => dom p x = false /\ dom x p = false) es -> AC (es ++ [p]).
  Proof.
    induction 1 as [|e es Hes IH Hall]; cbn; intros Hp.
    - constructor; constructor.
    - inversion Hp as [|? ? [Hpe Hep] Hp']; subst. constructor; auto.
      rewrite Forall_forall in *. intros x Hx. apply in_app_or in Hx. destruct Hx as [Hx|[<-|[]]]; auto.
  Qed.

  Lemma AC_In es a b : AC es -> In a es -> In b es -> a = b \/ dom a b = false.
  Proof.
    induction 1 as [|e es Hes IH Hall]; cbn; [tauto|]. rewrite Forall_forall in Hall.
    intros [<-|Ha] [<-|Hb]; auto.
    - right. apply (Hall b Hb).
    - right. apply (Hall a Ha).
  Qed.

  (* ---- one insertion ---- *)
  Lemma insert_refused_iff es p :
    snd (ins es p) = false <-> exists e, In e es /\ dom e p = true.
  Proof.
    unfold filter_insert. destruct (existsb _ es) eqn:E; cbn.
    - apply existsb_exists in E. tauto.
    - split; [discriminate|]. intros H. apply existsb_exists in H. congruence.
  Qed.

  Lemma insert_refused_unchanged es p : snd (ins es p) = false -> fst (ins es p) = es.
  Proof. unfold filter_insert. destruct (existsb _ es); cbn; congruence. Qed.

  Lemma insert_accepted_entries es p :
    snd (ins es p) = true -> fst (ins es p) = filter (fun e => negb (dom p e)) es ++ [p].
  Proof. unfold filter_insert. destruct (existsb _ es); cbn; congruence. Qed.

  (* accepting removes exactly the dominated entries, survivors keep their order *)
  Lemma insert_accepted_In es p e :
    snd (ins es p) = true ->
    (In e (fst (ins es p)) <-> (In e es /\ dom p e = false) \/ e = p).
  Proof.
    intros H. rewrite (insert_accepted_entries _ _ H), in_app_iff, filter_In. cbn.
    rewrite negb_true_iff. intuition.
  Qed.

  Lemma insert_AC es p : AC es -> AC (fst (ins es p)).
  Proof.
    intros H. unfold filter_insert. destruct (existsb _ es) eqn:E; cbn; auto.
    apply AC_snoc; [apply AC_filter; auto|].
    apply Forall_forall. intros x Hx. apply filter_In in Hx. destruct Hx as [Hx Hd].
    apply negb_true_iff in Hd. split; auto.
    destruct (dom x p) eqn:D; auto.
    assert (existsb (fun e => dom e p) es = true) by (apply existsb_exists; eauto). congruence.
  Qed.

  (* ---- whole histories ---- *)
  Lemma run_AC ps : forall es, AC es -> AC (fst (filter_run leb es ps)).
  Proof.
    induction ps as [|p ps IH]; intros es H; cbn; auto.
    destruct (ins es p) as [es1 ok] eqn:E.
    specialize (IH es1). destruct (filter_run leb es1 ps) as [es2 oks]. cbn in *.
    apply IH. replace es1 with (fst (ins es p)) by (rewrite E; auto). apply insert_AC, H.
  Qed.

  Lemma insert_subset es p e : In e (fst (ins es p)) -> In e es \/ e = p.
  Proof.
    unfold filter_insert. destruct (existsb _ es); cbn; auto.
    rewrite in_app_iff, filter_In. cbn. intuition.
  Qed.

  Lemma run_subset ps : forall es e, In e (fst (filter_run leb es ps)) -> In e es \/ In e ps.
  Proof.
    induction ps as [|p ps IH]; intros es e; cbn; auto.
    destruct (ins es p) as [es1 ok] eqn:E.
    specialize (IH es1 e). destruct (filter_run leb es1 ps) as [es2 oks]. cbn in *.
    intros H. destruct (IH H) as [H1|H1]; auto.
    replace es1 with (fst (ins es p)) in H1 by (rewrite E; auto).
    destruct (insert_subset _ _ _ H1); auto.
  Qed.

  Hypothesis leb_refl : forall a, leb a a = true.
  Hypothesis leb_trans : forall a b c, leb a b = true -> leb b c = true -> leb a c = true.

  Lemma dom_refl a : dom a a = true.
  Proof. unfold dominates. now rewrite !leb_refl. Qed.
  Lemma dom_trans a b c : dom a b = true -> dom b c = true -> dom a c = true.
  Proof.
    unfold dominates. rewrite !andb_true_iff. intros [H1 H2] [H3 H4]. split; eapply leb_trans; eauto.
  Qed.

  Definition covers (es : list (T * T)) (q : T * T) : Prop := exists e, In e es /\ dom e q = true.

  Lemma insert_covers_old es p q : covers es q -> covers (fst (ins es p)) q.
  Proof.
    intros [e [He Hd]]. unfold filter_insert. destruct (existsb _ es) eqn:E; cbn; [exists e; auto|].
    destruct (dom p e) eqn:D.
    - exists p. split; [apply in_or_app; right; left; auto | eapply dom_trans; eauto].
    - exists e. split; auto. apply in_or_app. left. apply filter_In. now rewrite D.
  Qed.

  Lemma insert_covers_new es p : covers (fst (ins es p)) p.
  Proof.
    unfold filter_insert. destruct (existsb _ es) eqn:E; cbn.
    - apply existsb_exists in E. exact E.
    - exists p. split; [apply in_or_app; right; left; auto | apply dom_refl].
  Qed.

  Lemma run_covers ps : forall es q, covers es q \/ In q ps -> covers (fst (filter_run leb es ps)) q.
  Proof.
    induction ps as [|p ps IH]; intros es q; cbn; [tauto|].
    destruct (ins es p) as [es1 ok] eqn:E.
    specialize (IH es1 q). destruct (filter_run leb es1 ps) as [es2 oks]. cbn in *.
    intros H. apply IH.
    replace es1 with (fst (ins es p)) by (rewrite E; auto).
    destruct H as [H|[<-|H]]; auto.
    - left. now apply insert_covers_old.
    - left. apply insert_covers_new.
  Qed.

  (* refinement to the abstract spec: the entries after a history h are representatives of the
     minimal elements of h *)
  Theorem run_is_pareto_front h :
    let es := fst (filter_run leb [] h) in
    antichain es
    /\ (forall e, In e es -> In e h)
    /\ (forall q, In q h -> covers es q)
    /\ (forall e q, In e es -> In q h -> dom q e = true -> dom e q = true).
  Proof.
    cbn. assert (HAC : AC (fst (filter_run leb [] h))) by (apply run_AC; constructor).
    assert (Hcov : forall q, In q h -> covers (fst (filter_run leb [] h)) q)
      by (intros q Hq; apply run_covers; auto).
    repeat split; auto.
    - now apply AC_antichain.
    - intros e He. destruct (run_subset _ _ _ He) as [[]|]; auto.
    - intros e q He Hq Hd. destruct (Hcov q Hq) as [e' [He' Hd']].
      destruct (AC_In _ e' e HAC He' He) as [->|Hn]; auto.
      rewrite (dom_trans _ _ _ Hd' Hd) in Hn. discriminate.
  Qed.
End FilterProofs.

(* ---- the policy wrapper: refused => tenfold penalty and veto, accepted => unchanged ---- *)
Lemma filter_update_spec pol prm st d :
  pol = ObjFilter \/ pol = LagFilter ->
  let e := match pol with ObjFilter => d_entry d | _ => d_lag_entry d (ps_rho st) end in
  let r := filter_insert qle (ps_entries st) e in
  (snd r = true ->
     p_update pol prm st d = PRes {| ps_rho := ps_rho st; ps_entries := fst r |} (ps_rho st) true)
  /\ (snd r = false ->
     p_update pol prm st d =
       PRes {| ps_rho := ps_rho st * 10; ps_entries := ps_entries st |} (ps_rho st * 10) false).
Proof.
  intros Hpol e r. subst e r.
  destruct Hpol as [-> | ->]; cbn [p_update];
    match goal with |- context [filter_insert qle ?a ?b] => destruct (filter_insert qle a b) as [es ok] end;
    cbn; split; intros ->; reflexivity.
Qed.

Lemma qle_refl a : qle a a = true.
Proof. unfold qle. apply Qle_bool_iff. apply Qle_refl. Qed.
Lemma qle_trans a b c : qle a b = true -> qle b c = true -> qle a c = true.
Proof. unfold qle. rewrite !Qle_bool_iff. apply Qle_trans. Qed.
