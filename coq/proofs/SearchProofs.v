(* SearchProofs.v — C05: the Armijo line search of GlobalizedNewtonMethod.step (LineSearch.v) only ever builds
   trial points inside the box, hands on a point inside the box, and that point is (component-wise equal to) the
   trial point whose merit it tested; the search returns the FIRST accepted step length 2^-k, k < 30, and fails
   (the code raises) exactly when all 30 trials are rejected. *)
From Verif Require Import LineSearch VecLemmas ImplicitProofs StepProofs.
From Coq Require Import Qpower Lqa Lia.

(* ---- one component: np.clip(x - dx, l, u) is in [l, u], and is what StepResult computes from the same dx ---- *)
Lemma xn1_is_clip x dx l u : bnd_le l u = true -> fst (xn1 x dx l u) == clip_b (x - dx) l u.
Proof.
  intros H. unfold xn1, clip_b.
  destruct l as [a|], u as [b|]; cbn in *.
  - destruct (qlt (x - dx) a) eqn:E1.
    + destruct (qlt b a) eqn:E2; qcases; [lra|]. cbn.
      destruct (qmax_spec (x - dx) a) as [[A1 A2]|[A1 A2]]; rewrite A2; [|lra].
      destruct (qmin_spec a b) as [[B1 B2]|[B1 B2]]; rewrite B2; [reflexivity|lra].
    + destruct (qlt b (x - dx)) eqn:E2; qcases; cbn.
      * destruct (qmax_spec (x - dx) a) as [[A1 A2]|[A1 A2]]; rewrite A2.
        -- destruct (qmin_spec a b) as [[B1 B2]|[B1 B2]]; rewrite B2; lra.
        -- destruct (qmin_spec (x - dx) b) as [[B1 B2]|[B1 B2]]; rewrite B2; lra.
      * destruct (qmax_spec (x - dx) a) as [[A1 A2]|[A1 A2]]; rewrite A2.
        -- destruct (qmin_spec a b) as [[B1 B2]|[B1 B2]]; rewrite B2; lra.
        -- destruct (qmin_spec (x - dx) b) as [[B1 B2]|[B1 B2]]; rewrite B2; lra.
  - destruct (qlt (x - dx) a) eqn:E1; qcases; cbn;
      destruct (qmax_spec (x - dx) a) as [[A1 A2]|[A1 A2]]; rewrite A2; lra.
  - destruct (qlt b (x - dx)) eqn:E2; qcases; cbn;
      destruct (qmin_spec (x - dx) b) as [[B1 B2]|[B1 B2]]; rewrite B2; lra.
  - reflexivity.
Qed.

(* ---- every trial point is in the box, for every direction and step length ---- *)
Lemma clip_vec_in_box : forall (lb ub : list bnd) (v : vec),
  Forall2 (fun l u => bnd_le l u = true) lb ub ->
  in_box lb ub (map3 clip_b v lb ub) = true.
Proof.
  intros lb ub v HF. unfold in_box. revert v.
  induction HF as [|l u lbs ubs Hlu Hrest IH]; intros [|v0 v]; cbn; auto.
  destruct (clip_b_in_box v0 l u Hlu) as [A B]. rewrite A, B. cbn. apply IH.
Qed.

Theorem trial_point_in_box (P : problem) x y dx0 dy0 alpha :
  Forall2 (fun l u => bnd_le l u = true) (var_lb P) (var_ub P) ->
  in_box (var_lb P) (var_ub P) (fst (trial_point P x y dx0 dy0 alpha)) = true.
Proof. intros HF. unfold trial_point. cbn [fst]. apply clip_vec_in_box. exact HF. Qed.

(* ---- the search ---- *)
Section Search.
  Variable P : problem.
  Variables xh yh : vec.
  Variable dt rho : Q.
  Variable kind : solver_kind.
  Variable tau : option Q.
  Variable tol : Q.

  Fixpoint halves (k : nat) (a : Q) : Q := match k with O => a | S k' => halves k' ((1 # 2) * a) end.

  Lemma halves_value k a : halves k a == a * (1 # 2) ^ Z.of_nat k.
  Proof.
    revert a; induction k as [|k IH]; intros a.
    - cbn. ring.
    - cbn [halves]. rewrite IH. rewrite Nat2Z.inj_succ. unfold Z.succ. rewrite Qpower_plus by (intro X; discriminate X).
      change ((1 # 2) ^ 1) with (1 # 2). ring.
  Qed.

  Notation acc := (accepts P xh yh dt rho kind tol).
  Notation srch := (search P xh yh dt rho kind tol).

  (* Some alpha: alpha = a / 2^k for the FIRST k < fuel whose trial is accepted *)
  Theorem search_some fuel res ip x y dx0 dy0 a alpha :
    srch fuel res ip x y dx0 dy0 a = Some alpha ->
    exists k, (k < fuel)%nat /\ alpha = halves k a
              /\ acc res ip x y dx0 dy0 alpha = true
              /\ forall j, (j < k)%nat -> acc res ip x y dx0 dy0 (halves j a) = false.
  Proof.
    revert a; induction fuel as [|f IH]; intros a H; cbn [search] in H; [discriminate|].
    destruct (acc res ip x y dx0 dy0 a) eqn:E.
    - injection H as <-. exists 0%nat. repeat split; try lia; auto.
    - destruct (IH _ H) as (k & Hk & Ha & Hacc & Hbefore).
      exists (S k). repeat split; try lia; auto.
      intros [|j] Hj; cbn [halves]; [exact E|]. apply Hbefore. lia.
  Qed.

  (* None (the code raises "Line search failed to converge") exactly when every one of the fuel trials fails *)
  Theorem search_none fuel res ip x y dx0 dy0 a :
    srch fuel res ip x y dx0 dy0 a = None <->
    forall j, (j < fuel)%nat -> acc res ip x y dx0 dy0 (halves j a) = false.
  Proof.
    revert a; induction fuel as [|f IH]; intros a; cbn [search].
    - split; auto. intros _ j Hj; lia.
    - destruct (acc res ip x y dx0 dy0 a) eqn:E.
      + split; [discriminate|]. intros H. specialize (H 0%nat). cbn [halves] in H. rewrite E in H. discriminate H. lia.
      + rewrite IH. split.
        * intros H [|j] Hj; cbn [halves]; [exact E|]. apply H. lia.
        * intros H j Hj. apply (H (S j)). lia.
  Qed.

  (* what "accepted" means *)
  Theorem accepts_spec res ip x y dx0 dy0 alpha :
    acc res ip x y dx0 dy0 alpha = true <->
    let '(xt, yt) := trial_point P x y dx0 dy0 alpha in
    merit P xh yh dt rho kind xt yt <= tol
    \/ merit P xh yh dt rho kind xt yt <= res + c_1e4 * alpha * ip.
  Proof.
    unfold accepts. destruct (trial_point P x y dx0 dy0 alpha) as [xt yt].
    rewrite Bool.orb_true_iff, !qle_iff. reflexivity.
  Qed.

  (* ---- the whole step ---- *)
  Notation gstep := (globalized_step P xh yh dt rho kind tau tol).

  (* whatever the linear solver answered, a step that returns hands on a point inside the box *)
  Theorem globalized_step_in_box x y sol M r dx dy xn yn :
    Forall2 (fun l u => bnd_le l u = true) (var_lb P) (var_ub P) ->
    gstep x y sol = (M, r, Some (dx, dy, xn, yn)) ->
    in_box (var_lb P) (var_ub P) xn = true.
  Proof.
    intros HF. unfold globalized_step, newton_step, solve_step.
    destruct (post _ _ _ _ _ _ _ _ _ _) as [dx0 dy0].
    pose proof (step_result_in_box P x y dx0 dy0 HF) as B0.
    destruct (step_result P x y dx0 dy0) as [[[dxa dya] xna] yna].
    destruct (qle _ tol).
    - intros H. injection H as _ _ _ _ <- _. exact B0.
    - destruct (search _ _ _ _ _ _ _ _ _ _ _ _ _ _ _) as [alpha|]; [|discriminate].
      pose proof (step_result_in_box P x y (vscale alpha dxa) (vscale alpha dya) HF) as B1.
      destruct (step_result P x y (vscale alpha dxa) (vscale alpha dya)) as [[[dxb dyb] xnb] ynb].
      intros H. injection H as _ _ _ _ <- _. exact B1.
  Qed.
End Search.

(* the point StepResult builds from the accepted (alpha dx0, alpha dy0) is the trial point that was tested *)
Lemma step_result_is_trial (P : problem) x y dx0 dy0 alpha :
  Forall2 (fun l u => bnd_le l u = true) (var_lb P) (var_ub P) ->
  let '(_, _, xn, yn) := step_result P x y (vscale alpha dx0) (vscale alpha dy0) in
  let '(xt, yt) := trial_point P x y dx0 dy0 alpha in
  veq xn xt /\ yn = yt.
Proof.
  intros HF. unfold step_result, trial_point. split; [|reflexivity].
  generalize (vscale alpha dx0) as d. revert x.
  induction HF as [|l u lbs ubs Hlu Hrest IH]; intros [|x0 x] [|d0 d]; cbn; try constructor.
  - rewrite <- (xn1_is_clip x0 d0 l u Hlu). destruct (xn1 x0 d0 l u); reflexivity.
  - apply IH.
Qed.

(* the whole step, when the search runs (residual above newton_tol): the step handed on is the FIRST of the trials
   alpha = 1, 1/2, ..., 2^-29 that passes the test, and its point is the trial point that was tested *)
Theorem globalized_step_spec (P : problem) xh yh dt rho kind tau tol x y sol M r dx dy xn yn :
  Forall2 (fun l u => bnd_le l u = true) (var_lb P) (var_ub P) ->
  globalized_step P xh yh dt rho kind tau tol x y sol = (M, r, Some (dx, dy, xn, yn)) ->
  qle (merit P xh yh dt rho kind x y) tol = false ->
  let '(_, _, (dx0, dy0, _, _)) := newton_step P xh yh dt rho kind Full tau x y sol in
  let res := merit P xh yh dt rho kind x y in
  let ip := search_ip P xh yh dt rho kind x y dx0 dy0 in
  exists k, (k < max_trials)%nat
    /\ accepts P xh yh dt rho kind tol res ip x y dx0 dy0 (halves k 1) = true
    /\ (forall j, (j < k)%nat -> accepts P xh yh dt rho kind tol res ip x y dx0 dy0 (halves j 1) = false)
    /\ let '(xt, yt) := trial_point P x y dx0 dy0 (halves k 1) in veq xn xt /\ yn = yt.
Proof.
  intros HF H Hres. unfold globalized_step in H.
  destruct (newton_step P xh yh dt rho kind Full tau x y sol) as [[M0 r0] [[[dx0 dy0] xn0] yn0]].
  rewrite Hres in H. cbv zeta.
  destruct (search P xh yh dt rho kind tol max_trials _ _ x y dx0 dy0 1) as [alpha|] eqn:ES; [|discriminate].
  destruct (search_some P xh yh dt rho kind tol _ _ _ _ _ _ _ _ _ ES) as (k & Hk & Ha & Hacc & Hbefore).
  exists k. subst alpha. split; [exact Hk|]. split; [exact Hacc|]. split; [exact Hbefore|].
  pose proof (step_result_is_trial P x y dx0 dy0 (halves k 1) HF) as T.
  destruct (step_result P x y (vscale (halves k 1) dx0) (vscale (halves k 1) dy0)) as [[[dxb dyb] xnb] ynb].
  injection H as _ _ _ _ <- <-. exact T.
Qed.

(* the step raises exactly when the residual is above newton_tol and all 30 trials are rejected *)
Theorem globalized_step_raises (P : problem) xh yh dt rho kind tau tol x y sol :
  snd (globalized_step P xh yh dt rho kind tau tol x y sol) = None <->
  qle (merit P xh yh dt rho kind x y) tol = false
  /\ let '(_, _, (dx0, dy0, _, _)) := newton_step P xh yh dt rho kind Full tau x y sol in
     forall j, (j < max_trials)%nat ->
       accepts P xh yh dt rho kind tol (merit P xh yh dt rho kind x y) (search_ip P xh yh dt rho kind x y dx0 dy0)
               x y dx0 dy0 (halves j 1) = false.
Proof.
  unfold globalized_step.
  destruct (newton_step P xh yh dt rho kind Full tau x y sol) as [[M0 r0] [[[dx0 dy0] xn0] yn0]].
  destruct (qle (merit P xh yh dt rho kind x y) tol) eqn:Hres.
  - cbn. split; [discriminate|]. intros [X _]; discriminate X.
  - rewrite <- search_none.
    destruct (search P xh yh dt rho kind tol max_trials _ _ x y dx0 dy0 1) as [alpha|] eqn:ES; cbn.
    + split; [discriminate|]. intros [_ X]; discriminate X.
    + split; auto.
Qed.

(* ---- the trial points are convex combinations of two points of the box: the direction the search uses is the
   dx StepResult has already corrected (x - dx0 is in the box), so for 0 <= alpha <= 1 the clipping of the trial
   point never moves it.  (Removing that clipping from the code changes nothing; the box invariant of the trial
   points does not rest on it.) ---- *)
Lemma convex_in_box x d l u a :
  lb_le l x = true -> le_ub x u = true -> lb_le l (x - d) = true -> le_ub (x - d) u = true ->
  0 <= a -> a <= 1 ->
  lb_le l (x - a * d) = true /\ le_ub (x - a * d) u = true.
Proof.
  intros H1 H2 H3 H4 Ha0 Ha1. split.
  - destruct l as [lo|]; cbn in *; auto. qcases. apply qle_iff.
    assert (A : 0 <= (1 - a) * (x - lo)) by (apply Qmult_le_0_compat; lra).
    assert (B : 0 <= a * (x - d - lo)) by (apply Qmult_le_0_compat; lra).
    lra.
  - destruct u as [hi|]; cbn in *; auto. qcases. apply qle_iff.
    assert (A : 0 <= (1 - a) * (hi - x)) by (apply Qmult_le_0_compat; lra).
    assert (B : 0 <= a * (hi - (x - d))) by (apply Qmult_le_0_compat; lra).
    lra.
Qed.

Lemma halves_unit k : 0 < halves k 1 /\ halves k 1 <= 1.
Proof.
  assert (G : forall k a, 0 < a -> a <= 1 -> 0 < halves k a /\ halves k a <= 1).
  { clear k. induction k as [|k IH]; intros a H0 H1; cbn [halves]; [split; assumption|]. apply IH; lra. }
  apply G; lra.
Qed.

Theorem trial_point_unclipped (P : problem) x y dx dy k :
  Forall2 (fun l u => bnd_le l u = true) (var_lb P) (var_ub P) ->
  length x = length (var_lb P) -> length dx = length x ->
  in_box (var_lb P) (var_ub P) x = true ->
  let '(dx0, dy0, _, _) := step_result P x y dx dy in
  veq (fst (trial_point P x y dx0 dy0 (halves k 1))) (vsub x (vscale (halves k 1) dx0)).
Proof.
  intros HF Hlx Hld HB. unfold step_result, trial_point. cbn [fst].
  destruct (halves_unit k) as [A0 A1]. generalize dependent (halves k 1). intros a A0 A1.
  unfold in_box in HB. revert x dx Hlx Hld HB.
  induction HF as [|l u lbs ubs Hlu Hrest IH]; intros [|x0 x] [|d0 dx] Hlx Hld HB; cbn in *; try discriminate; try constructor.
  - apply Bool.andb_true_iff in HB. destruct HB as [HB0 HB]. apply Bool.andb_true_iff in HB0. destruct HB0 as [L0 U0].
    pose proof (xn1_in_box x0 d0 l u Hlu) as X. destruct (xn1 x0 d0 l u) as [xn d'] eqn:E. destruct X as (X1 & X2 & X3).
    cbn [snd].
    assert (L1 : lb_le l (x0 - d') = true).
    { destruct l as [lo|]; cbn in *; auto. qcases. apply qle_iff. rewrite <- X3. exact X1. }
    assert (U1 : le_ub (x0 - d') u = true).
    { destruct u as [hi|]; cbn in *; auto. qcases. apply qle_iff. rewrite <- X3. exact X2. }
    destruct (convex_in_box x0 d' l u a L0 U0 L1 U1) as [C1 C2]; try lra.
    apply clip_b_inside; assumption.
  - apply Bool.andb_true_iff in HB. destruct HB as [_ HB]. apply IH; auto; lia.
Qed.

(* ---- an observation, not one of the twenty properties: the acceptance test adds 1e-4 alpha ip where the Armijo
   rule subtracts it (the step is x - dx, so the slope of the merit along it is -ip).  The search therefore accepts
   steps that INCREASE the merit: f = x^2/2 on [-1, 3], dt = rho = 1, from x = 1 the direction 1 + 2^-14 is accepted
   at full length although the merit goes from 1/2 to 1/2 + 2^-13 + 2^-27. ---- *)
Definition obs_problem : problem := quad_problem (mk_qspec [[1]] [0] 0 [] [] [] [Some (-(1))] [Some 3] [] []).
Example search_accepts_merit_increase :
  match snd (globalized_step obs_problem [1] [] 1 1 KStandard None c_1e8 [1] [] [1 + (1 # 16384)]) with
  | Some (dx, dy, xn, yn) =>
      qlt (merit obs_problem [1] [] 1 1 KStandard [1] []) (merit obs_problem [1] [] 1 1 KStandard xn yn)
      && qeqb (merit obs_problem [1] [] 1 1 KStandard [1] []) (1 # 2)
      && veqb dx [1 + (1 # 16384)]
  | None => false
  end = true.
Proof. vm_compute. reflexivity. Qed.

(* ---- C14 for the Globalized variant: it hands the step solver the system of the Full variant, and when the full
   step passes the test at once the point it hands on is the Full variant's point ---- *)
Lemma xn1_idem x d l u : bnd_le l u = true ->
  let '(xn, d') := xn1 x d l u in
  fst (xn1 x (1 * d') l u) == xn.
Proof.
  intros H. pose proof (xn1_in_box x d l u H) as X. destruct (xn1 x d l u) as [xn d']. destruct X as (X1 & X2 & X3).
  assert (E : x - 1 * d' == xn) by (rewrite X3; ring).
  rewrite xn1_inside.
  - cbn [fst]. exact E.
  - destruct l as [a|]; cbn in *; auto. qcases. apply qle_iff. rewrite E. exact X1.
  - destruct u as [b|]; cbn in *; auto. qcases. apply qle_iff. rewrite E. exact X2.
Qed.

Lemma step_result_idem (P : problem) x y dx dy :
  Forall2 (fun l u => bnd_le l u = true) (var_lb P) (var_ub P) ->
  let '(dx0, dy0, xn0, yn0) := step_result P x y dx dy in
  let '(_, _, xn1_, yn1_) := step_result P x y (vscale 1 dx0) (vscale 1 dy0) in
  veq xn1_ xn0 /\ veq yn1_ yn0.
Proof.
  intros HF. unfold step_result. split.
  - revert x dx. induction HF as [|l u lbs ubs Hlu Hrest IH]; intros [|x0 x] [|d0 dx]; cbn; try constructor.
    + pose proof (xn1_idem x0 d0 l u Hlu) as X. destruct (xn1 x0 d0 l u) as [xn d']. cbn [snd fst]. exact X.
    + apply IH.
  - clear HF. revert dy. induction y as [|y0 y IH]; intros [|e0 dy]; cbn; try constructor.
    + ring.
    + apply IH.
Qed.

Theorem globalized_system_is_full (P : problem) xh yh dt rho kind tau tol x y sol :
  let '(M, r, _) := globalized_step P xh yh dt rho kind tau tol x y sol in
  let '(M', r', _) := newton_step P xh yh dt rho kind Full tau x y sol in
  M = M' /\ r = r'.
Proof.
  unfold globalized_step.
  destruct (newton_step P xh yh dt rho kind Full tau x y sol) as [[M0 r0] [[[dx0 dy0] xn0] yn0]].
  destruct (qle _ tol); [split; reflexivity|].
  destruct (search _ _ _ _ _ _ _ _ _ _ _ _ _ _ _); split; reflexivity.
Qed.

Theorem globalized_full_step_when_accepted (P : problem) xh yh dt rho kind tau tol x y sol :
  Forall2 (fun l u => bnd_le l u = true) (var_lb P) (var_ub P) ->
  let '(_, _, (dx0, dy0, xn0, yn0)) := newton_step P xh yh dt rho kind Full tau x y sol in
  qle (merit P xh yh dt rho kind x y) tol = true
  \/ accepts P xh yh dt rho kind tol (merit P xh yh dt rho kind x y) (search_ip P xh yh dt rho kind x y dx0 dy0)
             x y dx0 dy0 1 = true ->
  match snd (globalized_step P xh yh dt rho kind tau tol x y sol) with
  | Some (_, _, xn, yn) => veq xn xn0 /\ veq yn yn0
  | None => False
  end.
Proof.
  intros HF. unfold globalized_step, newton_step, solve_step.
  destruct (post _ _ _ _ _ _ _ _ _ _) as [dxs dys].
  pose proof (step_result_idem P x y dxs dys HF) as I.
  destruct (step_result P x y dxs dys) as [[[dx0 dy0] xn0] yn0].
  intros [Hr|Ha].
  - rewrite Hr. cbn [snd]. split; apply veq_refl.
  - destruct (qle _ tol); [cbn [snd]; split; apply veq_refl|].
    unfold max_trials. cbn [search]. rewrite Ha. cbn [snd].
    destruct (step_result P x y (vscale 1 dx0) (vscale 1 dy0)) as [[[dxb dyb] xnb] ynb]. exact I.
Qed.
