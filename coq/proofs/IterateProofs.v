(* IterateProofs.v — what total_res <= tol means component by component (C01, C13): bound multipliers
   and their signs, stationarity, violations.  For an arbitrary problem (arbitrary callbacks). *)
From Verif Require Import Iterate VecLemmas.
From Coq Require Import Lqa Lia.

(* ---------------- one component ---------------- *)
Section Scalar.
  Variable atol : Q.
  Notation nl := (near_lower atol).
  Notation nu := (near_upper atol).

  (* d_j: sign convention of the Solver docstring *)
  Lemma bdual1_interior xi l u r : nl xi l = false -> nu xi u = false -> bdual1 atol xi l u r = 0.
  Proof. intros A B. unfold bdual1. rewrite A, B. reflexivity. Qed.
  Lemma bdual1_lower xi l u r : nl xi l = true -> nu xi u = false -> bdual1 atol xi l u r <= 0.
  Proof. intros A B. unfold bdual1. rewrite A, B. cbn. apply qmin_le_r. Qed.
  Lemma bdual1_upper xi l u r : nl xi l = false -> nu xi u = true -> 0 <= bdual1 atol xi l u r.
  Proof. intros A B. unfold bdual1. rewrite A, B. cbn. apply qmax_ge_r. Qed.
  Lemma bdual1_both xi l u r : nl xi l = true -> nu xi u = true -> bdual1 atol xi l u r = r.
  Proof. intros A B. unfold bdual1. rewrite A, B. reflexivity. Qed.

  (* stationarity: G = (g + J^T y)_j, d = bdual1 .. (-G); |G + d| <= tol says exactly:
     interior: |G| <= tol; at lower only: G >= -tol; at upper only: G <= tol; at both: nothing *)
  Lemma stat1_interior xi l u G tol : nl xi l = false -> nu xi u = false ->
    qabs (G + bdual1 atol xi l u (- G)) <= tol -> - tol <= G /\ G <= tol.
  Proof. intros A B H. rewrite (bdual1_interior _ _ _ _ A B) in H. apply qabs_le in H. lra. Qed.
  Lemma stat1_lower xi l u G tol : nl xi l = true -> nu xi u = false ->
    qabs (G + bdual1 atol xi l u (- G)) <= tol -> - tol <= G.
  Proof.
    intros A B H. unfold bdual1 in H. rewrite A, B in H. cbn in H. apply qabs_le in H.
    destruct (qmin_spec (- G) 0) as [[? E]|[? E]]; rewrite E in H; lra.
  Qed.
  Lemma stat1_upper xi l u G tol : nl xi l = false -> nu xi u = true ->
    qabs (G + bdual1 atol xi l u (- G)) <= tol -> G <= tol.
  Proof.
    intros A B H. unfold bdual1 in H. rewrite A, B in H. cbn in H. apply qabs_le in H.
    destruct (qmax_spec (- G) 0) as [[? E]|[? E]]; rewrite E in H; lra.
  Qed.
  (* and conversely the residual vanishes when the sign conditions hold exactly *)
  Lemma stat1_zero xi l u G :
    (nl xi l = false -> nu xi u = false -> G == 0) ->
    (nl xi l = true -> nu xi u = false -> 0 <= G) ->
    (nl xi l = false -> nu xi u = true -> G <= 0) ->
    G + bdual1 atol xi l u (- G) == 0.
  Proof.
    intros A B C. unfold bdual1. destruct (nl xi l) eqn:E1, (nu xi u) eqn:E2; cbn.
    - ring.
    - specialize (B eq_refl eq_refl). destruct (qmin_spec (- G) 0) as [[? E]|[? E]]; rewrite E; lra.
    - specialize (C eq_refl eq_refl). destruct (qmax_spec (- G) 0) as [[? E]|[? E]]; rewrite E; lra.
    - specialize (A eq_refl eq_refl). lra.
  Qed.

  (* being within active_tol of a bound, in terms of the bound *)
  Lemma near_lower_spec xi l : nl xi l = true -> exists a, l = Some a /\ a - atol <= xi /\ xi <= a + atol.
  Proof. destruct l as [a|]; cbn; [|discriminate]. intros H. qcases. apply qabs_le in H. exists a. split; auto. lra. Qed.
  Lemma near_upper_spec xi u : nu xi u = true -> exists b, u = Some b /\ b - atol <= xi /\ xi <= b + atol.
  Proof. destruct u as [b|]; cbn; [|discriminate]. intros H. qcases. apply qabs_le in H. exists b. split; auto. lra. Qed.
End Scalar.

(* ---------------- vectors ---------------- *)
Lemma zip4_nth (f : Q -> bnd -> bnd -> Q -> Q) (x : vec) (lb ub : list bnd) (r : vec) j :
  (j < length x)%nat -> (j < length lb)%nat -> (j < length ub)%nat -> (j < length r)%nat ->
  nth j (map (fun t => let '(xi, l, u, ri) := t in f xi l u ri)
             (map2 pair (map2 pair (map2 pair x lb) ub) r)) 0
  = f (nth j x 0) (nth j lb None) (nth j ub None) (nth j r 0).
Proof.
  revert lb ub r j. induction x as [|x0 x IH]; intros [|l lb] [|u ub] [|r0 r] [|j] H1 H2 H3 H4; cbn in *; try lia; auto.
  apply IH; lia.
Qed.

Section Vector.
  Variable P : problem.
  Variable atol : Q.
  Variables x y : vec.

  Record wf : Prop := {
    wf_x : length x = nvars P;
    wf_lb : length (var_lb P) = nvars P;
    wf_ub : length (var_ub P) = nvars P;
    wf_grad : length (p_grad P x) = nvars P;
    wf_jac : Forall (fun r => length r = nvars P) (p_jac P x)
  }.
  Hypothesis W : wf.

  Lemma lag_grad_length : length (lag_grad P x y) = nvars P.
  Proof.
    destruct W. unfold lag_grad, it_grad, it_jac, n_. rewrite vadd_length, tmvec_length by auto. lia.
  Qed.

  Lemma bounds_dual_nth j : (j < nvars P)%nat ->
    nth j (bounds_dual P atol x y) 0
    = bdual1 atol (nth j x 0) (nth j (var_lb P) None) (nth j (var_ub P) None) (nth j (vneg (lag_grad P x y)) 0).
  Proof.
    intros Hj. destruct W. unfold bounds_dual. apply zip4_nth; try lia.
    unfold vneg. rewrite map_length, lag_grad_length. lia.
  Qed.

  Lemma bounds_dual_length : length (bounds_dual P atol x y) = nvars P.
  Proof.
    destruct W. unfold bounds_dual. rewrite map_length, !map2_length. unfold vneg. rewrite map_length, lag_grad_length. lia.
  Qed.

  (* stat_res <= tol, component j *)
  Lemma stat_res_nth tol j : stat_res P atol x y <= tol -> (j < nvars P)%nat ->
    qabs (nth j (lag_grad P x y) 0
          + bdual1 atol (nth j x 0) (nth j (var_lb P) None) (nth j (var_ub P) None) (- nth j (lag_grad P x y) 0)) <= tol.
  Proof.
    intros H Hj. unfold stat_res in H.
    pose proof (norminf_le_nth _ _ j H) as N.
    rewrite vadd_length, lag_grad_length, bounds_dual_length in N. specialize (N ltac:(lia)).
    rewrite vadd_nth in N by (rewrite ?lag_grad_length, ?bounds_dual_length; lia).
    rewrite bounds_dual_nth in N by exact Hj.
    assert (E : nth j (vneg (lag_grad P x y)) 0 == - nth j (lag_grad P x y) 0) by apply vneg_nth.
    (* bdual1 respects == in its last argument up to ==; go through the cases *)
    revert N. unfold bdual1.
    destruct (near_lower atol (nth j x 0) (nth j (var_lb P) None)), (near_upper atol (nth j x 0) (nth j (var_ub P) None));
      cbn; intros N; apply qabs_le in N; apply qabs_le.
    - lra.
    - unfold qmin in *.
      destruct (qle (nth j (vneg (lag_grad P x y)) 0) 0) eqn:E1, (qle (- nth j (lag_grad P x y) 0) 0) eqn:E2; qcases; lra.
    - unfold qmax in *.
      destruct (qle (nth j (vneg (lag_grad P x y)) 0) 0) eqn:E1, (qle (- nth j (lag_grad P x y) 0) 0) eqn:E2; qcases; lra.
    - lra.
  Qed.

  (* cons_violation <= tol, row i *)
  Lemma cons_violation_nth tol i : cons_violation P x <= tol -> (i < length (p_cons P x))%nat ->
    - tol <= nth i (p_cons P x) 0 /\ nth i (p_cons P x) 0 <= tol.
  Proof. intros H Hi. unfold cons_violation, it_cons in H. apply qabs_le. now apply norminf_le_nth. Qed.

  (* total_res <= tol splits into its three parts *)
  Lemma total_res_parts tol : total_res P atol x y <= tol ->
    cons_violation P x <= tol /\ bound_violation P x <= tol /\ stat_res P atol x y <= tol.
  Proof.
    unfold total_res. intros H.
    pose proof (qmax_ge_l (qmax (cons_violation P x) (bound_violation P x)) (stat_res P atol x y)).
    pose proof (qmax_ge_r (qmax (cons_violation P x) (bound_violation P x)) (stat_res P atol x y)).
    pose proof (qmax_ge_l (cons_violation P x) (bound_violation P x)).
    pose proof (qmax_ge_r (cons_violation P x) (bound_violation P x)).
    repeat split; lra.
  Qed.
End Vector.
