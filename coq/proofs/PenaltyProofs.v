(* PenaltyProofs.v — every penalty policy only ever raises its penalty (C16). *)
From Verif Require Import Penalty VecLemmas.
From Coq Require Import Lqa Lia.

Lemma filter_insert_cases {T} (leb : T -> T -> bool) es p :
  (snd (filter_insert leb es p) = true) \/ (filter_insert leb es p = (es, false)).
Proof. unfold filter_insert. destruct (existsb _ es); cbn; auto. Qed.

(* one update of any policy: the policy's own rho never decreases, the value it announces is its
   own rho afterwards, and the constant policy never changes anything *)
Lemma policy_ok : forall pol prm stp d stp' nrho a,
  0 < pp_rho prm -> 0 < ps_rho stp -> (pol = Constant -> ps_rho stp == pp_rho prm) ->
  p_update pol prm stp d = PRes stp' nrho a ->
  ps_rho stp <= ps_rho stp' /\ nrho == ps_rho stp' /\ (pol = Constant -> ps_rho stp' == pp_rho prm).
Proof.
  intros pol prm stp d stp' nrho a Hpp Hps Hc H.
  destruct pol; cbn [p_update] in H; unfold keep, with_rho in H.
  - (* Constant *) inversion H; subst. specialize (Hc eq_refl). repeat split; try lra; intros; lra.
  - (* DualNorm *)
    destruct (d_m0 d); [inversion H; subst; repeat split; try lra; discriminate|].
    destruct (negb (qle 0 (d_ynorm d))); [discriminate|].
    destruct (qle (10 * ps_rho stp) (d_ynorm d)).
    + destruct (qlt (ps_rho stp) (qmin (d_ynorm d) (10 * ps_rho stp))) eqn:E; [|discriminate].
      inversion H; subst; cbn. qcases. repeat split; try lra; discriminate.
    + inversion H; subst. repeat split; try lra; discriminate.
  - (* DualEquil *)
    destruct (negb (qle 0 (d_yprod d))); [discriminate|].
    destruct (negb (qle 0 (d_viol d))); [discriminate|].
    destruct (qeqb (d_viol d) 0); [inversion H; subst; repeat split; try lra; discriminate|].
    destruct (qlt (ps_rho stp) (c_001 * d_yprod d / d_viol d)).
    + destruct (qlt (ps_rho stp) (qmax (ps_rho stp * 10) (c_001 * d_yprod d / d_viol d))) eqn:E; [|discriminate].
      inversion H; subst; cbn. qcases. repeat split; try lra; discriminate.
    + inversion H; subst. repeat split; try lra; discriminate.
  - (* Pareto *)
    destruct (qle (d_viol d) (pp_opt_tol prm)); [inversion H; subst; repeat split; try lra; discriminate|].
    destruct (qle (d_infeas_inf d) (pp_infeas_tol prm)); [inversion H; subst; repeat split; try lra; discriminate|].
    destruct (d_bound d) as [b|]; [|discriminate].
    destruct (qle (ps_rho stp) (qmax (qmin (ps_rho stp * 10) b) (ps_rho stp))) eqn:E; [|discriminate].
    inversion H; subst; cbn. qcases. repeat split; try lra; discriminate.
  - (* ObjFilter *)
    destruct (filter_insert qle (ps_entries stp) (d_entry d)) as [es ok].
    destruct ok; inversion H; subst; cbn; repeat split; try lra; discriminate.
  - (* LagFilter *)
    destruct (filter_insert qle (ps_entries stp) (d_lag_entry d (ps_rho stp))) as [es ok].
    destruct ok; inversion H; subst; cbn; repeat split; try lra; discriminate.
Qed.

(* no internal assertion of penalty.py can fire when the penalty is positive and the data are the
   norms / products they claim to be (non-negative), and ParetoDecrease's bound is finite *)
Lemma policy_no_assert : forall pol prm stp d w,
  0 < ps_rho stp -> 0 <= d_ynorm d -> 0 <= d_yprod d -> 0 <= d_viol d ->
  (pol = Pareto -> d_bound d <> None) ->
  p_update pol prm stp d <> PAssert w.
Proof.
  intros pol prm stp d w Hps Hy Hp Hv Hb H.
  destruct pol; cbn [p_update] in H; unfold keep, with_rho in H.
  - discriminate.
  - destruct (d_m0 d); [discriminate|].
    destruct (qle 0 (d_ynorm d)) eqn:E0; cbn [negb] in H; [|qcases; lra].
    destruct (qle (10 * ps_rho stp) (d_ynorm d)) eqn:E1; [|discriminate].
    destruct (qlt (ps_rho stp) (qmin (d_ynorm d) (10 * ps_rho stp))) eqn:E; [discriminate|].
    qcases. destruct (qmin_spec (d_ynorm d) (10 * ps_rho stp)) as [[? R]|[? R]]; rewrite R in E; lra.
  - destruct (qle 0 (d_yprod d)) eqn:E0; cbn [negb] in H; [|qcases; lra].
    destruct (qle 0 (d_viol d)) eqn:E1; cbn [negb] in H; [|qcases; lra].
    destruct (qeqb (d_viol d) 0); [discriminate|].
    destruct (qlt (ps_rho stp) (c_001 * d_yprod d / d_viol d)) eqn:E2; [|discriminate].
    destruct (qlt (ps_rho stp) (qmax (ps_rho stp * 10) (c_001 * d_yprod d / d_viol d))) eqn:E; [discriminate|].
    qcases. pose proof (qmax_ge_l (ps_rho stp * 10) (c_001 * d_yprod d / d_viol d)). lra.
  - destruct (qle (d_viol d) (pp_opt_tol prm)); [discriminate|].
    destruct (qle (d_infeas_inf d) (pp_infeas_tol prm)); [discriminate|].
    destruct (d_bound d) as [b|] eqn:EB; [|apply Hb; auto].
    destruct (qle (ps_rho stp) (qmax (qmin (ps_rho stp * 10) b) (ps_rho stp))) eqn:E; [discriminate|].
    qcases. pose proof (qmax_ge_r (qmin (ps_rho stp * 10) b) (ps_rho stp)). lra.
  - destruct (filter_insert qle (ps_entries stp) (d_entry d)) as [es ok]. destruct ok; discriminate.
  - destruct (filter_insert qle (ps_entries stp) (d_lag_entry d (ps_rho stp))) as [es ok]. destruct ok; discriminate.
Qed.

(* the dual-norm policy: at most a factor of ten per update, and never beyond max(rho, ||y||_inf) *)
Lemma dualnorm_bounds prm stp d stp' nrho a :
  0 < ps_rho stp -> p_update DualNorm prm stp d = PRes stp' nrho a ->
  a = true /\ ps_rho stp' <= 10 * ps_rho stp
  /\ (ps_rho stp' = ps_rho stp \/ (d_m0 d = false /\ ps_rho stp' <= d_ynorm d)).
Proof.
  intros Hps H. cbn [p_update] in H. unfold keep, with_rho in H.
  destruct (d_m0 d); [inversion H; subst; repeat split; try lra; auto|].
  destruct (negb (qle 0 (d_ynorm d))); [discriminate|].
  destruct (qle (10 * ps_rho stp) (d_ynorm d)).
  - destruct (qlt (ps_rho stp) (qmin (d_ynorm d) (10 * ps_rho stp))) eqn:E; [|discriminate].
    inversion H; subst; cbn. split; auto. split; [apply qmin_le_r|]. right. split; auto. apply qmin_le_l.
  - inversion H; subst. repeat split; try lra; auto.
Qed.

(* the constant policy never vetoes and always announces params.rho *)
Lemma constant_spec prm stp d : p_update Constant prm stp d = PRes stp (pp_rho prm) true.
Proof. reflexivity. Qed.
