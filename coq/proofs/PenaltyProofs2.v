(* PenaltyProofs2.v — the remaining per-policy bounds and the whole-history statement of C16 at policy
   level: over ANY sequence of update data the policy's penalty is positive and non-decreasing. *)
From Verif Require Import Penalty VecLemmas PenaltyProofs CorrPenalty.
From Coq Require Import Lqa Lia.

(* ParetoDecrease: never vetoes, at most a factor of ten per update, never beyond max(rho, bound) *)
Lemma pareto_bounds prm stp d stp' nrho a :
  0 < ps_rho stp -> p_update Pareto prm stp d = PRes stp' nrho a ->
  a = true /\ ps_rho stp' <= ps_rho stp * 10
  /\ (ps_rho stp' = ps_rho stp
      \/ exists b, d_bound d = Some b /\ ps_rho stp' <= qmax b (ps_rho stp)
                   /\ qle (d_viol d) (pp_opt_tol prm) = false
                   /\ qle (d_infeas_inf d) (pp_infeas_tol prm) = false).
Proof.
  intros Hps H. cbn [p_update] in H. unfold keep, with_rho in H.
  destruct (qle (d_viol d) (pp_opt_tol prm)) eqn:E1; [inversion H; subst; repeat split; try lra; auto|].
  destruct (qle (d_infeas_inf d) (pp_infeas_tol prm)) eqn:E2; [inversion H; subst; repeat split; try lra; auto|].
  destruct (d_bound d) as [b|]; [|discriminate].
  destruct (qle (ps_rho stp) (qmax (qmin (ps_rho stp * 10) b) (ps_rho stp))) eqn:E; [|discriminate].
  inversion H; subst; cbn. split; auto.
  pose proof (qmin_le_l (ps_rho stp * 10) b) as A1.
  pose proof (qmin_le_r (ps_rho stp * 10) b) as A2.
  split.
  - apply qmax_lub; lra.
  - right. exists b. repeat split; auto.
    apply qmax_lub; [pose proof (qmax_ge_l b (ps_rho stp)); lra | apply qmax_ge_r].
Qed.

(* DualEquilibration: never vetoes; an update that changes the penalty multiplies it by at least ten and
   reaches the equilibration target 0.01 * |y.c| / viol^2-quotient handed in by the caller *)
Lemma dualequil_bounds prm stp d stp' nrho a :
  0 < ps_rho stp -> p_update DualEquil prm stp d = PRes stp' nrho a ->
  a = true
  /\ (ps_rho stp' = ps_rho stp
      \/ (ps_rho stp * 10 <= ps_rho stp' /\ c_001 * d_yprod d / d_viol d <= ps_rho stp'
          /\ ps_rho stp < c_001 * d_yprod d / d_viol d)).
Proof.
  intros Hps H. cbn [p_update] in H. unfold keep, with_rho in H.
  destruct (negb (qle 0 (d_yprod d))); [discriminate|].
  destruct (negb (qle 0 (d_viol d))); [discriminate|].
  destruct (qeqb (d_viol d) 0); [inversion H; subst; split; auto|].
  destruct (qlt (ps_rho stp) (c_001 * d_yprod d / d_viol d)) eqn:E0.
  - destruct (qlt (ps_rho stp) (qmax (ps_rho stp * 10) (c_001 * d_yprod d / d_viol d))) eqn:E; [|discriminate].
    inversion H; subst; cbn. split; auto. right. qcases.
    repeat split; [apply qmax_ge_l | apply qmax_ge_r | exact E0].
  - inversion H; subst. split; auto.
Qed.

(* the filter policies: the only policies that veto; a veto is exactly a tenfold increase with the entries kept,
   an acceptance keeps the penalty *)
Lemma filter_policy_rho pol prm stp d stp' nrho a :
  pol = ObjFilter \/ pol = LagFilter ->
  p_update pol prm stp d = PRes stp' nrho a ->
  (a = true -> ps_rho stp' = ps_rho stp)
  /\ (a = false -> ps_rho stp' = ps_rho stp * 10 /\ ps_entries stp' = ps_entries stp).
Proof.
  intros [-> | ->] H; cbn [p_update] in H.
  - destruct (filter_insert qle (ps_entries stp) (d_entry d)) as [es ok].
    destruct ok; inversion H; subst; cbn; split; intros; try discriminate; auto.
  - destruct (filter_insert qle (ps_entries stp) (d_lag_entry d (ps_rho stp))) as [es ok].
    destruct ok; inversion H; subst; cbn; split; intros; try discriminate; auto.
Qed.

(* only the filter policies can veto a step *)
Lemma veto_only_filters pol prm stp d stp' nrho :
  p_update pol prm stp d = PRes stp' nrho false -> pol = ObjFilter \/ pol = LagFilter.
Proof.
  intros H. destruct pol; auto; exfalso; cbn [p_update] in H; unfold keep, with_rho in H.
  - discriminate.
  - destruct (d_m0 d); [discriminate|].
    destruct (negb (qle 0 (d_ynorm d))); [discriminate|].
    destruct (qle (10 * ps_rho stp) (d_ynorm d)); [|discriminate].
    destruct (qlt (ps_rho stp) (qmin (d_ynorm d) (10 * ps_rho stp))); discriminate.
  - destruct (negb (qle 0 (d_yprod d))); [discriminate|].
    destruct (negb (qle 0 (d_viol d))); [discriminate|].
    destruct (qeqb (d_viol d) 0); [discriminate|].
    destruct (qlt (ps_rho stp) (c_001 * d_yprod d / d_viol d)); [|discriminate].
    destruct (qlt (ps_rho stp) (qmax (ps_rho stp * 10) (c_001 * d_yprod d / d_viol d))); discriminate.
  - destruct (qle (d_viol d) (pp_opt_tol prm)); [discriminate|].
    destruct (qle (d_infeas_inf d) (pp_infeas_tol prm)); [discriminate|].
    destruct (d_bound d) as [b|]; [|discriminate].
    destruct (qle (ps_rho stp) (qmax (qmin (ps_rho stp * 10) b) (ps_rho stp))); discriminate.
Qed.

(* ---- whole histories at policy level ---- *)

(* the policy object fed an arbitrary sequence of update data; stops at the first failed assertion.
   Returns the final state and the announced penalties, oldest first. *)
Fixpoint p_run (pol : policy) (prm : pparams) (st : pstate) (ds : list pdata) : option (pstate * list Q) :=
  match ds with
  | [] => Some (st, [])
  | d :: ds' =>
      match p_update pol prm st d with
      | PRes st' nrho _ =>
          match p_run pol prm st' ds' with
          | Some (fin, rs) => Some (fin, nrho :: rs)
          | None => None
          end
      | PAssert _ => None
      end
  end.

Fixpoint q_nondecr_from (r : Q) (rs : list Q) : Prop :=
  match rs with [] => True | x :: rs' => r <= x /\ q_nondecr_from x rs' end.

Lemma policy_history : forall pol prm ds st fin rs,
  0 < pp_rho prm -> 0 < ps_rho st -> (pol = Constant -> ps_rho st == pp_rho prm) ->
  p_run pol prm st ds = Some (fin, rs) ->
  q_nondecr_from (ps_rho st) rs /\ ps_rho st <= ps_rho fin /\ 0 < ps_rho fin
  /\ length rs = length ds
  /\ (forall r, In r rs -> ps_rho st <= r /\ r <= ps_rho fin)
  /\ (pol = Constant -> forall r, In r rs -> r == pp_rho prm).
Proof.
  intros pol prm ds. induction ds as [|d ds IH]; intros st fin rs Hpp Hps Hc H; cbn [p_run] in H.
  - inversion H; subst. cbn. repeat split; try lra; intros; contradiction.
  - destruct (p_update pol prm st d) as [st' nrho a|w] eqn:E; [|discriminate].
    destruct (p_run pol prm st' ds) as [[fin' rs']|] eqn:E2; [|discriminate].
    inversion H; subst fin' rs. clear H.
    destruct (policy_ok _ _ _ _ _ _ _ Hpp Hps Hc E) as (A1 & A2 & A3).
    assert (Hps' : 0 < ps_rho st') by lra.
    destruct (IH st' fin rs' Hpp Hps' A3 E2) as (B1 & B2 & B3 & B4 & B5 & B6).
    cbn [q_nondecr_from length In].
    split; [split; [lra|]|].
    { destruct rs' as [|x rs'']; cbn in *; auto. destruct B1 as [B1 B1']. split; [lra|exact B1']. }
    split; [lra|]. split; [exact B3|]. split; [lia|]. split.
    + intros r [<- | Hr]; [lra|]. destruct (B5 r Hr). lra.
    + intros Hcst r [<- | Hr]; [rewrite A2; apply A3; exact Hcst | apply B6; auto].
Qed.

(* p_run is the recursion the correspondence unit `penalty` executes against penalty.py (CorrPenalty.update_trace):
   the announced penalties of a successful run are exactly the first components of that trace *)
Lemma p_run_trace : forall pol prm ds st fin rs,
  p_run pol prm st ds = Some (fin, rs) ->
  map (fun o : option (Q * bool * Q * nat) => match o with Some (r, _, _, _) => Some r | None => None end)
      (CorrPenalty.update_trace pol prm st ds) = map Some rs.
Proof.
  intros pol prm ds. induction ds as [|d ds IH]; intros st fin rs H; cbn [p_run CorrPenalty.update_trace] in *.
  - inversion H; subst. reflexivity.
  - destruct (p_update pol prm st d) as [st' nrho a|w] eqn:E; [|discriminate].
    destruct (p_run pol prm st' ds) as [[fin' rs']|] eqn:E2; [|discriminate].
    inversion H; subst. cbn [map]. f_equal. exact (IH st' fin rs' E2).
Qed.
