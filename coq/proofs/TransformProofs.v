(* TransformProofs.v — the internal problem is an exact reformulation (C04): power-of-two
   scaling and the slack embedding, for arbitrary callbacks. *)
From Verif Require Import Vec Problem Scale Slack Transform Iterate VecLemmas.
From Coq Require Import Qpower Lqa Lia.
Local Arguments Nat.ltb : simpl never.
Local Arguments Nat.sub : simpl never.

(* ---------------- scaling: round trips ---------------- *)
Lemma ldexpv_inv x w : length x = length w -> veq (ldexpv (ldexpv x w) (zneg w)) x.
Proof.
  revert w. induction x as [|a x IH]; intros [|k w]; cbn; intros H; try discriminate; constructor.
  - apply ldexp_inv.
  - apply IH. lia.
Qed.
Lemma ldexpv_inv' x w : length x = length w -> veq (ldexpv (ldexpv x (zneg w)) w) x.
Proof.
  revert w. induction x as [|a x IH]; intros [|k w]; cbn; intros H; try discriminate; constructor.
  - apply ldexp_inv'.
  - apply IH. lia.
Qed.
Lemma ldexpv_length x w : length (ldexpv x w) = Nat.min (length x) (length w).
Proof. apply map2_length. Qed.
Lemma zneg_length w : length (zneg w) = length w.
Proof. apply map_length. Qed.
Lemma ldexpv_nth x w j : (j < length x)%nat -> (j < length w)%nat ->
  nth j (ldexpv x w) 0 = ldexp (nth j x 0) (nth j w 0%Z).
Proof. intros. unfold ldexpv. now apply map2_nth. Qed.
Lemma zneg_nth w j : nth j (zneg w) 0%Z = (- nth j w 0)%Z.
Proof. unfold zneg. revert j; induction w; intros [|j]; cbn; auto. Qed.

Theorem scale_unscale_primal sc x : length x = length (vw sc) ->
  veq (unscale_primal sc (scale_primal sc x)) x /\ veq (scale_primal sc (unscale_primal sc x)) x.
Proof. intros H. split; [now apply ldexpv_inv | now apply ldexpv_inv']. Qed.
Theorem scale_unscale_dual sc y : length y = length (cw sc) ->
  veq (unscale_dual sc (scale_dual sc y)) y /\ veq (scale_dual sc (unscale_dual sc y)) y.
Proof.
  intros H. assert (length y = length (dual_w sc)) by (unfold dual_w; now rewrite map_length).
  split; [now apply ldexpv_inv' | now apply ldexpv_inv].
Qed.
Theorem scale_unscale_bounds_dual sc d : length d = length (vw sc) ->
  veq (unscale_bounds_dual sc (scale_bounds_dual sc d)) d /\ veq (scale_bounds_dual sc (unscale_bounds_dual sc d)) d.
Proof.
  intros H. assert (length d = length (bound_w sc)) by (unfold bound_w; now rewrite map_length).
  split; [now apply ldexpv_inv' | now apply ldexpv_inv].
Qed.

(* ---------------- scaling is exact on the box ---------------- *)
Lemma lb_le_ldexp l x k : lb_le (ldexp_b l k) (ldexp x k) = lb_le l x.
Proof.
  destruct l as [a|]; cbn; auto. apply eq_true_iff_eq. rewrite !qle_iff. apply iff_sym, ldexp_le.
Qed.
Lemma le_ub_ldexp u x k : le_ub (ldexp x k) (ldexp_b u k) = le_ub x u.
Proof.
  destruct u as [a|]; cbn; auto. apply eq_true_iff_eq. rewrite !qle_iff. apply iff_sym, ldexp_le.
Qed.

Theorem in_box_scaled lb ub x w :
  in_box (map2 ldexp_b lb w) (map2 ldexp_b ub w) (ldexpv x w) = true ->
  length lb = length w -> length ub = length w -> length x = length w ->
  in_box lb ub x = true.
Proof.
  unfold in_box. revert ub x w. induction lb as [|l lb IH]; intros [|u ub] [|a x] [|k w]; cbn; auto; try discriminate.
  rewrite lb_le_ldexp, le_ub_ldexp. rewrite !andb_true_iff. intros [H1 H2] ? ? ?. split; auto.
  apply (IH ub x w); auto.
Qed.
Theorem in_box_scaled_conv lb ub x w :
  in_box lb ub x = true ->
  in_box (map2 ldexp_b lb w) (map2 ldexp_b ub w) (ldexpv x w) = true.
Proof.
  unfold in_box. revert ub x w. induction lb as [|l lb IH]; intros [|u ub] [|a x] [|k w]; cbn; auto; try discriminate.
  rewrite lb_le_ldexp, le_ub_ldexp. rewrite !andb_true_iff. intros [H1 H2]. split; auto.
Qed.

(* what the user's callbacks see: _orig_x of an internal in-box point is in the user's box *)
Lemma lb_le_ldexp_orig l x k : lb_le l (ldexp x (- k)) = lb_le (ldexp_b l k) x.
Proof.
  destruct l as [a|]; cbn; auto. apply eq_true_iff_eq. rewrite !qle_iff.
  rewrite (ldexp_le a (ldexp x (- k)) k). unfold ldexp at 2 3.
  assert (E : x * p2 (- k) * p2 k == x) by (rewrite <- Qmult_assoc, (Qmult_comm (p2 (-k))), p2_cancel; ring).
  rewrite E. reflexivity.
Qed.
Lemma le_ub_ldexp_orig u x k : le_ub (ldexp x (- k)) u = le_ub x (ldexp_b u k).
Proof.
  destruct u as [a|]; cbn; auto. apply eq_true_iff_eq. rewrite !qle_iff.
  rewrite (ldexp_le (ldexp x (- k)) a k). unfold ldexp at 1 2.
  assert (E : x * p2 (- k) * p2 k == x) by (rewrite <- Qmult_assoc, (Qmult_comm (p2 (-k))), p2_cancel; ring).
  rewrite E. reflexivity.
Qed.
Theorem orig_x_in_box lb ub xt w :
  in_box (map2 ldexp_b lb w) (map2 ldexp_b ub w) xt = in_box lb ub (ldexpv xt (zneg w)).
Proof.
  unfold in_box. revert ub xt w. induction lb as [|l lb IH]; intros [|u ub] [|a x] [|k w]; cbn; auto.
  rewrite lb_le_ldexp_orig, le_ub_ldexp_orig. f_equal. apply IH.
Qed.

(* ---------------- scaling: gradient of the Lagrangian ---------------- *)
Section ScaledLagGrad.
  Variable sc : scaling.
  Notation o := (ow sc).

  (* J~^T y~ = 2^(o - v_j) (J^T y)_j with y = unscale_dual y~ *)
  Lemma scaled_colsum j (J : mat) (cws : list Z) (yt : vec) :
    Forall (fun r => length r = length (vw sc)) J -> (j < length (vw sc))%nat ->
    length cws = length J -> length yt = length J ->
    colsum j (map2 (fun row ci => map2 (fun v vj => ldexp v (ci - vj)) row (vw sc)) J cws) yt
    == colsum j J (ldexpv yt (map (fun c => c - o)%Z cws)) * p2 (o - nth j (vw sc) 0%Z).
  Proof.
    revert cws yt. induction J as [|r J IH]; intros [|ci cws] [|a yt] HJ Hj H1 H2; cbn in *; try discriminate; try ring.
    inversion HJ as [|? ? Hr HJ']; subst.
    rewrite (map2_nth (fun v vj => ldexp v (ci - vj)) r (vw sc) j 0 0%Z 0) by lia.
    rewrite IH by (auto; lia). unfold ldexpv, ldexp.
    assert (E : p2 (ci - nth j (vw sc) 0%Z) == p2 (ci - o) * p2 (o - nth j (vw sc) 0%Z)).
    { rewrite <- p2_add. f_equiv. lia. }
    rewrite E. ring.
  Qed.
End ScaledLagGrad.

Record shaped (P : problem) (x y : vec) : Prop := {
  sh_grad : length (p_grad P x) = nvars P;
  sh_jac_rows : Forall (fun r => length r = nvars P) (p_jac P x);
  sh_jac_len : length (p_jac P x) = ncons P;
  sh_cons : length (p_cons P x) = ncons P;
  sh_y : length y = ncons P
}.

(* internal stationarity terms are exactly the scaled user's terms:
   (g~ + J~^T y~)_j = 2^(o - v_j) (g + J^T y)_j   with x = unscale_primal x~, y = unscale_dual y~ *)
Theorem scaled_lag_grad sc P xt yt j :
  let x := unscale_primal sc xt in
  let y := unscale_dual sc yt in
  length (vw sc) = nvars P -> length (cw sc) = ncons P -> length yt = ncons P ->
  shaped P x y -> (j < nvars P)%nat ->
  nth j (lag_grad (scaled_problem sc P) xt yt) 0
  == nth j (lag_grad P x y) 0 * p2 (ow sc - nth j (vw sc) 0%Z).
Proof.
  intros x y Hv Hc Hy [Hg HJr HJl _ _] Hj.
  unfold lag_grad, it_grad, it_jac, n_. cbn [scaled_problem p_grad p_jac nvars].
  fold (unscale_primal sc xt). fold x.
  match goal with |- context [tmvec _ ?M yt] => set (Js := M) end.
  assert (HJs : Forall (fun r => length r = nvars P) Js).
  { subst Js. clear -HJr Hv. revert HJr. generalize (cw sc). induction (p_jac P x) as [|r J IH]; intros [|c cs] H; cbn; auto.
    inversion H; subst. constructor; [rewrite map2_length; lia | auto]. }
  rewrite !vadd_nth; try (rewrite ?tmvec_length, ?map_length, ?ldexpv_length, ?zneg_length; auto; lia).
  rewrite !tmvec_nth by auto.
  subst Js. rewrite <- Hv in HJr, Hj. rewrite (scaled_colsum sc j) by (auto; lia).
  fold (dual_w sc). fold (unscale_dual sc yt). fold y.
  rewrite (nth_indep _ 0 (ldexp 0 (ow sc))) by (rewrite map_length, ldexpv_length, zneg_length; lia).
  rewrite (map_nth (fun g => ldexp g (ow sc))). rewrite ldexpv_nth by (rewrite ?zneg_length; lia). rewrite zneg_nth.
  unfold ldexp. assert (E : p2 (ow sc - nth j (vw sc) 0%Z) == p2 (- nth j (vw sc) 0%Z) * p2 (ow sc)).
  { rewrite <- p2_add. f_equiv. lia. }
  rewrite E. ring.
Qed.

(* ---------------- slack embedding ---------------- *)
Lemma seq_map_nth (f : nat -> Q) k n j : (j < n)%nat -> nth j (map f (seq k n)) 0 = f (k + j)%nat.
Proof.
  revert k j. induction n as [|n IH]; intros k [|j] H; cbn; try lia.
  - f_equal. lia.
  - rewrite IH by lia. f_equal. lia.
Qed.

Lemma slack_rows_length m k ns : length (slack_rows m k ns) = length m.
Proof. revert k; induction m as [|[] m IH]; intros k; cbn; auto. Qed.
Lemma slack_rows_row_length m k ns : Forall (fun r => length r = ns) (slack_rows m k ns).
Proof.
  revert k; induction m as [|[] m IH]; intros k; cbn; constructor; auto.
  - now rewrite map_length, seq_length.
  - apply vzero_length.
Qed.

(* column j of the slack block applied to y: minus the multiplier of the row that owns slack j *)
Lemma slack_colsum m : forall k ns y j, (j < ns)%nat -> length y = length m ->
  colsum j (slack_rows m k ns) y ==
  if Nat.ltb j k then 0 else - nth (j - k) (select m y) 0.
Proof.
  induction m as [|b m IH]; intros k ns y j Hj Hy.
  - cbn [slack_rows colsum select]. destruct (Nat.ltb j k); [reflexivity|]. destruct (j - k)%nat; cbn [nth]; ring.
  - destruct y as [|a y]; [discriminate|]. cbn [length] in Hy. destruct b; cbn [slack_rows colsum select].
    + rewrite (seq_map_nth _ 0 ns j Hj). cbn [Nat.add]. rewrite IH by lia.
      destruct (Nat.eqb_spec j k) as [->|Hne].
      * rewrite Nat.ltb_irrefl. replace (Nat.ltb k (S k)) with true by (symmetry; apply Nat.ltb_lt; lia).
        rewrite Nat.sub_diag. cbn [nth]. ring.
      * destruct (Nat.ltb_spec j k) as [Hlt|Hge].
        -- replace (Nat.ltb j (S k)) with true by (symmetry; apply Nat.ltb_lt; lia). ring.
        -- replace (Nat.ltb j (S k)) with false by (symmetry; apply Nat.ltb_ge; lia).
           replace (j - k)%nat with (S (j - S k)) by lia. cbn [nth]. ring.
    + rewrite vzero_nth. rewrite IH by lia. ring.
Qed.

Lemma colsum_app j (J E : mat) y n :
  Forall (fun r => length r = n) J -> length E = length J ->
  colsum j (map2 (fun r e => r ++ e) J E) y ==
  if Nat.ltb j n then colsum j J y else colsum (j - n) E y.
Proof.
  revert E y. induction J as [|r J IH]; intros [|e E] y HJ HE; cbn in *; try discriminate.
  - destruct (Nat.ltb j n); reflexivity.
  - destruct y as [|a y]; [destruct (Nat.ltb j n); reflexivity|].
    inversion HJ; subst. rewrite IH by (auto; lia).
    destruct (Nat.ltb_spec j (length r)).
    + rewrite app_nth1 by lia. reflexivity.
    + rewrite app_nth2 by lia. reflexivity.
Qed.

Lemma app_rows_length (J E : mat) n ns :
  Forall (fun r => length r = n) J -> Forall (fun r => length r = ns) E -> length E = length J ->
  Forall (fun r => length r = (n + ns)%nat) (map2 (fun r e => r ++ e) J E).
Proof.
  revert E. induction J as [|r J IH]; intros [|e E] HJ HE HL; cbn in *; try discriminate; auto.
  inversion HJ; inversion HE; subst. constructor; [rewrite app_length; lia | apply IH; auto].
Qed.

(* the Lagrangian gradient of the slack problem: original columns unchanged, slack column k is -y_i
   for the row i that owns slack k *)
Theorem cons_lag_grad P xt y j :
  let x := orig_vals P xt in
  shaped P x y -> length (cons_lb P) = ncons P -> length (cons_ub P) = ncons P ->
  (j < nvars P + num_slacks P)%nat ->
  nth j (lag_grad (cons_problem P) xt y) 0 ==
  if Nat.ltb j (nvars P) then nth j (lag_grad P x y) 0
  else - nth (j - nvars P) (select (slack_mask P) y) 0.
Proof.
  intros x [Hg HJr HJl _ Hy] Hl Hu Hj.
  assert (Hm : length (slack_mask P) = ncons P) by (unfold slack_mask; rewrite map2_length; lia).
  unfold lag_grad, it_grad, it_jac, n_. cbn [cons_problem p_grad p_jac nvars]. fold x.
  set (ns := num_slacks P) in *.
  match goal with |- context [tmvec _ ?M y] => set (Jc := M) end.
  assert (HJc : Forall (fun r => length r = (nvars P + ns)%nat) Jc).
  { subst Jc. apply app_rows_length; auto; [apply slack_rows_row_length | rewrite slack_rows_length; lia]. }
  rewrite vadd_nth; [| rewrite app_length, vzero_length; lia | rewrite tmvec_length; auto].
  rewrite tmvec_nth by auto. subst Jc.
  rewrite (colsum_app j _ _ y (nvars P)) by (auto; rewrite slack_rows_length; lia).
  destruct (Nat.ltb_spec j (nvars P)) as [Hlt|Hge].
  - rewrite app_nth1 by lia. rewrite vadd_nth; [| lia | rewrite tmvec_length; auto].
    rewrite tmvec_nth by auto. reflexivity.
  - rewrite app_nth2 by lia. rewrite Hg, vzero_nth.
    rewrite slack_colsum by lia. replace (Nat.ltb (j - nvars P) 0) with false by (symmetry; apply Nat.ltb_ge; lia).
    rewrite Nat.sub_0_r. ring.
Qed.

(* constraints of the slack problem, row by row *)
Lemma sub_slacks_nth m : forall c s i, length c = length m -> (i < length m)%nat ->
  length s = length (filter (fun b => b) m) ->
  nth i (sub_slacks m c s) 0 ==
  if nth i m false then nth i c 0 - nth (length (filter (fun b => b) (firstn i m))) s 0 else nth i c 0.
Proof.
  induction m as [|b m IH]; intros c s i Hc Hi Hs; cbn [length] in *; [lia|].
  destruct c as [|ci c]; [discriminate|]. cbn [length] in Hc.
  destruct b; cbn [filter length] in Hs.
  - destruct s as [|sj s]; [discriminate|]. cbn [length] in Hs.
    destruct i as [|i]; cbn [sub_slacks nth firstn filter length]; [reflexivity|].
    rewrite IH by lia. reflexivity.
  - destruct i as [|i]; cbn [sub_slacks nth firstn filter length]; [reflexivity|].
    rewrite IH by lia. reflexivity.
Qed.

(* start slacks: projection of c(x0) onto [l,u], so they lie in the slack box for EVERY x0 *)
Lemma clip_b_in l u c : bnd_le l u = true -> lb_le l (clip_b c l u) = true /\ le_ub (clip_b c l u) u = true.
Proof.
  destruct l as [a|], u as [b|]; cbn; intros H; split; auto; qcases; apply qle_iff.
  - apply qmin_glb; [apply qmax_ge_r | exact H].
  - apply qmin_le_r.
  - apply qmax_ge_r.
  - apply qmin_le_r.
Qed.

Theorem slack_start_in_box P x :
  Forall2 (fun l u => bnd_le l u = true) (cons_lb P) (cons_ub P) ->
  length (p_cons P x) = length (cons_lb P) ->
  in_box (select (slack_mask P) (cons_lb P)) (select (slack_mask P) (cons_ub P)) (slack_start P x) = true.
Proof.
  intros HF. unfold slack_start, slack_mask, in_box. generalize (p_cons P x).
  induction HF as [|l u lbs ubs Hlu Hrest IH]; intros [|c cs] Hlen; cbn in *; try discriminate; auto.
  destruct (is_eq_row l u); cbn.
  - apply IH. lia.
  - destruct (clip_b_in l u c Hlu) as [-> ->]. cbn. apply IH. lia.
Qed.

(* mapping a primal/dual point into the internal space and back returns the original values *)
Theorem restore_transform sc P x y d :
  length x = nvars P -> length (vw sc) = nvars P -> length y = length (cw sc) ->
  let '(xt, yt) := transform_sol (Some sc) P x y in
  let '(x', y', _) := restore_sol (Some sc) P xt yt d in
  veq x' x /\ veq y' y.
Proof.
  intros Hx Hv Hy. unfold transform_sol, restore_sol, cp_transform_sol, cp_restore_sol, scaled_of, orig_vals.
  cbn [scaled_problem nvars].
  assert (Hsx : length (scale_primal sc x) = nvars P) by (unfold scale_primal; rewrite ldexpv_length; lia).
  destruct (Nat.eqb _ 0); cbn [fst snd].
  - rewrite <- Hsx, firstn_all. split; [apply scale_unscale_primal; lia | apply scale_unscale_dual; lia].
  - rewrite <- Hsx, firstn_app, firstn_all, Nat.sub_diag. cbn [firstn]. rewrite app_nil_r.
    split; [apply scale_unscale_primal; lia | apply scale_unscale_dual; lia].
Qed.

Theorem restore_transform_unscaled P x y d :
  length x = nvars P ->
  let '(xt, yt) := transform_sol None P x y in
  let '(x', y', _) := restore_sol None P xt yt d in
  x' = x /\ y' = y.
Proof.
  intros Hx. unfold transform_sol, restore_sol, cp_transform_sol, cp_restore_sol, scaled_of, orig_vals.
  destruct (Nat.eqb _ 0); cbn [fst snd].
  - rewrite <- Hx, firstn_all. auto.
  - rewrite <- Hx, firstn_app, firstn_all, Nat.sub_diag. cbn [firstn]. rewrite app_nil_r. auto.
Qed.
