(* AutoScaleProofs.v — C20: 1 - frexp exponent normalises every non-zero magnitude into [1,2). *)
From Verif Require Import AutoScale VecLemmas.
From Coq Require Import Qpower Lqa Lia ZArith.

Lemma p2_inject k : (0 <= k)%Z -> p2 k == inject_Z (2 ^ k).
Proof. intros H. unfold p2. rewrite (Zpower_Qpower 2 k H). reflexivity. Qed.

Lemma inj_lt a b : (a < b)%Z -> inject_Z a < inject_Z b.
Proof. rewrite Zlt_Qlt. auto. Qed.
Lemma inj_le a b : (a <= b)%Z -> inject_Z a <= inject_Z b.
Proof. rewrite Zle_Qle. auto. Qed.

(* n/d lies strictly between 2^(e0-1) and 2^(e0+1) for e0 = log2 n - log2 d *)
Lemma ratio_bounds (n d : positive) :
  let e0 := (Z.log2 (Zpos n) - Z.log2 (Zpos d))%Z in
  p2 (e0 - 1) < (Zpos n # d) /\ (Zpos n # d) < p2 (e0 + 1).
Proof.
  intros e0. subst e0.
  set (a := Z.log2 (Zpos n)). set (b := Z.log2 (Zpos d)).
  assert (Ha : (0 <= a)%Z) by apply Z.log2_nonneg.
  assert (Hb : (0 <= b)%Z) by apply Z.log2_nonneg.
  destruct (Z.log2_spec (Zpos n) ltac:(lia)) as [Na1 Na2]. fold a in Na1, Na2.
  destruct (Z.log2_spec (Zpos d) ltac:(lia)) as [Nb1 Nb2]. fold b in Nb1, Nb2.
  rewrite Qmake_Qdiv.
  set (N := inject_Z (Zpos n)). set (D := inject_Z (Zpos d)).
  assert (A0 : p2 a <= N) by (rewrite p2_inject by lia; apply inj_le; exact Na1).
  assert (A1 : N < p2 (a + 1)) by (rewrite p2_inject by lia; apply inj_lt; rewrite <- Z.add_1_r in Na2; exact Na2).
  assert (B0 : p2 b <= D) by (rewrite p2_inject by lia; apply inj_le; exact Nb1).
  assert (B1 : D < p2 (b + 1)) by (rewrite p2_inject by lia; apply inj_lt; rewrite <- Z.add_1_r in Nb2; exact Nb2).
  pose proof (p2_pos a) as Pa. pose proof (p2_pos b) as Pb. pose proof (p2_pos (a + 1)) as Pa1. pose proof (p2_pos (b + 1)) as Pb1.
  assert (DP : 0 < D) by lra.
  assert (E1 : p2 (a - b - 1) == p2 a * / p2 (b + 1)).
  { replace (a - b - 1)%Z with (a + - (b + 1))%Z by lia. rewrite p2_add, p2_opp. reflexivity. }
  assert (E2 : p2 (a - b + 1) == p2 (a + 1) * / p2 b).
  { replace (a - b + 1)%Z with ((a + 1) + - b)%Z by lia. rewrite p2_add, p2_opp. reflexivity. }
  split.
  - rewrite E1. apply Qlt_shift_div_l; [exact DP|].
    (* p2 a / p2 (b+1) * D < N *)
    assert (X : p2 a * / p2 (b + 1) * D == (p2 a * D) / p2 (b + 1)) by (field; lra).
    rewrite X. apply Qlt_shift_div_r; [exact Pb1|]. nra.
  - rewrite E2. apply Qlt_shift_div_r; [exact DP|].
    assert (X : p2 (a + 1) * / p2 b * D == (p2 (a + 1) * D) / p2 b) by (field; lra).
    rewrite X. apply Qlt_shift_div_l; [exact Pb|]. nra.
Qed.

Lemma qabs_pos_frac (x : Q) (n : positive) : Qnum x = Zpos n \/ Qnum x = Zneg n -> qabs x == (Zpos n # Qden x).
Proof.
  destruct x as [num den]. cbn. intros [E|E]; subst; unfold qabs, qle, Qle_bool, Qeq; cbn.
  - reflexivity.
  - cbn. reflexivity.
Qed.

(* np.frexp: 2^(e-1) <= |x| < 2^e for x <> 0 *)
Theorem frexp_spec x : ~ x == 0 -> p2 (frexp_exp x - 1) <= qabs x /\ qabs x < p2 (frexp_exp x).
Proof.
  intros Hx. unfold frexp_exp.
  destruct (Qnum x) as [|n|n] eqn:En.
  - exfalso. apply Hx. destruct x as [num den]. cbn in En. subst. reflexivity.
  - assert (Ea := qabs_pos_frac x n (or_introl En)).
    destruct (ratio_bounds n (Qden x)) as [L U].
    set (e0 := (Z.log2 (Zpos n) - Z.log2 (Zpos (Qden x)))%Z) in *.
    destruct (qle (p2 e0) (qabs x)) eqn:E; qcases.
    + replace (e0 + 1 - 1)%Z with e0 by lia. rewrite Ea in *. split; lra.
    + rewrite Ea in *. split; lra.
  - assert (Ea := qabs_pos_frac x n (or_intror En)).
    destruct (ratio_bounds n (Qden x)) as [L U].
    set (e0 := (Z.log2 (Zpos n) - Z.log2 (Zpos (Qden x)))%Z) in *.
    destruct (qle (p2 e0) (qabs x)) eqn:E; qcases.
    + replace (e0 + 1 - 1)%Z with e0 by lia. rewrite Ea in *. split; lra.
    + rewrite Ea in *. split; lra.
Qed.

(* weights_from_nominal_values: |x| * 2^(1 - frexp exponent) is in [1, 2), for a value of ANY magnitude *)
Theorem wfn_normalises x : ~ x == 0 -> 1 <= qabs x * p2 (wfn x) /\ qabs x * p2 (wfn x) < 2.
Proof.
  intros Hx. destruct (frexp_spec x Hx) as [L U]. unfold wfn.
  set (e := frexp_exp x) in *.
  pose proof (p2_pos (1 - e)) as P.
  assert (E1 : p2 (e - 1) * p2 (1 - e) == 1) by (rewrite <- p2_add; replace (e - 1 + (1 - e))%Z with 0%Z by lia; reflexivity).
  assert (E2 : p2 e * p2 (1 - e) == 2) by (rewrite <- p2_add; replace (e + (1 - e))%Z with 1%Z by lia; reflexivity).
  split; nra.
Qed.

(* the exponent is determined by the value: 2^(e-1) <= |x| < 2^e has one solution *)
Lemma p2_lt_mono a b : (a < b)%Z -> p2 a < p2 b.
Proof.
  intros H. replace b with (a + (b - a))%Z by lia. rewrite p2_add.
  assert (1 < p2 (b - a)).
  { replace (b - a)%Z with (1 + (b - a - 1))%Z by lia. rewrite p2_add.
    assert (p2 1 == 2) by reflexivity. pose proof (p2_pos (b - a - 1)).
    assert (1 <= p2 (b - a - 1)).
    { rewrite p2_inject by lia. change 1 with (inject_Z 1). apply inj_le. apply Z.lt_pred_le. apply Z.pow_pos_nonneg; lia. }
    nra. }
  pose proof (p2_pos a). nra.
Qed.
Lemma p2_le_mono a b : (a <= b)%Z -> p2 a <= p2 b.
Proof. intros H. destruct (Z.eq_dec a b) as [->|N]; [lra|]. apply Qlt_le_weak. apply p2_lt_mono. lia. Qed.

Lemma exponent_unique q e1 e2 : p2 (e1 - 1) <= q -> q < p2 e1 -> p2 (e2 - 1) <= q -> q < p2 e2 -> e1 = e2.
Proof.
  intros A1 B1 A2 B2.
  destruct (Z.lt_trichotomy e1 e2) as [H|[H|H]]; auto; exfalso.
  - pose proof (p2_le_mono e1 (e2 - 1) ltac:(lia)). lra.
  - pose proof (p2_le_mono e2 (e1 - 1) ltac:(lia)). lra.
Qed.

Lemma qabs_compat' a b : a == b -> qabs a == qabs b.
Proof. intros E. unfold qabs. destruct (qle 0 a) eqn:A, (qle 0 b) eqn:B; qcases; lra. Qed.

Lemma frexp_exp_compat x y : x == y -> frexp_exp x = frexp_exp y.
Proof.
  intros E. destruct (Qeq_dec x 0) as [Z|NZ].
  - assert (Zy : y == 0) by (rewrite <- E; exact Z).
    unfold frexp_exp. destruct x as [nx dx], y as [ny dy]. unfold Qeq in Z, Zy. cbn in *.
    assert (nx = 0%Z) by lia. assert (ny = 0%Z) by lia. subst. reflexivity.
  - assert (NZy : ~ y == 0) by (rewrite <- E; exact NZ).
    destruct (frexp_spec x NZ) as [A1 B1]. destruct (frexp_spec y NZy) as [A2 B2].
    rewrite (qabs_compat' _ _ E) in A1, B1. eapply exponent_unique; eauto.
Qed.

(* ---------------- Nominal ---------------- *)
Theorem nominal_ok vars cons obj j : (j < length vars)%nat -> ~ nth j vars 0 == 0 ->
  let w := nth j (vw (from_nominal vars cons obj)) 0%Z in
  1 <= qabs (ldexp (nth j vars 0) w) /\ qabs (ldexp (nth j vars 0) w) < 2.
Proof.
  intros Hj Hx w. unfold w. cbn [from_nominal vw].
  rewrite (nth_indep _ 0%Z (wfn 0)) by (rewrite map_length; exact Hj). rewrite (map_nth wfn).
  destruct (wfn_normalises _ Hx) as [A B]. unfold ldexp.
  set (x := nth j vars 0) in *. pose proof (p2_pos (wfn x)) as P.
  assert (E : qabs (x * p2 (wfn x)) == qabs x * p2 (wfn x)).
  { unfold qabs. destruct (qle 0 (x * p2 (wfn x))) eqn:E1, (qle 0 x) eqn:E2; qcases; try ring; nra. }
  rewrite E. split; assumption.
Qed.

(* ---------------- GradJac ---------------- *)
Lemma qabs_idem a : qabs (qabs a) == qabs a.
Proof.
  unfold qabs. destruct (qle 0 a) eqn:E; [rewrite E; reflexivity|].
  destruct (qle 0 (- a)) eqn:E2; qcases; lra.
Qed.

Theorem gradjac_gradient_ok g J j : (j < length g)%nat -> ~ nth j g 0 == 0 ->
  let sc := from_grad_jac g J in
  (* the scaled gradient component g_j * 2^(o - v_j) *)
  1 <= qabs (nth j g 0) * p2 (ow sc - nth j (vw sc) 0%Z) /\ qabs (nth j g 0) * p2 (ow sc - nth j (vw sc) 0%Z) < 2.
Proof.
  intros Hj Hx sc. unfold sc. cbn [from_grad_jac vw ow]. unfold gj_var_weights.
  rewrite (nth_indep _ 0%Z (- wfn (qabs 0))%Z) by (rewrite map_length; exact Hj).
  rewrite (map_nth (fun gj => (- wfn (qabs gj))%Z)).
  set (x := nth j g 0) in *.
  assert (Hx' : ~ qabs x == 0).
  { unfold qabs. destruct (qle 0 x) eqn:E; qcases; lra. }
  destruct (wfn_normalises _ Hx') as [A B]. rewrite qabs_idem in A, B.
  replace (0 - - wfn (qabs x))%Z with (wfn (qabs x)) by lia. split; assumption.
Qed.

Lemma row_max_nonneg row vws : 0 <= row_max row vws.
Proof.
  unfold row_max. induction (map2 (fun v vj => ldexp (qabs v) (- vj)) row vws) as [|a l IH]; cbn; [lra|].
  pose proof (qmax_ge_r a (fold_right (fun v acc => qmax v acc) 0 l)). lra.
Qed.

Lemma qmax_compat a a' b b' : a == a' -> b == b' -> qmax a b == qmax a' b'.
Proof. intros E1 E2. unfold qmax. destruct (qle a b) eqn:A, (qle a' b') eqn:B; qcases; lra. Qed.
Lemma qmax_scale a b c : 0 < c -> qmax (a * c) (b * c) == qmax a b * c.
Proof. intros H. unfold qmax. destruct (qle (a * c) (b * c)) eqn:A, (qle a b) eqn:B; qcases; try reflexivity; nra. Qed.

(* the largest scaled entry of a row is the row maximum (of the column-prescaled entries) times 2^w *)
Lemma row_max_scaled row vws w :
  fold_right (fun v acc => qmax v acc) 0 (map2 (fun v vj => ldexp (qabs v) (w - vj)) row vws)
  == row_max row vws * p2 w.
Proof.
  unfold row_max. revert vws. induction row as [|v row IH]; intros [|vj vws]; cbn [map2 fold_right]; try ring.
  pose proof (p2_pos w) as P.
  assert (E : ldexp (qabs v) (w - vj) == ldexp (qabs v) (- vj) * p2 w).
  { unfold ldexp. replace (w - vj)%Z with (- vj + w)%Z by lia. rewrite p2_add. ring. }
  rewrite (qmax_compat _ _ _ _ E (IH vws)). apply qmax_scale. exact P.
Qed.

Theorem gradjac_row_ok g J i : (i < length J)%nat ->
  let sc := from_grad_jac g J in
  let M := row_max (nth i J []) (vw sc) in
  ~ M == 0 ->
  let scaled_max := fold_right (fun v acc => qmax v acc) 0
                      (map2 (fun v vj => ldexp (qabs v) (nth i (cw sc) 0%Z - vj)) (nth i J []) (vw sc)) in
  1 <= scaled_max /\ scaled_max < 2.
Proof.
  intros Hi sc M HM scaled_max. unfold scaled_max. rewrite row_max_scaled. fold M.
  assert (Ew : nth i (cw sc) 0%Z = wfn M).
  { unfold sc. cbn [from_grad_jac cw vw].
    rewrite (nth_indep _ 0%Z (wfn (row_max [] (gj_var_weights g)))) by (rewrite map_length; exact Hi).
    rewrite (map_nth (fun row => wfn (row_max row (gj_var_weights g)))). reflexivity. }
  rewrite Ew. destruct (wfn_normalises M HM) as [A B].
  assert (EM : qabs M == M).
  { pose proof (row_max_nonneg (nth i J []) (vw sc)). fold M in H. unfold qabs. destruct (qle 0 M) eqn:E; qcases; lra. }
  rewrite EM in A, B. split; assumption.
Qed.

(* ---------------- KKT equilibration ---------------- *)
(* leaving the loop means every column sum R has 1 - frexp(sqrt R) = 0, i.e. R in [1, 4) (or R < 1e-10,
   which the code treats as an empty column) *)
Theorem rsca_zero R : rsca R = 0%Z -> R < c_1e10 \/ (1 <= R /\ R < 4).
Proof.
  unfold rsca. destruct (qlt R c_1e10) eqn:E; qcases; [left; exact E|]. intros H. right.
  assert (C : 0 < c_1e10) by reflexivity.
  assert (NZ : ~ R == 0) by lra.
  destruct (frexp_spec R NZ) as [A B].
  assert (ER : qabs R == R) by (unfold qabs; destruct (qle 0 R) eqn:E0; qcases; lra).
  rewrite ER in A, B.
  set (e := frexp_exp R) in *.
  assert (He : (e = 1 \/ e = 2)%Z).
  { assert (X : ((e + 1) / 2 = 1)%Z) by lia.
    pose proof (Z.div_mod (e + 1) 2 ltac:(lia)). pose proof (Z.mod_pos_bound (e + 1) 2 ltac:(lia)). lia. }
  destruct He as [-> | ->].
  - assert (p2 (1 - 1) == 1) by reflexivity. assert (p2 1 == 2) by reflexivity. lra.
  - assert (p2 (2 - 1) == 2) by reflexivity. assert (p2 2 == 4) by reflexivity. lra.
Qed.

(* the loop returns only when the test passes on the entries it holds at that moment *)
Fixpoint final_entries (fuel n : nat) (es : list entry) : list entry :=
  match fuel with
  | O => es
  | S f => let s := map rsca (col_sums n es) in
           if forallb (fun z => Z.eqb z 0) s then es else final_entries f n (rescale es s)
  end.

Theorem loop_exit_condition fuel n : forall es D D',
  scale_sym_loop fuel n es D = Some D' ->
  forall j, (j < n)%nat ->
    let R := nth j (col_sums n (final_entries fuel n es)) 0 in
    R < c_1e10 \/ (1 <= R /\ R < 4).
Proof.
  induction fuel as [|f IH]; intros es D D' H j Hj; cbn in H; [discriminate|].
  cbn [final_entries].
  destruct (forallb (fun z => Z.eqb z 0) (map rsca (col_sums n es))) eqn:E.
  - cbv zeta. apply rsca_zero.
    rewrite forallb_forall in E.
    assert (Hl : length (col_sums n es) = n) by (unfold col_sums; rewrite map_length, seq_length; reflexivity).
    specialize (E (rsca (nth j (col_sums n es) 0))).
    apply Z.eqb_eq. apply E. apply in_map. apply nth_In. lia.
  - eapply IH; eauto.
Qed.

(* ------------------------------------------------------------------ coherence of the equilibration loop:
   the matrix the loop holds when it returns IS the input matrix scaled by the exponents it returns *)
Definition ent_eq (e e' : entry) : Prop :=
  fst (fst e) = fst (fst e') /\ snd (fst e) = snd (fst e') /\ snd e == snd e'.

Lemma ldexp_ldexp v a b : ldexp (ldexp v a) b == ldexp v (a + b).
Proof. unfold ldexp. rewrite p2_add. ring. Qed.
Lemma ldexp_zero v : ldexp v 0 == v.
Proof. unfold ldexp, p2. cbn. ring. Qed.
Lemma ldexp_compat v v' k : v == v' -> ldexp v k == ldexp v' k.
Proof. intros E. unfold ldexp. rewrite E. reflexivity. Qed.

Lemma nth_map2_add (D s : list Z) r : length D = length s ->
  nth r (map2 Z.add D s) 0%Z = (nth r D 0 + nth r s 0)%Z.
Proof.
  revert s r. induction D as [|d D IH]; intros [|z s] r HL; cbn in *; try discriminate.
  - destruct r; reflexivity.
  - destruct r as [|r]; [reflexivity|]. apply IH. lia.
Qed.

Lemma rescale_compat es es' s : Forall2 ent_eq es es' -> Forall2 ent_eq (rescale es s) (rescale es' s).
Proof.
  induction 1 as [|[[r c] v] [[r' c'] v'] es es' [E1 [E2 E3]] _ IH]; cbn; constructor; [|exact IH].
  cbn in *. subst. repeat split; try reflexivity. cbn. apply ldexp_compat. exact E3.
Qed.
Lemma rescale_rescale es D s : length D = length s ->
  Forall2 ent_eq (rescale (rescale es D) s) (rescale es (map2 Z.add D s)).
Proof.
  intros HL. induction es as [|[[r c] v] es IH]; cbn; [constructor|]. constructor; [|exact IH].
  repeat split; try reflexivity. cbn. rewrite !(nth_map2_add D s) by exact HL. rewrite ldexp_ldexp.
  match goal with |- ldexp _ ?a == ldexp _ ?b => replace a with b by lia end. reflexivity.
Qed.
Lemma ent_eq_trans_list a b c : Forall2 ent_eq a b -> Forall2 ent_eq b c -> Forall2 ent_eq a c.
Proof.
  intros H. revert c. induction H as [|x y a b [E1 [E2 E3]] _ IH]; intros c Hc; inversion Hc as [|? z ? c' [G1 [G2 G3]] Hc']; subst; constructor.
  - repeat split; try congruence. rewrite E3. exact G3.
  - apply IH. exact Hc'.
Qed.

Lemma nth_map_seq0 (f : nat -> Q) n j : (j < n)%nat -> nth j (map f (seq 0 n)) 0 = f j.
Proof.
  intros Hj. rewrite (nth_indep _ 0 (f 0%nat)) by (rewrite map_length, seq_length; exact Hj).
  rewrite map_nth, seq_nth by exact Hj. reflexivity.
Qed.
Lemma col_sums_compat n es es' : Forall2 ent_eq es es' ->
  forall j, nth j (col_sums n es) 0 == nth j (col_sums n es') 0.
Proof.
  intros H j. unfold col_sums.
  destruct (Nat.lt_ge_cases j n) as [Hj|Hj].
  - rewrite !nth_map_seq0 by exact Hj.
    induction H as [|[[r c] v] [[r' c'] v'] es es' [E1 [E2 E3]] _ IH]; cbn; [reflexivity|].
    cbn in E1, E2, E3. subst. destruct (Nat.eqb c' j); [rewrite E3, IH; reflexivity|exact IH].
  - rewrite !nth_overflow by (rewrite map_length, seq_length; exact Hj). reflexivity.
Qed.

Lemma loop_coherent fuel n es0 : forall es D D',
  length D = n -> Forall2 ent_eq es (rescale es0 D) ->
  scale_sym_loop fuel n es D = Some D' ->
  length D' = n /\ Forall2 ent_eq (final_entries fuel n es) (rescale es0 D').
Proof.
  induction fuel as [|f IH]; intros es D D' LD Inv H; cbn in H; [discriminate|].
  cbn [final_entries].
  destruct (forallb (fun z => Z.eqb z 0) (map rsca (col_sums n es))) eqn:E.
  - injection H as HD. rewrite <- HD. split; assumption.
  - assert (Ls : length (map rsca (col_sums n es)) = n) by (unfold col_sums; rewrite !map_length, seq_length; reflexivity).
    apply (IH (rescale es (map rsca (col_sums n es))) (map2 Z.add D (map rsca (col_sums n es))) D').
    + rewrite map2_length. lia.
    + eapply ent_eq_trans_list; [apply rescale_compat; exact Inv|]. apply rescale_rescale. lia.
    + exact H.
Qed.

Definition abs_entries (es : list entry) : list entry := map (fun e : entry => let '(r, c, v) := e in (r, c, qabs v)) es.

(* C20, KKT clause, as stated: whenever scale_symmetric returns exponents D', every column of |K| scaled by
   2^(D'_r + D'_c) has absolute sum in [1,4), or is (numerically) empty *)
Theorem equilibration_normalises n es D' :
  scale_symmetric n es = Some D' ->
  length D' = n /\
  forall j, (j < n)%nat ->
    let R := nth j (col_sums n (rescale (abs_entries es) D')) 0 in
    R < c_1e10 \/ (1 <= R /\ R < 4).
Proof.
  unfold scale_symmetric. fold (abs_entries es). intros H.
  assert (Inv0 : Forall2 ent_eq (abs_entries es) (rescale (abs_entries es) (repeat 0%Z n))).
  { clear H. induction (abs_entries es) as [|[[r c] v] l IH]; cbn; [constructor|]. constructor; [|exact IH].
    repeat split; try reflexivity. cbn.
    assert (Z0 : forall k, nth k (repeat 0%Z n) 0%Z = 0%Z).
    { intros k. destruct (Nat.lt_ge_cases k n); [apply nth_repeat|apply nth_overflow; rewrite repeat_length; lia]. }
    rewrite !Z0. cbn. symmetry. apply ldexp_zero. }
  destruct (loop_coherent 100 n (abs_entries es) _ _ D' (repeat_length _ _) Inv0 H) as [LD Coh].
  split; [exact LD|]. intros j Hj. cbv zeta.
  pose proof (loop_exit_condition 100 n _ _ D' H j Hj) as Ex. cbv zeta in Ex.
  rewrite <- (col_sums_compat n _ _ Coh j). exact Ex.
Qed.

Lemma from_kkt_inv n m H J sc : from_kkt n m H J = Some sc ->
  exists w, scale_symmetric (n + m) (kkt_entries n H J) = Some w /\ sc = mk_scaling (map Z.opp (firstn n w)) (skipn n w) 0.
Proof.
  unfold from_kkt. generalize (scale_symmetric (n + m) (kkt_entries n H J)). intros [w|] E.
  - exists w. split; [reflexivity|]. congruence.
  - discriminate.
Qed.
