(* KKTProofs.v — C01: total_res <= tol at an internal point (of the scaled + slack problem) means the
   KKT conditions of the USER's problem at the restored point, with tolerances scaled by the
   corresponding powers of two.  P is an arbitrary problem (arbitrary callbacks), sc arbitrary weights. *)
From Verif Require Import Transform Iterate VecLemmas TransformProofs IterateProofs.
From Coq Require Import Lqa Lia.

(* bdual1 respects == in its last argument *)
Lemma bdual1_compat atol xi l u r r' : r == r' -> bdual1 atol xi l u r == bdual1 atol xi l u r'.
Proof.
  intros E. unfold bdual1. destruct (near_lower atol xi l), (near_upper atol xi u); cbn; try lra.
  - unfold qmin. destruct (qle r 0) eqn:A, (qle r' 0) eqn:B; qcases; lra.
  - unfold qmax. destruct (qle r 0) eqn:A, (qle r' 0) eqn:B; qcases; lra.
Qed.

Lemma qabs_compat a b : a == b -> qabs a == qabs b.
Proof. intros E. unfold qabs. destruct (qle 0 a) eqn:A, (qle 0 b) eqn:B; qcases; lra. Qed.

(* selecting: the k-th selected element is the element at the position of the k-th true *)
Definition rank (m : mask) (i : nat) : nat := length (filter (fun b => b) (firstn i m)).

Lemma select_nth {A} (m : mask) (a : list A) d i : length a = length m -> nth i m false = true ->
  nth (rank m i) (select m a) d = nth i a d.
Proof.
  revert a i. induction m as [|b m IH]; intros [|x a] [|i] HL Hi; cbn in *; try discriminate; try lia.
  - destruct b; [reflexivity|discriminate].
  - destruct b; cbn; unfold rank in IH; apply IH; auto; lia.
Qed.

Lemma rank_lt (m : mask) i : (i < length m)%nat -> nth i m false = true ->
  (rank m i < length (filter (fun b => b) m))%nat.
Proof.
  revert i. unfold rank. induction m as [|b m IH]; intros [|i] HL Hi; cbn in *; try lia.
  - destruct b; [cbn; lia|discriminate].
  - destruct b; cbn; specialize (IH i ltac:(lia) Hi); lia.
Qed.

Lemma select_length {A} (m : mask) (a : list A) : length a = length m ->
  length (select m a) = length (filter (fun b => b) m).
Proof.
  revert a. induction m as [|b m IH]; intros [|x a] HL; cbn in *; try discriminate; auto.
  destruct b; cbn; rewrite IH by lia; reflexivity.
Qed.

Lemma sub_slacks_length : forall m c s, length c = length m -> length (sub_slacks m c s) = length m.
Proof.
  induction m as [|b m IH]; intros [|c0 c] s0 HL; cbn in *; try discriminate; auto.
  destruct b; [destruct s0|]; cbn; rewrite IH by lia; reflexivity.
Qed.

(* ====================================================================== the slack layer *)
Section SlackLayer.
  Variable Pq : problem.           (* the (scaled) problem that gets slacks *)
  Variable atol : Q.
  Variables xt yt : vec.          (* point of the slack problem *)
  Notation T := (cons_problem Pq).
  Notation x := (orig_vals Pq xt).
  Notation s := (slack_vals Pq xt).
  Notation mk := (slack_mask Pq).
  Notation ns := (num_slacks Pq).

  Record wfs : Prop := {
    ws_xt : length xt = (nvars Pq + ns)%nat;
    ws_y : length yt = ncons Pq;
    ws_sh : shaped Pq x yt;
    ws_lb : length (var_lb Pq) = nvars Pq;
    ws_ub : length (var_ub Pq) = nvars Pq;
    ws_cl : length (cons_lb Pq) = ncons Pq;
    ws_cu : length (cons_ub Pq) = ncons Pq
  }.
  Hypothesis W : wfs.

  Lemma mk_length : length mk = ncons Pq.
  Proof. destruct W. unfold mk, slack_mask. rewrite map2_length. lia. Qed.

  Lemma x_length : length x = nvars Pq.
  Proof. destruct W. unfold x, orig_vals. rewrite firstn_length. lia. Qed.
  Lemma s_length : length s = ns.
  Proof. destruct W. unfold s, slack_vals. rewrite skipn_length. lia. Qed.

  Lemma T_wf : wf T xt.
  Proof.
    destruct W as [A B [Hg HJr HJl Hc Hy] D E F G]. constructor; cbn [T cons_problem nvars var_lb var_ub p_grad p_jac].
    - exact A.
    - rewrite app_length, select_length by (rewrite mk_length; lia). fold ns. unfold ns, num_slacks. lia.
    - rewrite app_length, select_length by (rewrite mk_length; lia). unfold ns, num_slacks. lia.
    - rewrite app_length, vzero_length. fold x. rewrite Hg. reflexivity.
    - fold x. apply app_rows_length; auto; [apply slack_rows_row_length | rewrite slack_rows_length; fold mk; rewrite mk_length; lia].
  Qed.

  (* --- original columns: the stationarity component of the slack problem is that of Pq --- *)
  Lemma orig_column tol j : stat_res T atol xt yt <= tol -> (j < nvars Pq)%nat ->
    qabs (nth j (lag_grad Pq x yt) 0
          + bdual1 atol (nth j x 0) (nth j (var_lb Pq) None) (nth j (var_ub Pq) None) (- nth j (lag_grad Pq x yt) 0)) <= tol
    /\ nth j (bounds_dual T atol xt yt) 0
       == bdual1 atol (nth j x 0) (nth j (var_lb Pq) None) (nth j (var_ub Pq) None) (- nth j (lag_grad Pq x yt) 0).
  Proof.
    intros H Hj. pose proof W as W'. destruct W' as [A B Sh D E F G].
    assert (Hj' : (j < nvars T)%nat) by (cbn; lia).
    pose proof (stat_res_nth T atol xt yt T_wf tol j H Hj') as N.
    assert (EG : nth j (lag_grad T xt yt) 0 == nth j (lag_grad Pq x yt) 0).
    { unfold T. rewrite (cons_lag_grad Pq xt yt j Sh F G) by (fold ns; lia).
      replace (Nat.ltb j (nvars Pq)) with true by (symmetry; apply Nat.ltb_lt; exact Hj). reflexivity. }
    assert (Ex : nth j xt 0 = nth j x 0).
    { unfold x, orig_vals. rewrite <- (firstn_skipn (nvars Pq) xt) at 1. rewrite app_nth1; [reflexivity|]. rewrite firstn_length. lia. }
    assert (El : nth j (var_lb T) None = nth j (var_lb Pq) None) by (cbn; rewrite app_nth1; [reflexivity|lia]).
    assert (Eu : nth j (var_ub T) None = nth j (var_ub Pq) None) by (cbn; rewrite app_nth1; [reflexivity|lia]).
    rewrite Ex, El, Eu in N.
    split.
    - assert (C : bdual1 atol (nth j x 0) (nth j (var_lb Pq) None) (nth j (var_ub Pq) None) (- nth j (lag_grad T xt yt) 0)
                  == bdual1 atol (nth j x 0) (nth j (var_lb Pq) None) (nth j (var_ub Pq) None) (- nth j (lag_grad Pq x yt) 0))
        by (apply bdual1_compat; rewrite EG; reflexivity).
      rewrite <- (qabs_compat _ _ (Qplus_comp _ _ EG _ _ C)). exact N.
    - rewrite (bounds_dual_nth T atol xt yt T_wf j Hj'). rewrite Ex, El, Eu.
      apply bdual1_compat. rewrite vneg_nth, EG. reflexivity.
  Qed.

  (* --- slack column of row i: the stationarity component is -y_i against the slack's bounds --- *)
  Lemma slack_column tol i : stat_res T atol xt yt <= tol -> (i < ncons Pq)%nat -> nth i mk false = true ->
    let k := rank mk i in
    qabs (- nth i yt 0
          + bdual1 atol (nth k s 0) (nth i (cons_lb Pq) None) (nth i (cons_ub Pq) None) (nth i yt 0)) <= tol.
  Proof.
    intros H Hi Hm k. pose proof W as W'. destruct W' as [A B Sh D E F G].
    assert (Hk : (k < ns)%nat) by (apply rank_lt; [rewrite mk_length; exact Hi|exact Hm]).
    assert (Hj' : (nvars Pq + k < nvars T)%nat) by (cbn; fold ns; lia).
    pose proof (stat_res_nth T atol xt yt T_wf tol _ H Hj') as N.
    assert (EG : nth (nvars Pq + k) (lag_grad T xt yt) 0 == - nth i yt 0).
    { unfold T. rewrite (cons_lag_grad Pq xt yt _ Sh F G) by (fold ns; lia).
      replace (Nat.ltb (nvars Pq + k) (nvars Pq)) with false by (symmetry; apply Nat.ltb_ge; lia).
      replace (nvars Pq + k - nvars Pq)%nat with k by lia.
      unfold k. fold mk. rewrite select_nth by (rewrite ?mk_length; auto). reflexivity. }
    assert (Ex : nth (nvars Pq + k) xt 0 = nth k s 0).
    { unfold s, slack_vals. rewrite <- (firstn_skipn (nvars Pq) xt) at 1. rewrite app_nth2; rewrite firstn_length; [|lia].
      f_equal. lia. }
    assert (El : nth (nvars Pq + k) (var_lb T) None = nth i (cons_lb Pq) None).
    { cbn. rewrite app_nth2 by lia. replace (nvars Pq + k - length (var_lb Pq))%nat with k by lia.
      unfold k. fold mk. apply select_nth; [rewrite mk_length; lia|exact Hm]. }
    assert (Eu : nth (nvars Pq + k) (var_ub T) None = nth i (cons_ub Pq) None).
    { cbn. rewrite app_nth2 by lia. replace (nvars Pq + k - length (var_ub Pq))%nat with k by lia.
      unfold k. fold mk. apply select_nth; [rewrite mk_length; lia|exact Hm]. }
    rewrite Ex, El, Eu in N.
    assert (C : bdual1 atol (nth k s 0) (nth i (cons_lb Pq) None) (nth i (cons_ub Pq) None) (- nth (nvars Pq + k) (lag_grad T xt yt) 0)
                == bdual1 atol (nth k s 0) (nth i (cons_lb Pq) None) (nth i (cons_ub Pq) None) (nth i yt 0))
      by (apply bdual1_compat; rewrite EG; ring).
    rewrite <- (qabs_compat _ _ (Qplus_comp _ _ EG _ _ C)). exact N.
  Qed.

  (* --- constraints, row by row --- *)
  Lemma cons_row tol i : cons_violation T xt <= tol -> (i < ncons Pq)%nat ->
    let ci := nth i (p_cons Pq x) 0 + nth i (cons_offsets Pq) 0 in
    if nth i mk false then - tol <= ci - nth (rank mk i) s 0 /\ ci - nth (rank mk i) s 0 <= tol
    else - tol <= ci /\ ci <= tol.
  Proof.
    intros H Hi ci. pose proof W as W'. destruct W' as [A B [Hg HJr HJl Hc Hy] D E F G].
    assert (Ho : length (cons_offsets Pq) = ncons Pq) by (unfold cons_offsets; rewrite map2_length; lia).
    assert (HL : length (p_cons T xt) = ncons Pq).
    { cbn. rewrite sub_slacks_length; [apply mk_length|]. rewrite vadd_length, mk_length. lia. }
    destruct (cons_violation_nth T xt tol i H ltac:(lia)) as [N1 N2].
    cbn [cons_problem p_cons] in N1, N2.
    assert (R := sub_slacks_nth mk (vadd (p_cons Pq x) (cons_offsets Pq)) s i).
    rewrite vadd_length, mk_length in R. specialize (R ltac:(lia) Hi).
    rewrite s_length in R. specialize (R eq_refl).
    rewrite vadd_nth in R by lia. fold ci in R. unfold rank.
    destruct (nth i mk false); rewrite R in N1, N2; auto.
  Qed.
End SlackLayer.

(* ====================================================================== the scaling layer *)
Lemma in_box_nth lb ub v j : in_box lb ub v = true ->
  (j < length lb)%nat -> (j < length ub)%nat -> (j < length v)%nat ->
  lb_le (nth j lb None) (nth j v 0) = true /\ le_ub (nth j v 0) (nth j ub None) = true.
Proof.
  unfold in_box. revert ub v j. induction lb as [|l lb IH]; intros [|u ub] [|a v] [|j]; cbn; intros H H1 H2 H3; try lia.
  - apply andb_true_iff in H. destruct H as [H _]. apply andb_true_iff in H. exact H.
  - apply andb_true_iff in H. destruct H as [_ H]. apply IH; auto; lia.
Qed.

Lemma is_eq_row_ldexp l u k : is_eq_row (ldexp_b l k) (ldexp_b u k) = is_eq_row l u.
Proof.
  destruct l as [a|], u as [b|]; cbn; auto. unfold ldexp.
  pose proof (p2_pos k).
  destruct (qeqb (a * p2 k) (b * p2 k)) eqn:E1, (qeqb a b) eqn:E2; auto.
  - apply qeqb_iff in E1. assert (a == b) by nra. apply qeqb_iff in H0. congruence.
  - apply qeqb_iff in E2. assert (a * p2 k == b * p2 k) by (rewrite E2; reflexivity). apply qeqb_iff in H0. congruence.
Qed.

Lemma slack_mask_scaled sc P : length (cons_lb P) = length (cw sc) -> length (cons_ub P) = length (cw sc) ->
  slack_mask (scaled_problem sc P) = slack_mask P.
Proof.
  unfold slack_mask. cbn [scaled_problem cons_lb cons_ub]. generalize (cw sc), (cons_ub P).
  induction (cons_lb P) as [|l lb IH]; intros [|k ws] [|u ub] H1 H2; cbn in *; try discriminate; auto.
  rewrite is_eq_row_ldexp. f_equal. apply IH; lia.
Qed.

(* scaling a quantity by 2^k scales a tolerance band by 2^k *)
Lemma band_scale a t k : - t <= a * p2 k /\ a * p2 k <= t <-> - (t * p2 (- k)) <= a /\ a <= t * p2 (- k).
Proof.
  pose proof (p2_pos k). pose proof (p2_pos (- k)). pose proof (p2_cancel k).
  split; intros [A B]; split; nra.
Qed.

Lemma in_box_app_firstn lb : forall ub sl su v n, length lb = n -> length ub = n ->
  in_box (lb ++ sl) (ub ++ su) v = true -> in_box lb ub (firstn n v) = true.
Proof.
  unfold in_box. induction lb as [|l lb IH]; intros [|u ub] sl su [|a v] [|n] HL HU H; cbn in *; try discriminate; try lia; auto.
  apply andb_true_iff in H. destruct H as [H1 H2]. rewrite H1. cbn. eapply IH; eauto; lia.
Qed.

Lemma band_lower a ci s tol w : a * p2 w <= s -> - tol <= ci * p2 w + 0 - s -> a - tol * p2 (- w) <= ci.
Proof.
  intros H1 H2. pose proof (p2_pos w). pose proof (p2_pos (- w)). pose proof (p2_cancel w) as Pc.
  assert (X : (a - ci) * p2 w <= tol) by lra.
  assert (Y : a - ci == ((a - ci) * p2 w) * p2 (- w)) by (rewrite <- Qmult_assoc, Pc; ring).
  assert (Z : ((a - ci) * p2 w) * p2 (- w) <= tol * p2 (- w)) by (apply Qmult_le_compat_r; lra).
  lra.
Qed.
Lemma band_upper b ci s tol w : s <= b * p2 w -> ci * p2 w + 0 - s <= tol -> ci <= b + tol * p2 (- w).
Proof.
  intros H1 H2. pose proof (p2_pos w). pose proof (p2_pos (- w)). pose proof (p2_cancel w) as Pc.
  assert (X : (ci - b) * p2 w <= tol) by lra.
  assert (Y : ci - b == ((ci - b) * p2 w) * p2 (- w)) by (rewrite <- Qmult_assoc, Pc; ring).
  assert (Z : ((ci - b) * p2 w) * p2 (- w) <= tol * p2 (- w)) by (apply Qmult_le_compat_r; lra).
  lra.
Qed.

Section UserKKT.
  Variable P : problem.
  Variable sc : scaling.
  Variable atol tol : Q.
  Variables xt yt : vec.             (* the internal point: scaled variables followed by slacks *)
  Notation Ps := (scaled_problem sc P).
  Notation T := (cons_problem Ps).
  Notation xs := (orig_vals Ps xt).
  (* what Transformation.restore_sol returns for (xt, yt, bounds_dual) *)
  Notation x := (unscale_primal sc xs).
  Notation y := (unscale_dual sc yt).
  Notation bd := (bounds_dual T atol xt yt).
  Notation d := (unscale_bounds_dual sc (orig_vals Ps bd)).

  Lemma restore_is : restore_sol (Some sc) P xt yt bd = (x, y, d).
  Proof. reflexivity. Qed.

  Record wfu : Prop := {
    wu_vw : length (vw sc) = nvars P;
    wu_cw : length (cw sc) = ncons P;
    wu_slack : wfs Ps xt yt;
    wu_sh : shaped P x y
  }.
  Hypothesis W : wfu.
  Hypothesis R : total_res T atol xt yt <= tol.

  Lemma xs_length : length xs = nvars P.
  Proof. destruct W as [_ _ S _]. apply (x_length Ps xt yt S). Qed.

  (* 1. stationarity of the USER's Lagrangian with the returned d, tolerance tol * 2^(v_j - o) *)
  Theorem user_stationarity j : (j < nvars P)%nat ->
    let Gj := nth j (lag_grad P x y) 0 in
    qabs (Gj + nth j d 0) <= tol * p2 (nth j (vw sc) 0%Z - ow sc).
  Proof.
    intros Hj Gj. destruct W as [Hv Hc S Sh]. pose proof S as S'. destruct S' as [A B _ D E F G].
    destruct (total_res_parts T atol xt yt tol R) as (_ & _ & RS).
    destruct (orig_column Ps atol xt yt S tol j RS Hj) as [N Ebd].
    assert (EG : nth j (lag_grad Ps xs yt) 0 == Gj * p2 (ow sc - nth j (vw sc) 0%Z)).
    { apply scaled_lag_grad; auto; cbn in B; try exact B; try lia. }
    (* d_j = bd_j * 2^(v_j - o) *)
    assert (Hbd : length bd = (nvars P + num_slacks Ps)%nat).
    { rewrite (bounds_dual_length T atol xt yt (T_wf Ps xt yt S)). reflexivity. }
    assert (Ed : nth j d 0 == nth j bd 0 * p2 (nth j (vw sc) 0%Z - ow sc)).
    { unfold unscale_bounds_dual, bound_w. rewrite ldexpv_nth.
      - unfold ldexp, orig_vals. rewrite <- (firstn_skipn (nvars Ps) bd) at 2.
        rewrite app_nth1 by (rewrite firstn_length; cbn; lia).
        rewrite (nth_indep _ 0%Z (0 - ow sc)%Z) by (rewrite map_length; lia).
        rewrite (map_nth (fun v => (v - ow sc)%Z)). reflexivity.
      - unfold orig_vals. rewrite firstn_length. cbn. lia.
      - rewrite map_length. lia. }
    set (B0 := bdual1 atol (nth j xs 0) (nth j (var_lb Ps) None) (nth j (var_ub Ps) None) (- nth j (lag_grad Ps xs yt) 0)) in *.
    assert (Key : Gj + nth j d 0 == (nth j (lag_grad Ps xs yt) 0 + B0) * p2 (nth j (vw sc) 0%Z - ow sc)).
    { rewrite Ed, Ebd, EG.
      assert (C : p2 (ow sc - nth j (vw sc) 0%Z) * p2 (nth j (vw sc) 0%Z - ow sc) == 1).
      { rewrite <- p2_add. replace (ow sc - nth j (vw sc) 0 + (nth j (vw sc) 0 - ow sc))%Z with 0%Z by lia. reflexivity. }
      transitivity (Gj * (p2 (ow sc - nth j (vw sc) 0%Z) * p2 (nth j (vw sc) 0%Z - ow sc)) + B0 * p2 (nth j (vw sc) 0%Z - ow sc)); [rewrite C; ring|ring]. }
    rewrite (qabs_compat _ _ Key).
    pose proof (p2_pos (nth j (vw sc) 0%Z - ow sc)) as Pp.
    apply qabs_le in N. apply qabs_le. split; nra.
  Qed.

  (* 2. sign of d: the documented convention, read off the internal active set *)
  Theorem user_bound_dual_sign j : (j < nvars P)%nat ->
    let lo := near_lower atol (nth j xs 0) (nth j (var_lb Ps) None) in
    let up := near_upper atol (nth j xs 0) (nth j (var_ub Ps) None) in
    (lo = false -> up = false -> nth j d 0 == 0)
    /\ (lo = true -> up = false -> nth j d 0 <= 0)
    /\ (lo = false -> up = true -> 0 <= nth j d 0).
  Proof.
    intros Hj lo up. destruct W as [Hv Hc S Sh]. pose proof S as S'. destruct S' as [A B _ D E F G].
    destruct (total_res_parts T atol xt yt tol R) as (_ & _ & RS).
    destruct (orig_column Ps atol xt yt S tol j RS Hj) as [_ Ebd].
    assert (Hbd : length bd = (nvars P + num_slacks Ps)%nat).
    { rewrite (bounds_dual_length T atol xt yt (T_wf Ps xt yt S)). reflexivity. }
    assert (Ed : nth j d 0 == nth j bd 0 * p2 (nth j (vw sc) 0%Z - ow sc)).
    { unfold unscale_bounds_dual, bound_w. rewrite ldexpv_nth.
      - unfold ldexp, orig_vals. rewrite <- (firstn_skipn (nvars Ps) bd) at 2.
        rewrite app_nth1 by (rewrite firstn_length; cbn; lia).
        rewrite (nth_indep _ 0%Z (0 - ow sc)%Z) by (rewrite map_length; lia).
        rewrite (map_nth (fun v => (v - ow sc)%Z)). reflexivity.
      - unfold orig_vals. rewrite firstn_length. cbn. lia.
      - rewrite map_length. lia. }
    pose proof (p2_pos (nth j (vw sc) 0%Z - ow sc)) as Pp.
    rewrite Ed, Ebd. repeat split.
    - intros L U. rewrite (bdual1_interior atol _ _ _ _ L U). ring.
    - intros L U. pose proof (bdual1_lower atol _ _ _ (- nth j (lag_grad Ps xs yt) 0) L U). nra.
    - intros L U. pose proof (bdual1_upper atol _ _ _ (- nth j (lag_grad Ps xs yt) 0) L U). nra.
  Qed.

  (* 3. the returned x satisfies the user's bounds exactly when the internal point is in the internal box *)
  Theorem user_bounds_exact : in_box (var_lb T) (var_ub T) xt = true ->
    in_box (var_lb P) (var_ub P) x = true.
  Proof.
    intros HB. destruct W as [Hv Hc S Sh]. destruct S as [A B _ D E F G]. cbn in A, D, E.
    unfold unscale_primal. rewrite <- orig_x_in_box.
    cbn [cons_problem var_lb var_ub scaled_problem] in HB.
    unfold orig_vals. cbn [scaled_problem nvars].
    rewrite map2_length in D, E.
    eapply in_box_app_firstn; [| |exact HB]; rewrite map2_length; lia.
  Qed.
  (* 4. multiplier signs on inequality / ranged rows, read off the slack column of the internal
        stationarity residual: y_i is zero to tolerance when the slack is away from both bounds, may be
        negative only at the lower and positive only at the upper bound; tolerance tol * 2^(w_i - o) *)
  Theorem user_multiplier_sign i : (i < ncons P)%nat -> nth i (slack_mask Ps) false = true ->
    let k := rank (slack_mask Ps) i in
    let sk := nth k (slack_vals Ps xt) 0 in
    let lo := near_lower atol sk (nth i (cons_lb Ps) None) in
    let up := near_upper atol sk (nth i (cons_ub Ps) None) in
    let t := tol * p2 (nth i (cw sc) 0%Z - ow sc) in
    (lo = false -> up = false -> - t <= nth i y 0 /\ nth i y 0 <= t)
    /\ (lo = true -> up = false -> nth i y 0 <= t)
    /\ (lo = false -> up = true -> - t <= nth i y 0).
  Proof.
    intros Hi Hm k sk lo up t. destruct W as [Hv Hc S Sh]. pose proof S as S'. destruct S' as [A B _ D E F G].
    destruct (total_res_parts T atol xt yt tol R) as (_ & _ & RS).
    pose proof (slack_column Ps atol xt yt S tol i RS Hi Hm) as N. cbv zeta in N. fold k sk in N.
    assert (C : bdual1 atol sk (nth i (cons_lb Ps) None) (nth i (cons_ub Ps) None) (nth i yt 0)
                == bdual1 atol sk (nth i (cons_lb Ps) None) (nth i (cons_ub Ps) None) (- - nth i yt 0))
      by (apply bdual1_compat; ring).
    rewrite (qabs_compat _ _ (Qplus_comp _ _ (Qeq_refl _) _ _ C)) in N.
    assert (Ey : nth i y 0 == nth i yt 0 * p2 (nth i (cw sc) 0%Z - ow sc)).
    { unfold unscale_dual, dual_w. rewrite ldexpv_nth.
      - unfold ldexp. rewrite (nth_indep _ 0%Z (0 - ow sc)%Z) by (rewrite map_length; lia).
        rewrite (map_nth (fun c => (c - ow sc)%Z)). reflexivity.
      - cbn in B. lia.
      - rewrite map_length. lia. }
    pose proof (p2_pos (nth i (cw sc) 0%Z - ow sc)) as Pp.
    unfold t. rewrite Ey. split; [|split].
    - intros L U. destruct (stat1_interior atol _ _ _ _ tol L U N). split; nra.
    - intros L U. pose proof (stat1_lower atol _ _ _ _ tol L U N). nra.
    - intros L U. pose proof (stat1_upper atol _ _ _ _ tol L U N). nra.
  Qed.

  (* 5. feasibility of the user's constraints: l_i - tol 2^-w_i <= c_i(x) <= u_i + tol 2^-w_i, given that
        the internal point is in the internal box (so that the slack lies in [l 2^w, u 2^w]) *)
  Theorem user_feasibility i : in_box (var_lb T) (var_ub T) xt = true -> (i < ncons P)%nat ->
    length (p_cons P x) = ncons P ->
    let ci := nth i (p_cons P x) 0 in
    let t := tol * p2 (- nth i (cw sc) 0%Z) in
    match nth i (cons_lb P) None with Some a => a - t <= ci | None => True end
    /\ match nth i (cons_ub P) None with Some b => ci <= b + t | None => True end.
  Proof.
    intros HB Hi HcL ci t. destruct W as [Hv Hc S Sh]. pose proof S as S'. destruct S' as [A B _ D E F G].
    destruct (total_res_parts T atol xt yt tol R) as (RC & _ & _).
    pose proof (cons_row Ps xt yt S tol i RC Hi) as N. cbv zeta in N.
    cbn [scaled_problem ncons cons_lb cons_ub] in F, G. rewrite map2_length in F, G.
    assert (Ec : nth i (p_cons Ps xs) 0 == ci * p2 (nth i (cw sc) 0%Z)).
    { cbn [scaled_problem p_cons]. unfold ci, unscale_primal in *. rewrite ldexpv_nth by lia. reflexivity. }
    assert (El : nth i (cons_lb Ps) None = ldexp_b (nth i (cons_lb P) None) (nth i (cw sc) 0%Z)).
    { cbn [scaled_problem cons_lb]. apply map2_nth; lia. }
    assert (Eu : nth i (cons_ub Ps) None = ldexp_b (nth i (cons_ub P) None) (nth i (cw sc) 0%Z)).
    { cbn [scaled_problem cons_ub]. apply map2_nth; lia. }
    assert (Eo : nth i (cons_offsets Ps) 0
                 = if is_eq_row (nth i (cons_lb Ps) None) (nth i (cons_ub Ps) None)
                   then match nth i (cons_lb Ps) None with Some a => - a | None => 0 end else 0).
    { unfold cons_offsets. rewrite (map2_nth _ (cons_lb Ps) (cons_ub Ps) i None None 0)
        by (cbn [scaled_problem cons_lb cons_ub]; rewrite map2_length; lia). reflexivity. }
    assert (Em : nth i (slack_mask Ps) false = negb (is_eq_row (nth i (cons_lb Ps) None) (nth i (cons_ub Ps) None))).
    { unfold slack_mask. rewrite (map2_nth _ (cons_lb Ps) (cons_ub Ps) i None None false)
        by (cbn [scaled_problem cons_lb cons_ub]; rewrite map2_length; lia). reflexivity. }
    pose proof (p2_pos (nth i (cw sc) 0%Z)) as Pp. pose proof (p2_pos (- nth i (cw sc) 0%Z)) as Pn.
    pose proof (p2_cancel (nth i (cw sc) 0%Z)) as Pc.
    rewrite Em, Eo in N. rewrite El, Eu in N.
    destruct (is_eq_row (ldexp_b (nth i (cons_lb P) None) (nth i (cw sc) 0%Z))
                        (ldexp_b (nth i (cons_ub P) None) (nth i (cw sc) 0%Z))) eqn:EQ; cbn [negb] in N.
    - (* equality row: |2^w c_i - 2^w l_i| <= tol and l_i == u_i *)
      rewrite is_eq_row_ldexp in EQ. unfold is_eq_row in EQ.
      destruct (nth i (cons_lb P) None) as [a|], (nth i (cons_ub P) None) as [b|]; try discriminate.
      apply qeqb_iff in EQ. cbn [ldexp_b option_map] in N. unfold ldexp in N. rewrite Ec in N. unfold t.
      destruct N as [N1 N2]. split; nra.
    - (* slack row: |2^w c_i - s_k| <= tol with s_k in [2^w l_i, 2^w u_i] *)
      assert (Hm : nth i (slack_mask Ps) false = true) by (rewrite Em, El, Eu, EQ; reflexivity).
      set (k := rank (slack_mask Ps) i) in *.
      assert (Hk : (k < num_slacks Ps)%nat)
        by (apply rank_lt; [rewrite (mk_length Ps xt yt S); exact Hi|exact Hm]).
      destruct (in_box_nth _ _ _ (nvars Ps + k)%nat HB) as [B1 B2].
      { cbn [cons_problem var_lb]. rewrite app_length, select_length by (rewrite (mk_length Ps xt yt S); cbn; rewrite map2_length; lia). unfold num_slacks in Hk. lia. }
      { cbn [cons_problem var_ub]. rewrite app_length, select_length by (rewrite (mk_length Ps xt yt S); cbn; rewrite map2_length; lia). unfold num_slacks in Hk. lia. }
      { lia. }
      assert (Ex : nth (nvars Ps + k) xt 0 = nth k (slack_vals Ps xt) 0).
      { unfold slack_vals. rewrite <- (firstn_skipn (nvars Ps) xt) at 1. rewrite app_nth2; rewrite firstn_length; [|lia]. f_equal. lia. }
      assert (Elb : nth (nvars Ps + k) (var_lb T) None = nth i (cons_lb Ps) None).
      { cbn [cons_problem var_lb]. rewrite app_nth2 by lia. replace (nvars Ps + k - length (var_lb Ps))%nat with k by lia.
        apply select_nth; [rewrite (mk_length Ps xt yt S); cbn; rewrite map2_length; lia|exact Hm]. }
      assert (Eub : nth (nvars Ps + k) (var_ub T) None = nth i (cons_ub Ps) None).
      { cbn [cons_problem var_ub]. rewrite app_nth2 by lia. replace (nvars Ps + k - length (var_ub Ps))%nat with k by lia.
        apply select_nth; [rewrite (mk_length Ps xt yt S); cbn; rewrite map2_length; lia|exact Hm]. }
      rewrite Ex, Elb, El in B1. rewrite Ex, Eub, Eu in B2.
      rewrite Ec in N. destruct N as [N1 N2]. unfold t.
      assert (Z0 : ci * p2 (nth i (cw sc) 0%Z) + 0 - nth k (slack_vals Ps xt) 0
                   == ci * p2 (nth i (cw sc) 0%Z) - nth k (slack_vals Ps xt) 0) by ring.
      split.
      + destruct (nth i (cons_lb P) None) as [a|]; [|exact I]. cbn in B1. unfold ldexp in B1. apply qle_iff in B1.
        eapply band_lower; eauto.
      + destruct (nth i (cons_ub P) None) as [b|]; [|exact I]. cbn in B2. unfold ldexp in B2. apply qle_iff in B2.
        eapply band_upper; eauto.
  Qed.
End UserKKT.
