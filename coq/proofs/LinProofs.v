(* LinProofs.v — C17: the linear-solver wrappers return the backend's vector only when the backend
   reports convergence (or the initial guess already solves the system), and fail loudly otherwise. *)
From Verif Require Import LinSolve VecLemmas.
From Coq Require Import Lqa Lia.

Section LinProofs.
  Variable splu_ok : mat -> bool.
  Variable lu_backsolve : mat -> bool -> vec -> vec.
  Variable iter_backend : bcall -> vec * Z.
  Variable n : nat.
  Notation solve := (solve lu_backsolve iter_backend n).

  (* GMRES: a vector is returned only if the backend reported info = 0 for exactly the system asked for
     (the transposed matrix for trans = true), or if the initial guess already has residual < 1e-8 *)
  Theorem gmres_returns_only_converged A rhs trans x0 v call :
    solve GMRES A rhs trans x0 = (LOk v, call) ->
    let M := if trans then transpose n A else A in
    (exists c, call = Some c /\ b_mat c = M /\ b_rhs c = rhs /\ b_x0 c = x0
               /\ snd (iter_backend c) = 0%Z /\ v = fst (iter_backend c))
    \/ (call = None /\ x0 = Some v /\ residual_inf M v rhs < c_1e8').
  Proof.
    intros H. cbv zeta. unfold LinSolve.solve in H.
    set (M := if trans then transpose n A else A) in *.
    destruct x0 as [w|].
    - destruct (qlt (residual_inf M w rhs) c_1e8') eqn:E.
      + inversion H; subst. right. repeat split; auto. apply qlt_iff. exact E.
      + set (c := {| b_mat := M; b_rhs := rhs; b_x0 := Some w; b_trans := false |}) in *.
        destruct (iter_backend c) as [sol info] eqn:EB. destruct (Z.eqb info 0) eqn:EI; inversion H; subst.
        left. exists c. rewrite EB. cbn. apply Z.eqb_eq in EI. repeat split; auto.
    - set (c := {| b_mat := M; b_rhs := rhs; b_x0 := None; b_trans := false |}) in *.
      destruct (iter_backend c) as [sol info] eqn:EB. destruct (Z.eqb info 0) eqn:EI; inversion H; subst.
      left. exists c. rewrite EB. cbn. apply Z.eqb_eq in EI. repeat split; auto.
  Qed.

  (* GMRES: a backend that reports info <> 0 makes the wrapper raise *)
  Theorem gmres_fails_loudly A rhs trans x0 c :
    snd (solve GMRES A rhs trans x0) = Some c -> snd (iter_backend c) <> 0%Z ->
    fst (solve GMRES A rhs trans x0) = LErr.
  Proof.
    unfold LinSolve.solve. set (M := if trans then transpose n A else A).
    destruct (match x0 with Some v => qlt (residual_inf M v rhs) c_1e8' | None => false end).
    - destruct x0; cbn; discriminate.
    - destruct (iter_backend {| b_mat := M; b_rhs := rhs; b_x0 := x0; b_trans := false |}) as [sol info] eqn:EB.
      cbn. intros H. inversion H; subst. rewrite EB. cbn. intros NE.
      destruct (Z.eqb info 0) eqn:EI; [apply Z.eqb_eq in EI; contradiction|reflexivity].
  Qed.

  (* MINRES: same, for the matrix itself (trans is ignored: sound for the symmetric matrices it is restricted to) *)
  Theorem minres_returns_only_converged A rhs trans x0 v call :
    solve MINRES A rhs trans x0 = (LOk v, call) ->
    exists c, call = Some c /\ b_mat c = A /\ b_rhs c = rhs /\ b_x0 c = x0
              /\ snd (iter_backend c) = 0%Z /\ v = fst (iter_backend c).
  Proof.
    unfold LinSolve.solve. intros H.
    set (c := {| b_mat := A; b_rhs := rhs; b_x0 := x0; b_trans := false |}) in *.
    destruct (iter_backend c) as [sol info] eqn:EB. destruct (Z.eqb info 0) eqn:EI; inversion H; subst.
    exists c. rewrite EB. cbn. apply Z.eqb_eq in EI. repeat split; auto.
  Qed.
  Theorem minres_requires_symmetric A : create splu_ok MINRES A false = CreateAssert.
  Proof. reflexivity. Qed.

  (* LU: a failed factorisation raises at construction; the solve forwards the trans flag and ignores
     the initial guess *)
  Theorem lu_fail_loud A sym : splu_ok A = false -> create splu_ok LU A sym = CreateErr.
  Proof. intros H. cbn. rewrite H. reflexivity. Qed.
  Theorem lu_solve_spec A rhs trans x0 :
    solve LU A rhs trans x0
    = (LOk (lu_backsolve A trans rhs), Some {| b_mat := A; b_rhs := rhs; b_x0 := None; b_trans := trans |}).
  Proof. reflexivity. Qed.
End LinProofs.
