(* DerivProofs2.v — the converse of correct_accepted: the checker's silence is informative (C19). *)
From Verif Require Import DerivCheck VecLemmas DerivProofs.
From Coq Require Import List Lia.
Import ListNotations.

(* acceptance means every checked column has no failing row ... *)
Lemma accepted_all_clean f x D eps atol : forall cols,
  check_cols f x D eps atol cols = None ->
  forall k, In k cols -> bad_rows atol (col k D) (fd_col f x k eps) = [].
Proof.
  induction cols as [|i cols IH]; intros H k Hk; [contradiction|].
  cbn [check_cols] in H.
  destruct (bad_rows atol (col i D) (fd_col f x i eps)) as [|r rs] eqn:E; [|discriminate].
  destruct Hk as [<- | Hk]; [exact E | exact (IH H k Hk)].
Qed.

(* ... so acceptance is EXACTLY "no checked column has a failing row" *)
Lemma accepted_iff f x D eps atol cols :
  check_cols f x D eps atol cols = None
  <-> forall k, In k cols -> bad_rows atol (col k D) (fd_col f x k eps) = [].
Proof. split; [apply accepted_all_clean | apply correct_accepted]. Qed.

(* entry level: after acceptance every compared entry passed the closeness test *)
Lemma accepted_entries_close f x D eps atol cols :
  check_cols f x D eps atol cols = None ->
  forall k r, In k cols -> (r < length (col k D))%nat -> (r < length (fd_col f x k eps))%nat ->
    isclose atol (nth r (col k D) 0) (nth r (fd_col f x k eps) 0) = true.
Proof.
  intros H k r Hk H1 H2.
  pose proof (accepted_all_clean _ _ _ _ _ _ H k Hk) as E.
  destruct (isclose atol (nth r (col k D) 0) (nth r (fd_col f x k eps) 0)) eqn:C; [reflexivity|].
  assert (In r (bad_rows atol (col k D) (fd_col f x k eps))) as Hin
    by (apply bad_rows_spec; repeat split; assumption).
  rewrite E in Hin. contradiction.
Qed.

(* any number of wrong entries: whenever SOME checked column has a failing row the checker raises, and what it
   reports is a genuine failing column with exactly its failing rows *)
Lemma any_bad_column_raises f x D eps atol cols k :
  In k cols -> bad_rows atol (col k D) (fd_col f x k eps) <> [] ->
  exists rows i, check_cols f x D eps atol cols = Some (rows, i)
    /\ In i cols /\ rows = bad_rows atol (col i D) (fd_col f x i eps) /\ rows <> [].
Proof.
  intros Hk Hbad.
  destruct (check_cols f x D eps atol cols) as [[rows i]|] eqn:E.
  - exists rows, i. split; [reflexivity|].
    destruct (error_pinpoints _ _ _ _ _ _ _ _ E) as (pre & post & -> & _ & Hr & Hne).
    repeat split; auto. apply in_or_app. right. left. reflexivity.
  - exfalso. apply Hbad. exact (accepted_all_clean _ _ _ _ _ _ E k Hk).
Qed.
