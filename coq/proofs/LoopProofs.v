(* LoopProofs.v — invariants of Solver.solve's main loop (Loop.v) for every step oracle, clock,
   configuration and penalty policy.  The iterate type and everything read off an iterate are
   abstract. *)
From Verif Require Import Loop VecLemmas.
From Coq Require Import Lqa Lia.

Section LoopProofs.
  Variable It : Type.
  Variable it_total : It -> Q.
  Variable it_linf : It -> bool.
  Variable it_obj : It -> Q.
  Variable it_feas : It -> bool.
  Variable it_pdata : It -> pdata.
  Variable step_norm : It -> It -> Q.

  Notation state := (st It).
  Notation check := (check It it_total it_linf it_obj it_feas).
  Notation body := (body It it_pdata step_norm).
  Notation run := (run It it_total it_linf it_obj it_feas it_pdata step_norm).
  Notation resolve := (resolve It).
  Notation oracle := (oracle It).

  (* ---------------------------------------------------------------- check *)
  (* everything but the clock position *)
  Definition same_alg (s s1 : state) : Prop :=
    cur It s1 = cur It s /\ lamb It s1 = lamb It s /\ rho It s1 = rho It s /\ pst It s1 = pst It s
    /\ itn It s1 = itn It s /\ nacc It s1 = nacc It s /\ tstart It s1 = tstart It s
    /\ dstart It s1 = dstart It s /\ announced It s1 = announced It s /\ trials It s1 = trials It s
    /\ path It s1 = path It s /\ times It s1 = times It s /\ pdist It s1 = pdist It s
    /\ nchanges It s1 = nchanges It s.

  Ltac sa SA := destruct SA as (Sc & Sl & Sr & Sp & Si & Sn & Sts & Sds & Sa & Str & Spa & Sti & Spd & Snc).

  Lemma same_alg_refl s : same_alg s s.
  Proof. unfold same_alg; repeat split. Qed.

  Lemma check_same c clk s os s1 : check c clk s = (os, s1) -> same_alg s s1.
  Proof.
    unfold Loop.check. intros H.
    destruct (match c_iter_limit c with Some L => (L <=? itn It s)%nat | None => false end).
    - inversion H; subst. apply same_alg_refl.
    - repeat match type of H with (if ?b then _ else _) = _ => destruct b end;
        inversion H; subst; unfold same_alg; cbn; repeat split.
  Qed.

  Lemma check_cpos c clk s os s1 : check c clk s = (os, s1) ->
    cpos It s1 = cpos It s \/ cpos It s1 = S (cpos It s).
  Proof.
    unfold Loop.check. intros H.
    destruct (match c_iter_limit c with Some L => (L <=? itn It s)%nat | None => false end).
    - inversion H; subst. auto.
    - repeat match type of H with (if ?b then _ else _) = _ => destruct b end;
        inversion H; subst; cbn; auto.
  Qed.

  (* the five tests in the documented order: the first that fires wins *)
  Lemma check_spec c clk s os s1 : check c clk s = (os, s1) ->
    let hit := match c_iter_limit c with Some L => (L <=? itn It s)%nat | None => false end in
    let t := clk (cpos It s) in
    (hit = true /\ os = Some IterationLimit /\ s1 = s)
    \/ (hit = false /\ cpos It s1 = S (cpos It s) /\
        ((deadline_passed It c s t = true /\ os = Some TimeLimit)
         \/ (deadline_passed It c s t = false /\
             ((qle (it_total (cur It s)) (c_opt_tol c) = true /\ os = Some Optimal)
              \/ (qle (it_total (cur It s)) (c_opt_tol c) = false /\
                  ((it_linf (cur It s) = true /\ os = Some LocallyInfeasible)
                   \/ (it_linf (cur It s) = false /\
                       ((qle (it_obj (cur It s)) (c_obj_lower c) && it_feas (cur It s) = true
                         /\ os = Some Unbounded)
                        \/ (qle (it_obj (cur It s)) (c_obj_lower c) && it_feas (cur It s) = false
                            /\ os = None))))))))).
  Proof.
    unfold Loop.check. intros H. cbv zeta.
    destruct (match c_iter_limit c with Some L => (L <=? itn It s)%nat | None => false end).
    - left. inversion H; subst. auto.
    - right. split; [reflexivity|].
      destruct (deadline_passed It c s (clk (cpos It s))) eqn:E1.
      { inversion H; subst; cbn. split; [reflexivity|]. left. split; reflexivity. }
      destruct (qle (it_total (cur It s)) (c_opt_tol c)) eqn:E2.
      { inversion H; subst; cbn. split; [reflexivity|]. right. split; [reflexivity|]. left. split; reflexivity. }
      destruct (it_linf (cur It s)) eqn:E3.
      { inversion H; subst; cbn. split; [reflexivity|]. right. split; [reflexivity|]. right. split; [reflexivity|].
        left. split; reflexivity. }
      destruct (qle (it_obj (cur It s)) (c_obj_lower c) && it_feas (cur It s)) eqn:E4.
      { inversion H; subst; cbn. split; [reflexivity|]. right. split; [reflexivity|]. right. split; [reflexivity|].
        right. split; [reflexivity|]. left. split; reflexivity. }
      inversion H; subst; cbn. split; [reflexivity|]. right. split; [reflexivity|]. right. split; [reflexivity|].
      right. split; [reflexivity|]. right. split; reflexivity.
  Qed.

  (* ---------------------------------------------------------------- body *)
  (* one pass of the loop body, as a relation between the states before and after *)
  Record body_step (c : cfg) (s s' : state) (nx : It) (l : Q) (acc fin disp : bool) : Prop := {
    bs_lmax : qle (c_lamb_max c) l = false;
    bs_itn : itn It s' = S (itn It s);
    bs_ann : announced It s' = announced It s ++ [(cur It s, nx, acc)];
    bs_trials : trials It s' = trials It s ++ [mk_trial (rho It s) (1 / lamb It s) disp l acc fin];
    bs_lamb : lamb It s' = l;
    bs_tstart : tstart It s' = tstart It s;
    bs_cpos : (cpos It s < cpos It s')%nat;
    bs_fin_acc : fin = true -> acc = true;
    bs_accept : fin = true ->
      cur It s' = nx /\ nacc It s' = S (nacc It s)
      /\ path It s' = (if c_collect_path c then path It s ++ [nx] else path It s)
      /\ times It s' = (if c_collect_path c then times It s ++ [last (times It s) 0 + 1 / lamb It s]
                        else times It s)
      /\ pdist It s' = pdist It s + step_norm (cur It s) nx
      /\ exists ps' nrho, p_update (c_policy c) (c_pparams c) (pst It s) (it_pdata nx) = PRes ps' nrho true
                          /\ pst It s' = ps' /\ rho It s' == nrho
                          /\ (rho It s' = rho It s \/ rho It s' = nrho);
    bs_reject : fin = false ->
      cur It s' = cur It s /\ nacc It s' = nacc It s /\ path It s' = path It s
      /\ times It s' = times It s /\ rho It s' = rho It s /\ pdist It s' = pdist It s
      /\ (pst It s' = pst It s
          \/ (acc = true /\ exists ps' r,
                p_update (c_policy c) (c_pparams c) (pst It s) (it_pdata nx) = PRes ps' r false
                /\ pst It s' = ps'))
  }.

  Definition disp_of (c : cfg) (clk : clock) (s : state) : bool :=
    match c_interval c with None => false | Some iv => qle iv (clk (cpos It s) - dstart It s) end.

  Lemma body_spec c (orc : oracle) clk s s' : body c orc clk s = inl s' ->
    exists nx l acc k fin,
      resolve c clk s (S (cpos It s)) (1 / lamb It s)
              (orc (itn It s) (cur It s) (rho It s) (1 / lamb It s) (disp_of c clk s)) = (nx, l, acc, k)
      /\ body_step c s s' nx l acc fin (disp_of c clk s).
  Proof.
    unfold Loop.body, disp_of. intros H.
    set (disp := match c_interval c with None => false | Some iv => qle iv (clk (cpos It s) - dstart It s) end) in *.
    destruct (resolve c clk s (S (cpos It s)) (1 / lamb It s)
                      (orc (itn It s) (cur It s) (rho It s) (1 / lamb It s) disp)) as [[[nx l] acc] k] eqn:ER.
    destruct (qle (c_lamb_max c) l) eqn:EL; [discriminate|].
    destruct (if disp then (S (S (cpos It s) + k), clk (S (cpos It s) + k)%nat)
              else ((S (cpos It s) + k)%nat, dstart It s)) as [p3 ds] eqn:EP.
    assert (Hp3 : (cpos It s < p3)%nat) by (destruct disp; inversion EP; lia).
    destruct acc.
    - destruct (p_update (c_policy c) (c_pparams c) (pst It s) (it_pdata nx)) as [ps' nrho a|w] eqn:EU;
        [|discriminate].
      destruct a; inversion H; subst; clear H.
      + exists nx, l, true, k, true. split; [reflexivity|].
        constructor; cbn; auto; try discriminate.
        intros _. split; [reflexivity|]. split; [reflexivity|]. split; [reflexivity|]. split; [reflexivity|].
        split; [reflexivity|].
        exists ps', nrho. split; [exact EU|]. split; [reflexivity|]. split.
        * destruct (qeqb nrho (rho It s)) eqn:EQ; cbn; [apply qeqb_iff in EQ; symmetry; exact EQ | reflexivity].
        * destruct (qeqb nrho (rho It s)); cbn; auto.
      + exists nx, l, true, k, false. split; [reflexivity|].
        constructor; cbn; auto; try discriminate.
        intros _. repeat split. right. split; auto. exists ps', nrho. auto.
    - inversion H; subst; clear H.
      exists nx, l, false, k, false. split; [reflexivity|].
      constructor; cbn; auto; try discriminate.
      intros _. repeat split. left. reflexivity.
  Qed.

  (* what body returns when it does not continue: the deliberate lambda error or a penalty assert *)
  Lemma body_stop c (orc : oracle) clk s o : body c orc clk s = inr o ->
    (exists fin, o = LambdaError It fin /\ qle (c_lamb_max c) (lamb It fin) = true
                 /\ cur It fin = cur It s /\ itn It fin = itn It s /\ nacc It fin = nacc It s
                 /\ announced It fin = announced It s /\ path It fin = path It s /\ times It fin = times It s
                 /\ rho It fin = rho It s /\ pst It fin = pst It s
                 /\ exists t, trials It fin = trials It s ++ [t] /\ t_final t = false
                              /\ t_lamb t = lamb It fin /\ t_dt t = 1 / lamb It s /\ t_rho t = rho It s)
    \/ (exists w fin nx, o = Internal It w fin /\ cur It fin = cur It s /\ itn It fin = itn It s
                      /\ p_update (c_policy c) (c_pparams c) (pst It s) (it_pdata nx) = PAssert w).
  Proof.
    unfold Loop.body. intros H.
    set (disp := match c_interval c with None => false | Some iv => qle iv (clk (cpos It s) - dstart It s) end) in *.
    destruct (resolve c clk s (S (cpos It s)) (1 / lamb It s)
                      (orc (itn It s) (cur It s) (rho It s) (1 / lamb It s) disp)) as [[[nx l] acc] k] eqn:ER.
    destruct (qle (c_lamb_max c) l) eqn:EL.
    - inversion H; subst. left. eexists. split; [reflexivity|]. cbn. repeat split; auto.
      eexists. split; [reflexivity|]. cbn. auto.
    - destruct (if disp then (S (S (cpos It s) + k), clk (S (cpos It s) + k)%nat)
                else ((S (cpos It s) + k)%nat, dstart It s)) as [p3 ds] eqn:EP.
      destruct acc.
      + destruct (p_update (c_policy c) (c_pparams c) (pst It s) (it_pdata nx)) as [ps' nrho a|w] eqn:EU.
        * destruct a; discriminate.
        * inversion H; subst. right. exists w. eexists. exists nx. split; [reflexivity|]. cbn. auto.
      + discriminate.
  Qed.

  (* ---------------------------------------------------------------- resolve *)
  (* a failed trial keeps the point and doubles lambda (StepController.fail_result); a trial abandoned at a
     deadline test keeps the point and lambda *)
  Lemma resolve_cases c clk s p dt a nx l acc k : resolve c clk s p dt a = (nx, l, acc, k) ->
    (nx = cur It s /\ (l = 2 * (1 / dt) \/ l = 1 / dt) /\ acc = false)
    \/ (exists n, a = Ans It nx l acc n).
  Proof.
    unfold Loop.resolve. intros H.
    destruct (inner_checks It c clk s p (match a with Ans _ _ _ _ k0 => k0 | Fail _ k0 => k0 end)) as [ab kk].
    destruct ab.
    - inversion H; subst. left. auto.
    - destruct a as [nx' l' acc' n|n].
      + inversion H; subst. right. exists n. reflexivity.
      + inversion H; subst. left. auto.
  Qed.

  Lemma resolve_fail c clk s p dt n nx l acc k : resolve c clk s p dt (Fail It n) = (nx, l, acc, k) ->
    nx = cur It s /\ (l = 2 * (1 / dt) \/ l = 1 / dt) /\ acc = false.
  Proof.
    intros H. destruct (resolve_cases _ _ _ _ _ _ _ _ _ _ H) as [?|[m Hm]]; auto. discriminate.
  Qed.

  (* ---------------------------------------------------------------- reachability *)
  (* states at the top of the loop, reachable from s0 *)
  Inductive reach (c : cfg) (orc : oracle) (clk : clock) (s0 : state) : state -> Prop :=
  | reach_0 : reach c orc clk s0 s0
  | reach_step s s1 s2 : reach c orc clk s0 s -> check c clk s = (None, s1) -> body c orc clk s1 = inl s2 ->
                         reach c orc clk s0 s2.

  (* a final outcome of run comes from a reachable state *)
  Lemma run_done fuel c orc clk s0 : forall s stt fin,
    reach c orc clk s0 s -> run fuel c orc clk s = Done It stt fin ->
    exists s', reach c orc clk s0 s' /\ check c clk s' = (Some stt, fin).
  Proof.
    induction fuel as [|f IH]; intros s stt fin Hr H; cbn in H; [discriminate|].
    destruct (check c clk s) as [os s1] eqn:EC.
    destruct os as [st'|].
    - inversion H; subst. exists s. auto.
    - destruct (body c orc clk s1) as [s2|o] eqn:EB.
      + eapply IH; [|exact H]. eapply reach_step; eauto.
      + destruct (body_stop _ _ _ _ _ EB) as [(fin' & -> & _)|(w & fin' & nx & -> & _)]; discriminate.
  Qed.

  Lemma run_stop fuel c orc clk s0 : forall s o,
    reach c orc clk s0 s -> run fuel c orc clk s = o ->
    (forall stt fin, o <> Done It stt fin) -> o <> OutOfFuel It ->
    exists s' s1, reach c orc clk s0 s' /\ check c clk s' = (None, s1) /\ body c orc clk s1 = inr o.
  Proof.
    induction fuel as [|f IH]; intros s o Hr H Hnd Hnf; cbn in H; [congruence|].
    destruct (check c clk s) as [os s1] eqn:EC.
    destruct os as [st'|].
    - exfalso. eapply Hnd. symmetry. exact H.
    - destruct (body c orc clk s1) as [s2|o'] eqn:EB.
      + eapply (IH s2); auto. eapply reach_step; eauto.
      + subst o'. exists s, s1. auto.
  Qed.

  (* invariants: proved once for an arbitrary predicate preserved by check and body *)
  Lemma reach_ind_inv c orc clk s0 (I : state -> Prop) :
    I s0 ->
    (forall s s1, I s -> same_alg s s1 -> (cpos It s <= cpos It s1)%nat -> I s1) ->
    (forall s s' nx l acc fin d k a,
        I s -> resolve c clk s (S (cpos It s)) (1 / lamb It s) a = (nx, l, acc, k) ->
        body_step c s s' nx l acc fin d -> I s') ->
    forall s, reach c orc clk s0 s -> I s.
  Proof.
    intros H0 Hc Hb s Hr. induction Hr as [|s s1 s2 Hr IH EC EB]; auto.
    destruct (body_spec _ _ _ _ _ EB) as (nx & l & acc & k & fin & ER & BS).
    eapply Hb; [|exact ER|exact BS].
    eapply Hc; [exact IH|eapply check_same; eauto|].
    destruct (check_cpos _ _ _ _ _ EC); lia.
  Qed.

  (* ================================================================ C12 / C02: counters *)
  Definition I_count (s : state) : Prop :=
    itn It s = length (announced It s) /\ itn It s = length (trials It s)
    /\ nacc It s = length (filter (fun t => t_final t) (trials It s)).

  Lemma count_inv c orc clk s0 : I_count s0 -> forall s, reach c orc clk s0 s -> I_count s.
  Proof.
    intros H0. apply reach_ind_inv; auto.
    - intros s s1 [A [B C]] SA _. sa SA. unfold I_count. rewrite Si, Sa, Str, Sn. auto.
    - intros s s' nx l acc fin d k a [A [B C]] _ BS. destruct BS. unfold I_count.
      rewrite bs_itn0, bs_ann0, bs_trials0, !app_length, filter_app, app_length. cbn.
      repeat split; try lia.
      destruct fin.
      + destruct (bs_accept0 eq_refl) as (_ & Hn & _). cbn. lia.
      + destruct (bs_reject0 eq_refl) as (_ & Hn & _). cbn. lia.
  Qed.

  (* iteration limit: never exceeded, and hit exactly at equality *)
  Definition I_limit (c : cfg) (s : state) : Prop :=
    match c_iter_limit c with Some L => (itn It s <= L)%nat | None => True end.

  Lemma limit_inv c orc clk s0 : I_limit c s0 -> forall s, reach c orc clk s0 s -> I_limit c s.
  Proof.
    intros H0 s Hr. induction Hr as [|s s1 s2 Hr IH EC EB]; auto.
    destruct (body_spec _ _ _ _ _ EB) as (nx & l & acc & k & fin & ER & BS).
    destruct (check_spec _ _ _ _ _ EC) as [(Hh & Ho & _)|(Hh & _)]; [discriminate|].
    pose proof (check_same _ _ _ _ _ EC) as SA. sa SA.
    unfold I_limit in *. destruct (c_iter_limit c) as [L|]; auto.
    apply Nat.leb_gt in Hh. destruct BS. lia.
  Qed.

  (* ================================================================ C12: chain and provenance *)
  (* the announced steps form a chain from x0 to the current iterate: each starts at the iterate
     that was current, and the iterate moves only to the `next` of a step announced as accepted *)
  Fixpoint chain (x : It) (ann : list (It * It * bool)) (fins : list bool) (cur : It) : Prop :=
    match ann, fins with
    | [], [] => cur = x
    | (f, n, a) :: ann', b :: fins' => f = x /\ (b = true -> a = true) /\ chain (if b then n else x) ann' fins' cur
    | _, _ => False
    end.

  Lemma chain_snoc x ann fins cur n a b :
    chain x ann fins cur -> (b = true -> a = true) ->
    chain x (ann ++ [(cur, n, a)]) (fins ++ [b]) (if b then n else cur).
  Proof.
    revert x fins. induction ann as [|[[f n'] a'] ann IH]; intros x fins H Hb.
    - destruct fins; cbn in H; [|contradiction]. subst. cbn. auto.
    - destruct fins as [|b' fins]; cbn in H; [contradiction|]. destruct H as (Hf & Hba & H).
      cbn. repeat split; auto.
  Qed.

  Definition I_chain (x0 : It) (s : state) : Prop :=
    chain x0 (announced It s) (map (fun t => t_final t) (trials It s)) (cur It s).

  Lemma chain_inv c orc clk x0 s0 : I_chain x0 s0 -> forall s, reach c orc clk s0 s -> I_chain x0 s.
  Proof.
    intros H0. apply reach_ind_inv; auto.
    - intros s s1 A SA _. sa SA. unfold I_chain in *. rewrite Sa, Str, Sc. exact A.
    - intros s s' nx l acc fin d k a A _ BS. destruct BS. unfold I_chain in *.
      rewrite bs_ann0, bs_trials0, map_app. cbn [map t_final].
      replace (cur It s') with (if fin then nx else cur It s).
      + apply chain_snoc; auto.
      + destruct fin; [destruct (bs_accept0 eq_refl) as (-> & _)|destruct (bs_reject0 eq_refl) as (-> & _)]; auto.
  Qed.

  (* provenance: the current iterate is the start or the `next` of an announced, finally accepted step *)
  Lemma chain_provenance x ann fins cur : chain x ann fins cur ->
    cur = x \/ exists f n, In (f, n, true) ann /\ cur = n.
  Proof.
    revert x fins. induction ann as [|[[f n] a] ann IH]; intros x fins H.
    - destruct fins; cbn in H; [auto|contradiction].
    - destruct fins as [|b fins]; cbn in H; [contradiction|]. destruct H as (Hf & Hba & H).
      destruct (IH _ _ H) as [E|(f' & n' & Hin & E)].
      + destruct b; [|auto]. right. exists f, n. rewrite (Hba eq_refl). split; [left; reflexivity|auto].
      + right. exists f', n'. split; [right; exact Hin|auto].
  Qed.

  (* ================================================================ C12: path and model times *)
  Fixpoint psums (t0 : Q) (ds : list Q) : list Q :=
    match ds with [] => [] | d :: ds' => (t0 + d) :: psums (t0 + d) ds' end.

  Lemma psums_app t0 a b : psums t0 (a ++ b) = psums t0 a ++ psums (last (t0 :: psums t0 a) 0) b.
  Proof.
    revert t0. induction a as [|d a IH]; intros t0; cbn [psums app]; [reflexivity|].
    rewrite IH. reflexivity.
  Qed.

  Definition acc_dts (s : state) : list Q := map (fun t => t_dt t) (filter (fun t => t_final t) (trials It s)).
  Definition acc_next (x0 : It) (s : state) : list It :=
    map (fun p => snd (fst (fst p)))
        (filter (fun p => snd p) (combine (announced It s) (map (fun t => t_final t) (trials It s)))).

  Definition I_path (c : cfg) (x0 : It) (s : state) : Prop :=
    length (announced It s) = length (trials It s) /\
    if c_collect_path c then
      times It s = 0 :: psums 0 (acc_dts s) /\ path It s = x0 :: acc_next x0 s
    else times It s = [] /\ path It s = [].

  Lemma combine_snoc {A B} (a : list A) (b : list B) x y : length a = length b ->
    combine (a ++ [x]) (b ++ [y]) = combine a b ++ [(x, y)].
  Proof.
    revert b. induction a as [|u a IH]; intros [|v b] HL; cbn in *; try discriminate; auto.
    rewrite IH by congruence. reflexivity.
  Qed.

  Lemma path_inv c orc clk x0 s0 : I_path c x0 s0 -> forall s, reach c orc clk s0 s -> I_path c x0 s.
  Proof.
    intros H0. apply reach_ind_inv; auto.
    - intros s s1 A SA _. sa SA.
      unfold I_path, acc_dts, acc_next in *. rewrite Sa, Str, Spa, Sti. exact A.
    - intros s s' nx l acc fin d k a [HL A] _ BS. destruct BS. unfold I_path, acc_dts, acc_next in *.
      rewrite bs_ann0, bs_trials0, !app_length. split; [cbn; lia|].
      rewrite map_app, filter_app, map_app. cbn [map filter t_final t_dt].
      rewrite combine_snoc by (rewrite map_length; exact HL).
      rewrite filter_app, map_app. cbn [combine map filter snd fst].
      destruct (c_collect_path c).
      + destruct A as [At Ap]. destruct fin.
        * destruct (bs_accept0 eq_refl) as (_ & _ & Hp & Ht & _). cbn [map filter snd fst].
          rewrite Ht, Hp, At, Ap. split.
          -- rewrite psums_app. reflexivity.
          -- reflexivity.
        * destruct (bs_reject0 eq_refl) as (_ & _ & Hp & Ht & _). cbn [map filter snd fst app].
          rewrite !app_nil_r. rewrite Ht, Hp. auto.
      + destruct A as [At Ap]. destruct fin.
        * destruct (bs_accept0 eq_refl) as (_ & _ & Hp & Ht & _). rewrite Ht, Hp. auto.
        * destruct (bs_reject0 eq_refl) as (_ & _ & Hp & Ht & _). rewrite Ht, Hp. auto.
  Qed.

  (* ================================================================ C15: step-size chain *)
  (* adjacent trials: the next one is called with dt = 1 / (lambda returned by the previous one), and the
     previous one returned lambda < lamb_max *)
  Fixpoint linked (lmax : Q) (l0 : Q) (ts : list trial) : Prop :=
    match ts with
    | [] => True
    | t :: ts' => t_dt t = 1 / l0 /\ (ts' <> [] -> qle lmax (t_lamb t) = false) /\ linked lmax (t_lamb t) ts'
    end.

  Definition last_lamb (l0 : Q) (ts : list trial) : Q := last (map (fun t => t_lamb t) ts) l0.

  Lemma last_default {A} (y : A) l d1 d2 : last (y :: l) d1 = last (y :: l) d2.
  Proof.
    revert y. induction l as [|z l IH]; intros y; [reflexivity|].
    change (last (z :: l) d1 = last (z :: l) d2). apply IH.
  Qed.
  Lemma last_cons {A} (x : A) l d : last (x :: l) d = last l x.
  Proof.
    destruct l as [|y l]; [reflexivity|].
    change (last (y :: l) d = last (y :: l) x). apply last_default.
  Qed.

  Lemma last_lamb_cons l0 u ts : last_lamb l0 (u :: ts) = last_lamb (t_lamb u) ts.
  Proof. unfold last_lamb. cbn [map]. apply last_cons. Qed.

  Lemma linked_snoc lmax l0 ts t :
    linked lmax l0 ts -> (ts <> [] -> qle lmax (last_lamb l0 ts) = false) -> t_dt t = 1 / last_lamb l0 ts ->
    linked lmax l0 (ts ++ [t]).
  Proof.
    revert l0. induction ts as [|u ts IH]; intros l0 H Hm Hd.
    - cbn. unfold last_lamb in Hd. cbn in Hd. repeat split; auto. intros X; contradiction.
    - destruct H as (H1 & H2 & H3). rewrite last_lamb_cons in Hm, Hd.
      cbn [app linked]. repeat split; auto.
      + intros _. destruct ts as [|v ts].
        * apply Hm. discriminate.
        * apply H2. discriminate.
      + apply IH; auto. intros Hne. apply Hm. discriminate.
  Qed.

  Lemma last_lamb_snoc l0 ts t : last_lamb l0 (ts ++ [t]) = t_lamb t.
  Proof. unfold last_lamb. rewrite map_app. cbn. apply last_last. Qed.

  Definition I_lamb (c : cfg) (s : state) : Prop :=
    linked (c_lamb_max c) (c_lamb_init c) (trials It s)
    /\ lamb It s = last_lamb (c_lamb_init c) (trials It s)
    /\ (trials It s <> [] -> qle (c_lamb_max c) (lamb It s) = false).

  Lemma lamb_inv c orc clk s0 : I_lamb c s0 -> forall s, reach c orc clk s0 s -> I_lamb c s.
  Proof.
    intros H0. apply reach_ind_inv; auto.
    - intros s s1 A SA _. sa SA. unfold I_lamb in *. rewrite Sl, Str. exact A.
    - intros s s' nx l acc fin d k a (A & B & C) _ BS. destruct BS. unfold I_lamb.
      rewrite bs_trials0, bs_lamb0, last_lamb_snoc. cbn [t_lamb]. repeat split; auto.
      apply linked_snoc; auto.
      + rewrite <- B. exact C.
      + cbn. rewrite B. reflexivity.
  Qed.

  (* ================================================================ C16: penalty *)
  Hypothesis policy_ok : forall pol prm stp d stp' nrho a,
    0 < pp_rho prm -> 0 < ps_rho stp -> (pol = Constant -> ps_rho stp == pp_rho prm) ->
    p_update pol prm stp d = PRes stp' nrho a ->
    ps_rho stp <= ps_rho stp' /\ nrho == ps_rho stp' /\ (pol = Constant -> ps_rho stp' == pp_rho prm).

  Fixpoint nondecr (ts : list trial) : Prop :=
    match ts with
    | [] => True
    | t :: ts' => 0 < t_rho t /\ match ts' with [] => True | u :: _ => t_rho t <= t_rho u end /\ nondecr ts'
    end.

  Lemma nondecr_snoc ts t : nondecr ts -> 0 < t_rho t ->
    (forall u, In u ts -> t_rho u <= t_rho t) -> nondecr (ts ++ [t]).
  Proof.
    induction ts as [|u ts IH]; intros H Hp Hle; cbn.
    - auto.
    - destruct H as (H1 & H2 & H3). repeat split; auto.
      + destruct ts as [|v ts]; cbn; [apply Hle; left; reflexivity | exact H2].
      + apply IH; auto. intros w Hw. apply Hle. right. exact Hw.
  Qed.

  Definition I_rho (c : cfg) (s : state) : Prop :=
    nondecr (trials It s) /\ 0 < rho It s /\ rho It s <= ps_rho (pst It s)
    /\ (forall u, In u (trials It s) -> t_rho u <= rho It s)
    /\ (c_policy c = Constant -> rho It s == pp_rho (c_pparams c) /\ ps_rho (pst It s) == pp_rho (c_pparams c)).

  Lemma rho_inv c orc clk s0 : 0 < pp_rho (c_pparams c) -> I_rho c s0 ->
    forall s, reach c orc clk s0 s -> I_rho c s.
  Proof.
    intros Hpp H0. apply reach_ind_inv; auto.
    - intros s s1 A SA _. sa SA. unfold I_rho in *. rewrite Sr, Sp, Str. exact A.
    - intros s s' nx l acc fin d k a (A & B & C & D & E) _ BS. destruct BS. unfold I_rho.
      rewrite bs_trials0.
      assert (Hnd : nondecr (trials It s ++ [mk_trial (rho It s) (1 / lamb It s) d l acc fin]))
        by (apply nondecr_snoc; auto).
      assert (Hps : 0 < ps_rho (pst It s)) by lra.
      destruct fin.
      + destruct (bs_accept0 eq_refl) as (_ & _ & _ & _ & _ & ps' & nrho & EU & Hps' & Hr & _).
        destruct (policy_ok _ _ _ _ _ _ _ Hpp Hps (fun e => proj2 (E e)) EU) as (P1 & P2 & P3).
        assert (R1 : rho It s' == ps_rho ps') by (rewrite Hr; exact P2).
        rewrite Hps'.
        split; [exact Hnd|]. split; [lra|]. split; [lra|]. split.
        * intros u Hu. apply in_app_or in Hu. destruct Hu as [Hu|[<-|[]]].
          -- specialize (D u Hu). lra.
          -- cbn. lra.
        * intros e. specialize (P3 e). split; lra.
      + destruct (bs_reject0 eq_refl) as (_ & _ & _ & _ & Hr & _ & Hp).
        rewrite Hr.
        assert (Q1 : ps_rho (pst It s) <= ps_rho (pst It s')
                     /\ (c_policy c = Constant -> ps_rho (pst It s') == pp_rho (c_pparams c))).
        { destruct Hp as [->|(_ & ps' & r & EU & ->)].
          - split; [lra|]. intros e. apply E. exact e.
          - destruct (policy_ok _ _ _ _ _ _ _ Hpp Hps (fun e => proj2 (E e)) EU) as (P1 & _ & P3). auto. }
        destruct Q1 as [Q1 Q2].
        split; [exact Hnd|]. split; [exact B|]. split; [lra|]. split.
        * intros u Hu. apply in_app_or in Hu. destruct Hu as [Hu|[<-|[]]]; [auto|cbn; lra].
        * intros e. split; [apply E; exact e|apply Q2; exact e].
  Qed.
End LoopProofs.
