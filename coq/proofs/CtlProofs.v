(* CtlProofs.v — C15, controller level: for every Newton stream, PI output and deadline pattern. *)
From Verif Require Import StepCtl VecLemmas.
From Coq Require Import Lqa Lia.

Section CtlProofs.
  Variable prm : cparams.
  Variable lamb : Q.
  Variable res0 : Q.
  Variable pi_out : Q -> Q.
  Variable passed : nat -> bool.
  Hypothesis lamb_pos : 0 < lamb.

  Notation exact_loop := (exact_loop prm lamb passed).
  Notation ctl_step := (ctl_step prm lamb res0 pi_out passed).
  Notation compute_step := (compute_step prm lamb res0 pi_out passed).

  (* the exact controller accepts only an iterate whose implicit-Euler residual norm is <= newton_tol,
     then halves lambda; otherwise it doubles lambda — or, when a deadline test inside its loop finds the deadline
     passed, abandons the trial: unchanged iterate (id 0), unchanged lambda, not accepted *)
  Lemma exact_loop_spec fuel : forall k curr last stream id l a,
    exact_loop fuel k curr last stream = CAns id l a ->
    (a = true /\ l == (1 # 2) * lamb /\ exists s, In s stream /\ ns_id s = id /\ ns_res s <= cp_newton_tol prm)
    \/ (a = false /\ l == 2 * lamb)
    \/ (a = false /\ l == lamb /\ id = 0%nat /\ exists j, passed j = true).
  Proof.
    induction fuel as [|f IH]; intros k curr last stream id l a H; cbn in H.
    - destruct last; inversion H; subst. right. left. split; reflexivity.
    - destruct stream as [|s stream]; [discriminate|].
      destruct (passed k) eqn:EP.
      { inversion H; subst. right. right. split; [reflexivity|]. split; [reflexivity|]. split; [reflexivity|]. exists k. exact EP. }
      destruct (qle (ns_res s) (cp_newton_tol prm)) eqn:E.
      + inversion H; subst. left. split; [reflexivity|]. split; [reflexivity|].
        exists s. split; [left; reflexivity|]. split; [reflexivity|]. apply qle_iff. exact E.
      + destruct (qlt ((1 # 2) * curr) (ns_res s)).
        * inversion H; subst. right. left. split; reflexivity.
        * destruct (IH _ _ _ _ _ _ _ H) as [(A & B & s' & C & D)|R]; [left|right; exact R].
          split; [exact A|]. split; [exact B|]. exists s'. split; [right; exact C|exact D].
  Qed.

  Theorem exact_accepts_only_converged stream id l :
    ctl_step CExact stream = CAns id l true ->
    l == (1 # 2) * lamb /\ exists s, In s stream /\ ns_id s = id /\ ns_res s <= cp_newton_tol prm.
  Proof.
    intros H. destruct (exact_loop_spec _ _ _ _ _ _ _ _ H) as [(_ & B & C)|[(A & _)|(A & _)]]; [auto|discriminate|discriminate].
  Qed.

  (* an answer that is not accepted has a strictly larger lambda, for every controller (ratio controllers:
     precondition lamb_inc > 1) — except the exact controller's abandoned trial (deadline passed inside its loop),
     which leaves iterate and lambda as they are *)
  Theorem rejected_increases_lambda k stream id l :
    1 < cp_lamb_inc prm ->
    ctl_step k stream = CAns id l false ->
    lamb < l \/ (k = CExact /\ id = 0%nat /\ l == lamb /\ exists j, passed j = true).
  Proof.
    intros Hinc H. destruct k; unfold StepCtl.ctl_step in H.
    - destruct (exact_loop_spec _ _ _ _ _ _ _ _ H) as [(A & _)|[(_ & B)|(_ & B & C & D)]]; [discriminate| |].
      + left. rewrite B. lra.
      + right. auto.
    - destruct stream; inversion H.
    - left. destruct stream as [|mid rest]; [discriminate|].
      destruct (qle (ns_res mid) (cp_newton_tol prm)); [inversion H|].
      destruct (qeqb (ns_diff mid) 0); [inversion H|].
      destruct rest as [|fin rest]; [discriminate|].
      destruct (qeqb (ns_diff fin) 0); [inversion H|].
      destruct (qle (ns_diff fin / ns_diff mid) (cp_theta_max prm)); inversion H; subst. nra.
    - left. destruct stream as [|mid rest]; [discriminate|].
      destruct (qle (ns_res mid) (cp_newton_tol prm)); [inversion H|].
      destruct (qle (ns_res mid / res0) (cp_theta_max prm)); inversion H; subst. nra.
  Qed.
  (* with no deadline passed the step always shrinks *)
  Corollary rejected_increases_lambda_no_deadline k stream id l :
    1 < cp_lamb_inc prm -> (forall j, passed j = false) ->
    ctl_step k stream = CAns id l false -> lamb < l.
  Proof.
    intros Hinc Hp H. destruct (rejected_increases_lambda k stream id l Hinc H) as [A|(_ & _ & _ & j & Hj)]; [exact A|].
    rewrite Hp in Hj. discriminate.
  Qed.

  (* lambda stays positive (positive lamb_min, lamb_init, lamb_red, lamb_inc and PI output) *)
  Theorem lambda_stays_positive k stream id l a :
    0 < cp_lamb_min prm -> 0 < cp_lamb_init prm -> 0 < cp_lamb_inc prm ->
    ctl_step k stream = CAns id l a -> 0 < l.
  Proof.
    intros Hmin Hinit Hinc H. destruct k; unfold StepCtl.ctl_step in H.
    - destruct (exact_loop_spec _ _ _ _ _ _ _ _ H) as [(_ & B & _)|[(_ & B)|(_ & B & _)]]; rewrite B; lra.
    - destruct stream; inversion H; subst. exact Hinit.
    - destruct stream as [|mid rest]; [discriminate|].
      destruct (qle (ns_res mid) (cp_newton_tol prm)).
      { inversion H; subst. pose proof (qmax_ge_r (lamb * cp_lamb_red prm) (cp_lamb_min prm)). lra. }
      destruct (qeqb (ns_diff mid) 0); [inversion H; subst; exact lamb_pos|].
      destruct rest as [|fin rest]; [discriminate|].
      destruct (qeqb (ns_diff fin) 0); [inversion H; subst; exact lamb_pos|].
      destruct (qle (ns_diff fin / ns_diff mid) (cp_theta_max prm)); inversion H; subst.
      + pose proof (qmax_ge_l (cp_lamb_min prm) (lamb / pi_out (ns_diff fin / ns_diff mid))). lra.
      + nra.
    - destruct stream as [|mid rest]; [discriminate|].
      destruct (qle (ns_res mid) (cp_newton_tol prm)).
      { inversion H; subst. pose proof (qmax_ge_r (lamb * cp_lamb_red prm) (cp_lamb_min prm)). lra. }
      destruct (qle (ns_res mid / res0) (cp_theta_max prm)); inversion H; subst.
      + pose proof (qmax_ge_l (cp_lamb_min prm) (lamb / pi_out (ns_res mid / res0))). lra.
      + nra.
  Qed.

  (* the fixed controller always accepts and always returns lamb_init *)
  Theorem fixed_spec s stream : ctl_step CFixed (s :: stream) = CAns (ns_id s) (cp_lamb_init prm) true.
  Proof. reflexivity. Qed.

  (* a deadline found passed inside the exact controller's loop abandons the trial: no iterate of the stream is
     returned, the answer is (unchanged iterate, unchanged lambda, not accepted), through compute_step too *)
  Theorem first_check_passed_abandons s stream eval_ok : passed 0%nat = true ->
    compute_step CExact (s :: stream) eval_ok = CAns 0 lamb false.
  Proof. intros H. unfold StepCtl.compute_step. cbn. rewrite H. reflexivity. Qed.

  (* compute_step: a point whose evaluation fails is never accepted, and whatever is not accepted because of a
     failure keeps the iterate (id 0) and doubles lambda *)
  Theorem compute_step_never_accepts_bad_point k stream eval_ok id l :
    compute_step k stream eval_ok = CAns id l true -> eval_ok id = true.
  Proof.
    unfold StepCtl.compute_step. destruct (ctl_step k stream) as [id' l' a'| |]; try discriminate.
    destruct a'; [|intros H; inversion H].
    destruct (eval_ok id') eqn:E; intros H; inversion H; subst. exact E.
  Qed.
End CtlProofs.
