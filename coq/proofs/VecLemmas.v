(* VecLemmas.v — scalar and list lemmas shared by the numeric proofs. *)
From Verif Require Import Vec.
From Coq Require Import Qpower Lqa Lia.

(* ---------------- booleans <-> propositions ---------------- *)
Lemma qle_iff a b : qle a b = true <-> a <= b.
Proof. unfold qle. apply Qle_bool_iff. Qed.
Lemma qle_false a b : qle a b = false <-> b < a.
Proof.
  unfold qle. split; intros H.
  - destruct (Qlt_le_dec b a) as [|Hle]; auto. apply Qle_bool_iff in Hle. congruence.
  - destruct (Qle_bool a b) eqn:E; auto. apply Qle_bool_iff in E. lra.
Qed.
Lemma qlt_iff a b : qlt a b = true <-> a < b.
Proof. unfold qlt. rewrite negb_true_iff. apply (qle_false b a). Qed.
Lemma qlt_false a b : qlt a b = false <-> b <= a.
Proof. unfold qlt. rewrite negb_false_iff. apply (qle_iff b a). Qed.
Lemma qeqb_iff a b : qeqb a b = true <-> a == b.
Proof. unfold qeqb. apply Qeq_bool_iff. Qed.

Ltac qcases :=
  repeat match goal with
  | H : qle _ _ = true |- _ => apply qle_iff in H
  | H : qle _ _ = false |- _ => apply qle_false in H
  | H : qlt _ _ = true |- _ => apply qlt_iff in H
  | H : qlt _ _ = false |- _ => apply qlt_false in H
  | H : qeqb _ _ = true |- _ => apply qeqb_iff in H
  end.

Lemma qmax_spec a b : (a <= b /\ qmax a b = b) \/ (b < a /\ qmax a b = a).
Proof. unfold qmax. destruct (qle a b) eqn:E; qcases; auto. Qed.
Lemma qmin_spec a b : (a <= b /\ qmin a b = a) \/ (b < a /\ qmin a b = b).
Proof. unfold qmin. destruct (qle a b) eqn:E; qcases; auto. Qed.
Lemma qabs_spec a : (0 <= a /\ qabs a = a) \/ (a < 0 /\ qabs a = - a).
Proof. unfold qabs. destruct (qle 0 a) eqn:E; qcases; auto. Qed.

Lemma qmax_ge_l a b : a <= qmax a b.
Proof. destruct (qmax_spec a b) as [[? ->]|[? ->]]; lra. Qed.
Lemma qmax_ge_r a b : b <= qmax a b.
Proof. destruct (qmax_spec a b) as [[? ->]|[? ->]]; lra. Qed.
Lemma qmax_lub a b c : a <= c -> b <= c -> qmax a b <= c.
Proof. destruct (qmax_spec a b) as [[? ->]|[? ->]]; lra. Qed.
Lemma qmin_le_l a b : qmin a b <= a.
Proof. destruct (qmin_spec a b) as [[? ->]|[? ->]]; lra. Qed.
Lemma qmin_le_r a b : qmin a b <= b.
Proof. destruct (qmin_spec a b) as [[? ->]|[? ->]]; lra. Qed.
Lemma qmin_glb a b c : c <= a -> c <= b -> c <= qmin a b.
Proof. destruct (qmin_spec a b) as [[? ->]|[? ->]]; lra. Qed.
Lemma qabs_nonneg a : 0 <= qabs a.
Proof. destruct (qabs_spec a) as [[? ->]|[? ->]]; lra. Qed.
Lemma qabs_le a t : qabs a <= t <-> - t <= a /\ a <= t.
Proof. destruct (qabs_spec a) as [[? ->]|[? ->]]; split; intros; lra. Qed.

(* ---------------- powers of two ---------------- *)
Lemma p2_pos k : 0 < p2 k.
Proof. unfold p2. apply Qpower_0_lt. reflexivity. Qed.
Lemma p2_add a b : p2 (a + b) == p2 a * p2 b.
Proof. unfold p2. apply Qpower_plus. discriminate. Qed.
Lemma p2_opp a : p2 (- a) == / p2 a.
Proof. unfold p2. apply Qpower_opp. Qed.
Lemma p2_0 : p2 0 == 1.
Proof. reflexivity. Qed.
Lemma p2_cancel a : p2 a * p2 (- a) == 1.
Proof. rewrite <- p2_add. rewrite Z.add_opp_diag_r. reflexivity. Qed.
Lemma p2_sub a b : p2 (a - b) == p2 a * p2 (- b).
Proof. unfold Z.sub. apply p2_add. Qed.
Lemma p2_nonzero a : ~ p2 a == 0.
Proof. pose proof (p2_pos a). lra. Qed.

Lemma ldexp_inv x k : ldexp (ldexp x k) (- k) == x.
Proof. unfold ldexp. rewrite <- Qmult_assoc, p2_cancel. ring. Qed.
Lemma ldexp_inv' x k : ldexp (ldexp x (- k)) k == x.
Proof. unfold ldexp. rewrite <- Qmult_assoc, (Qmult_comm (p2 (-k))), p2_cancel. ring. Qed.
Lemma ldexp_le x y k : x <= y <-> ldexp x k <= ldexp y k.
Proof. unfold ldexp. pose proof (p2_pos k). split; intros; nra. Qed.
Lemma ldexp_lt x y k : x < y <-> ldexp x k < ldexp y k.
Proof. unfold ldexp. pose proof (p2_pos k). split; intros; nra. Qed.

(* ---------------- pointwise equality of vectors ---------------- *)
Definition veq (a b : vec) : Prop := Forall2 Qeq a b.
Lemma veq_refl a : veq a a.
Proof. induction a; constructor; auto. reflexivity. Qed.
Lemma veq_sym a b : veq a b -> veq b a.
Proof. induction 1; constructor; auto. now symmetry. Qed.
Lemma veq_trans a b c : veq a b -> veq b c -> veq a c.
Proof.
  intros H; revert c. induction H as [|x y a b Hxy Hab IH]; intros c Hc; inversion Hc; subst; constructor.
  - now rewrite Hxy.
  - now apply IH.
Qed.
Lemma veq_length a b : veq a b -> length a = length b.
Proof. induction 1; cbn; auto. Qed.
Lemma veq_nth a b j : veq a b -> nth j a 0 == nth j b 0.
Proof. intros H; revert j. induction H; intros [|j]; cbn; auto; reflexivity. Qed.
Lemma veqb_veq a b : veqb a b = true -> veq a b.
Proof.
  revert b. induction a as [|x a IH]; intros [|y b]; cbn; intros H; try discriminate; [constructor|].
  apply andb_true_iff in H. destruct H as [H1 H2]. constructor; [now apply qeqb_iff | now apply IH].
Qed.

Lemma map2_length {A B C} (f : A -> B -> C) a b : length (map2 f a b) = Nat.min (length a) (length b).
Proof. revert b; induction a; intros [|? b]; cbn; auto. Qed.
Lemma map2_nth {A B C} (f : A -> B -> C) a b j da db dc :
  (j < length a)%nat -> (j < length b)%nat -> nth j (map2 f a b) dc = f (nth j a da) (nth j b db).
Proof.
  revert b j; induction a as [|x a IH]; intros [|y b] [|j]; cbn; intros; try lia; auto.
  apply IH; lia.
Qed.
Lemma map3_length {A B C D} (f : A -> B -> C -> D) a b c :
  length (map3 f a b c) = Nat.min (length a) (Nat.min (length b) (length c)).
Proof. revert b c; induction a; intros [|? b] [|? c]; cbn; auto. Qed.
Lemma map3_nth {A B C D} (f : A -> B -> C -> D) a b c j da db dc dd :
  (j < length a)%nat -> (j < length b)%nat -> (j < length c)%nat ->
  nth j (map3 f a b c) dd = f (nth j a da) (nth j b db) (nth j c dc).
Proof.
  revert b c j; induction a as [|x a IH]; intros [|y b] [|z c] [|j]; cbn; intros; try lia; auto.
  apply IH; lia.
Qed.

Lemma vadd_length a b : length (vadd a b) = Nat.min (length a) (length b).
Proof. apply map2_length. Qed.
Lemma vscale_length s a : length (vscale s a) = length a.
Proof. apply map_length. Qed.
Lemma vzero_length n : length (vzero n) = n.
Proof. apply repeat_length. Qed.
Lemma vadd_nth a b j : (j < length a)%nat -> (j < length b)%nat -> nth j (vadd a b) 0 = nth j a 0 + nth j b 0.
Proof. intros. unfold vadd. now apply map2_nth. Qed.
Lemma vscale_nth s a j : nth j (vscale s a) 0 == s * nth j a 0.
Proof.
  unfold vscale. revert j; induction a as [|x a IH]; intros [|j]; cbn; try ring; auto.
Qed.
Lemma vzero_nth n j : nth j (vzero n) 0 = 0.
Proof. unfold vzero. revert j; induction n; intros [|j]; cbn; auto. Qed.
Lemma vneg_nth a j : nth j (vneg a) 0 == - nth j a 0.
Proof. unfold vneg. revert j; induction a as [|x a IH]; intros [|j]; cbn; try ring; auto. Qed.

(* ---------------- infinity norm ---------------- *)
Lemma norminf_cons x v : norminf (x :: v) = qmax (qabs x) (norminf v).
Proof. reflexivity. Qed.
Lemma norminf_nonneg v : 0 <= norminf v.
Proof.
  induction v as [|x v IH]; [cbn; lra|]. rewrite norminf_cons.
  pose proof (qmax_ge_r (qabs x) (norminf v)). lra.
Qed.
Lemma norminf_ge v x : In x v -> qabs x <= norminf v.
Proof.
  induction v as [|z v IH]; [cbn; tauto|]. rewrite norminf_cons. intros [->|H].
  - apply qmax_ge_l.
  - pose proof (qmax_ge_r (qabs z) (norminf v)). specialize (IH H). lra.
Qed.
Lemma norminf_le v t : norminf v <= t <-> (0 <= t /\ forall x, In x v -> qabs x <= t).
Proof.
  split.
  - intros H. split; [pose proof (norminf_nonneg v); lra|]. intros x Hx. pose proof (norminf_ge v x Hx). lra.
  - intros [H0 H]. induction v as [|z v IH]; [cbn; auto|]. rewrite norminf_cons.
    apply qmax_lub; [apply H; now left | apply IH; intros; apply H; now right].
Qed.
Lemma norminf_le_nth v t j : norminf v <= t -> (j < length v)%nat -> qabs (nth j v 0) <= t.
Proof. intros H Hj. apply norminf_le in H. apply H. now apply nth_In. Qed.

(* ---------------- M^T y, componentwise ---------------- *)
Fixpoint colsum (j : nat) (M : mat) (y : vec) : Q :=
  match M, y with r :: M', a :: y' => a * nth j r 0 + colsum j M' y' | _, _ => 0 end.

Lemma tmvec_length n M y : Forall (fun r => length r = n) M -> length (tmvec n M y) = n.
Proof.
  revert y. induction M as [|r M IH]; intros y HM; cbn; [apply vzero_length|].
  destruct y; [apply vzero_length|]. inversion HM; subst.
  rewrite vadd_length, vscale_length, IH; auto. lia.
Qed.
Lemma tmvec_nth n M y j :
  Forall (fun r => length r = n) M -> (j < n)%nat -> nth j (tmvec n M y) 0 == colsum j M y.
Proof.
  revert y. induction M as [|r M IH]; intros y HM Hj; cbn; [now rewrite vzero_nth|].
  destruct y as [|a y]; [now rewrite vzero_nth|]. inversion HM; subst.
  rewrite vadd_nth; [| rewrite vscale_length; lia | rewrite tmvec_length; auto].
  rewrite vscale_nth, IH; auto. reflexivity.
Qed.
