(* ProjProofs.v — the clipping used in the residual IS the Euclidean projection onto the box (C13):
   idempotent, nearest point, non-expansive. *)
From Verif Require Import Vec Implicit VecLemmas ImplicitProofs.
From Coq Require Import QArith Lqa.

Lemma clip_b_idem p l u : bnd_le l u = true -> clip_b (clip_b p l u) l u == clip_b p l u.
Proof. intros H. destruct (clip_b_in_box p l u H) as [A B]. apply clip_b_inside; assumption. Qed.

Ltac fin := repeat split; auto; try reflexivity; try (apply qle_iff; lra); try lra.

(* three-way description of the clipped value *)
Lemma clip_b_cases p l u : bnd_le l u = true ->
  (clip_b p l u == p /\ lb_le l p = true /\ le_ub p u = true)
  \/ (exists a, l = Some a /\ p < a /\ clip_b p l u == a)
  \/ (exists b, u = Some b /\ b < p /\ clip_b p l u == b).
Proof.
  destruct l as [a|], u as [b|]; cbn; intros H; qcases.
  - destruct (qmax_spec p a) as [[H1 E]|[H1 E]]; rewrite E.
    + destruct (qmin_spec a b) as [[H2 F]|[H2 F]]; rewrite F; [|lra].
      destruct (Qlt_le_dec p a) as [L|L].
      * right; left. exists a. fin.
      * left. fin.
    + destruct (qmin_spec p b) as [[H2 F]|[H2 F]]; rewrite F.
      * left. fin.
      * right; right. exists b. fin.
  - destruct (qmax_spec p a) as [[H1 E]|[H1 E]]; rewrite E.
    + destruct (Qlt_le_dec p a) as [L|L].
      * right; left. exists a. fin.
      * left. fin.
    + left. fin.
  - destruct (qmin_spec p b) as [[H2 F]|[H2 F]]; rewrite F.
    + left. fin.
    + right; right. exists b. fin.
  - left. fin.
Qed.

(* nearest point: no point of the box is closer to p than the clipped value *)
Lemma clip_b_nearest p l u z : bnd_le l u = true -> lb_le l z = true -> le_ub z u = true ->
  qabs (clip_b p l u - p) <= qabs (z - p).
Proof.
  intros H Hl Hu.
  destruct (clip_b_cases p l u H) as [(E & _ & _) | [(a & -> & Hp & E) | (b & -> & Hp & E)]];
    cbn in Hl, Hu; qcases;
    unfold qabs;
    destruct (qle 0 (clip_b p _ _ - p)) eqn:S1, (qle 0 (z - p)) eqn:S2; qcases; lra.
Qed.

(* non-expansive: clipping never increases the distance between two points *)
Lemma clip_b_nonexpansive p q l u : bnd_le l u = true ->
  qabs (clip_b p l u - clip_b q l u) <= qabs (p - q).
Proof.
  intros H.
  destruct (clip_b_cases p l u H) as [(E & A1 & A2) | [(a & -> & Hp & E) | (b & -> & Hp & E)]];
  destruct (clip_b_cases q _ _ H) as [(E' & B1 & B2) | [(a' & Ha' & Hq & E') | (b' & Hb' & Hq & E')]];
    try (injection Ha' as <-); try (injection Hb' as <-); try subst;
    cbn in *; qcases; unfold qabs;
    match goal with |- (if qle 0 ?s then _ else _) <= (if qle 0 ?t then _ else _) =>
      destruct (qle 0 s) eqn:S1, (qle 0 t) eqn:S2 end; qcases; try lra.
Qed.
