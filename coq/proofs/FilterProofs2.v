(* FilterProofs2.v — size and distinctness of the penalty filter over whole histories (C18). *)
From Verif Require Import Penalty FilterProofs.
From Coq Require Import List Bool Lia.
Import ListNotations.
Local Open Scope nat_scope.

Section Filter2.
  Variable T : Type.
  Variable leb : T -> T -> bool.
  Notation dom := (dominates leb).
  Notation ins := (filter_insert leb).

  Definition count_true (l : list bool) : nat := length (filter (fun b => b) l).

  Lemma filter_length_le {A} (f : A -> bool) l : length (filter f l) <= length l.
  Proof. induction l as [|x l IH]; cbn; [lia|]. destruct (f x); cbn; lia. Qed.

  (* one insertion: a refusal keeps the size, an acceptance adds at most one entry *)
  Lemma insert_length es p :
    length (fst (ins es p)) <= length es + (if snd (ins es p) then 1 else 0).
  Proof.
    unfold filter_insert. destruct (existsb _ es); cbn; [lia|].
    rewrite app_length. cbn. pose proof (filter_length_le (fun e => negb (dom p e)) es). lia.
  Qed.

  (* whole histories: one verdict per offered point; the filter never holds more entries than it started with
     plus the number of acceptances, in particular never more than the number of points offered *)
  Lemma run_length ps : forall es,
    length (snd (filter_run leb es ps)) = length ps
    /\ length (fst (filter_run leb es ps)) <= length es + count_true (snd (filter_run leb es ps)).
  Proof.
    induction ps as [|p ps IH]; intros es; cbn; [unfold count_true; cbn; lia|].
    pose proof (insert_length es p) as L.
    destruct (ins es p) as [es1 ok] eqn:E.
    specialize (IH es1). destruct (filter_run leb es1 ps) as [es2 oks]. cbn in *.
    destruct IH as [I1 I2]. split; [lia|].
    unfold count_true in *. destruct ok; cbn; lia.
  Qed.

  Lemma count_true_le l : count_true l <= length l.
  Proof. apply filter_length_le. Qed.

  (* with a reflexive order the stored entries are pairwise distinct: a duplicate is dominated, hence refused *)
  Hypothesis leb_refl : forall a, leb a a = true.

  Lemma AC_NoDup es : AC T leb es -> NoDup es.
  Proof.
    induction 1 as [|e es Hes IH Hall]; constructor; auto.
    intros Hin. rewrite Forall_forall in Hall. destruct (Hall e Hin) as [D _].
    unfold dominates in D. rewrite !leb_refl in D. discriminate.
  Qed.

  Lemma run_NoDup h : NoDup (fst (filter_run leb [] h)).
  Proof. apply AC_NoDup. exact (run_AC T leb h [] (AC_nil T leb)). Qed.

  (* re-offering a stored entry is always refused *)
  Lemma reoffer_refused es e : In e es -> snd (ins es e) = false.
  Proof.
    intros Hin. apply (insert_refused_iff T leb). exists e. split; auto.
    unfold dominates. rewrite !leb_refl. reflexivity.
  Qed.
End Filter2.
