(* StepProofs.v — C05/C15: StepResult puts every new point into the box, whatever step the linear
   solver returned; C14: the three Newton variants take the same first step. *)
From Verif Require Import StepSolvers VecLemmas ImplicitProofs.
From Coq Require Import Lqa Lia.

(* one component of StepResult._compute_xn: for EVERY dx the new value is within [l, u] (l <= u), and
   the corrected dx is consistent with it; a value already inside is not touched *)
Theorem xn1_in_box x dx l u : bnd_le l u = true ->
  let '(xn, dx') := xn1 x dx l u in
  lb_le l xn = true /\ le_ub xn u = true /\ xn == x - dx'.
Proof.
  intros H. unfold xn1.
  destruct l as [a|], u as [b|]; cbn in *.
  - destruct (qlt (x - dx) a) eqn:E1.
    + destruct (qlt b a) eqn:E2; qcases; [lra|]. repeat split; try (apply qle_iff; lra). ring.
    + destruct (qlt b (x - dx)) eqn:E2; qcases; repeat split; try (apply qle_iff; lra); ring.
  - destruct (qlt (x - dx) a) eqn:E1; qcases; repeat split; try (apply qle_iff; lra); ring.
  - destruct (qlt b (x - dx)) eqn:E2; qcases; repeat split; try (apply qle_iff; lra); ring.
  - repeat split; ring.
Qed.

Theorem xn1_inside x dx l u : lb_le l (x - dx) = true -> le_ub (x - dx) u = true ->
  xn1 x dx l u = (x - dx, dx).
Proof.
  intros H1 H2. unfold xn1. destruct l as [a|], u as [b|]; cbn in *; qcases.
  - destruct (qlt (x - dx) a) eqn:E1; qcases; [lra|]. destruct (qlt b (x - dx)) eqn:E2; qcases; [lra|reflexivity].
  - destruct (qlt (x - dx) a) eqn:E1; qcases; [lra|reflexivity].
  - destruct (qlt b (x - dx)) eqn:E2; qcases; [lra|reflexivity].
  - reflexivity.
Qed.

(* the whole vector: StepResult's xn is in the box for every dx *)
Theorem step_result_in_box (P : problem) x y dx dy :
  Forall2 (fun l u => bnd_le l u = true) (var_lb P) (var_ub P) ->
  let '(_, _, xn, _) := step_result P x y dx dy in
  in_box (var_lb P) (var_ub P) xn = true.
Proof.
  unfold step_result, in_box. intros HF. revert x dx.
  induction HF as [|l u lbs ubs Hlu Hrest IH]; intros [|x0 x] [|d0 dx]; cbn; auto.
  pose proof (xn1_in_box x0 d0 l u Hlu) as X. destruct (xn1 x0 d0 l u) as [xn d']. destruct X as (A & B & _).
  cbn. rewrite A, B. cbn. apply IH.
Qed.

(* the first step of the three Newton variants from the start of the step (x, y) = (xh, yh):
   same active set, same derivative point, hence the same matrix, right-hand side and result *)
Theorem first_step_agree P xh yh dt rho kind tau sol :
  newton_step P xh yh dt rho kind Simplified tau xh yh sol = newton_step P xh yh dt rho kind Full tau xh yh sol
  /\ newton_step P xh yh dt rho kind Simplified tau xh yh sol
     = newton_step P xh yh dt rho kind ActiveSetNewton tau xh yh sol.
Proof. split; reflexivity. Qed.
