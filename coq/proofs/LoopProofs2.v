(* LoopProofs2.v — prefix property of early stopping (C08), observer non-interference (C09),
   failed trials (C07/C15) for the loop model. *)
From Verif Require Import Loop VecLemmas LoopProofs.
From Coq Require Import Lqa Lia.

Section LoopProofs2.
  Variable It : Type.
  Variable it_total : It -> Q.
  Variable it_linf : It -> bool.
  Variable it_obj : It -> Q.
  Variable it_feas : It -> bool.
  Variable it_pdata : It -> pdata.
  Variable step_norm : It -> It -> Q.

  Notation state := (st It).
  Notation check := (check It it_total it_linf it_obj it_feas).
  Notation body := (body It it_pdata step_norm).
  Notation run := (run It it_total it_linf it_obj it_feas it_pdata step_norm).
  Notation resolve := (resolve It).
  Notation oracle := (oracle It).
  Notation reach := (reach It it_total it_linf it_obj it_feas it_pdata step_norm).
  Notation body_step := (body_step It it_pdata step_norm).

  (* ================================================================ failed / abandoned trials *)
  (* C07-2 / C15: whatever the oracle does, a trial that fails (StepSolverError / EvalError) or is
     abandoned at a deadline test leaves the iterate, path and counters of accepted steps unchanged,
     is announced as not accepted and counts as one iteration; a failed trial returns 2 * lambda, an
     abandoned one returns lambda *)
  Lemma failed_trial c (orc : oracle) clk s s' n :
    orc (itn It s) (cur It s) (rho It s) (1 / lamb It s) (disp_of It c clk s) = Fail It n ->
    body c orc clk s = inl s' ->
    cur It s' = cur It s /\ nacc It s' = nacc It s /\ path It s' = path It s /\ times It s' = times It s
    /\ rho It s' = rho It s /\ pst It s' = pst It s
    /\ itn It s' = S (itn It s)
    /\ announced It s' = announced It s ++ [(cur It s, cur It s, false)]
    /\ (lamb It s' = 2 * (1 / (1 / lamb It s)) \/ lamb It s' = 1 / (1 / lamb It s)).
  Proof.
    intros HF HB.
    destruct (body_spec _ _ _ _ _ _ _ _ HB) as (nx & l & acc & k & fin & ER & BS).
    rewrite HF in ER. apply resolve_fail in ER. destruct ER as (-> & Hl & ->).
    destruct BS. destruct fin; [specialize (bs_fin_acc eq_refl); discriminate|].
    destruct (bs_reject eq_refl) as (A & B & C & D & E & _ & F).
    repeat split; auto.
    - destruct F as [F|(F & _)]; [auto|discriminate].
    - rewrite bs_lamb. exact Hl.
  Qed.
  (* with no deadline test in the trial (or none that finds the deadline passed) the failed trial doubles lambda *)
  Lemma failed_trial_doubles c (orc : oracle) clk s s' :
    orc (itn It s) (cur It s) (rho It s) (1 / lamb It s) (disp_of It c clk s) = Fail It 0 ->
    body c orc clk s = inl s' -> lamb It s' = 2 * (1 / (1 / lamb It s)).
  Proof.
    intros HF HB.
    destruct (body_spec _ _ _ _ _ _ _ _ HB) as (nx & l & acc & k & fin & ER & BS).
    rewrite HF in ER. unfold Loop.resolve in ER. cbn in ER. inversion ER; subst. destruct BS. exact bs_lamb.
  Qed.

  Lemma two_lambda l : 0 < l -> 2 * (1 / (1 / l)) == 2 * l /\ l < 2 * (1 / (1 / l)).
  Proof. intros H. assert (E : 1 / (1 / l) == l) by (field; lra). rewrite E. split; lra. Qed.

  (* every trial that is not finally adopted leaves the iterate where it was (rejection by the controller,
     failure, abandonment, or veto by the penalty policy) *)
  Lemma rejected_keeps_point c s s' nx l acc d : body_step c s s' nx l acc false d -> cur It s' = cur It s.
  Proof. intros BS. destruct BS. destruct (bs_reject eq_refl) as (A & _). exact A. Qed.

  (* ================================================================ C08: iteration budget *)
  Definition with_limit (c : cfg) (L : option nat) : cfg :=
    mk_cfg L (c_time_limit c) (c_opt_tol c) (c_obj_lower c) (c_lamb_init c) (c_lamb_max c)
           (c_policy c) (c_pparams c) (c_interval c) (c_collect_path c).

  Lemma inner_checks_limit c L clk s p n :
    inner_checks It (with_limit c L) clk s p n = inner_checks It c clk s p n.
  Proof.
    revert p. induction n as [|n IH]; intros p; cbn; [reflexivity|].
    change (deadline_passed It (with_limit c L) s (clk p)) with (deadline_passed It c s (clk p)).
    rewrite IH. reflexivity.
  Qed.

  Lemma body_limit c L orc clk s : body (with_limit c L) orc clk s = body c orc clk s.
  Proof.
    unfold Loop.body, Loop.resolve. cbn [with_limit c_interval c_lamb_max c_policy c_pparams c_collect_path].
    repeat rewrite inner_checks_limit. reflexivity.
  Qed.

  Lemma check_limit c k clk s s1 : check c clk s = (None, s1) -> (itn It s < k)%nat ->
    check (with_limit c (Some k)) clk s = (None, s1).
  Proof.
    intros H Hk. pose proof H as H'. unfold Loop.check in H |- *.
    cbn [with_limit c_iter_limit c_opt_tol c_obj_lower].
    destruct (match c_iter_limit c with Some L => (L <=? itn It s)%nat | None => false end); [discriminate|].
    replace (k <=? itn It s)%nat with false by (symmetry; apply Nat.leb_gt; exact Hk).
    exact H.
  Qed.

  (* the state of a run at the top of the loop when the iteration counter is k *)
  Fixpoint at_iter (fuel : nat) (c : cfg) (orc : oracle) (clk : clock) (s : state) (k : nat) : option state :=
    if Nat.eqb (itn It s) k then Some s
    else match fuel with
         | O => None
         | S f => match check c clk s with
                  | (Some _, _) => None
                  | (None, s1) => match body c orc clk s1 with
                                  | inl s2 => at_iter f c orc clk s2 k
                                  | inr _ => None
                                  end
                  end
         end.

  Lemma at_iter_reach fuel c orc clk k : forall s sk,
    at_iter fuel c orc clk s k = Some sk -> reach c orc clk s sk /\ itn It sk = k.
  Proof.
    induction fuel as [|f IH]; intros s sk H; cbn in H.
    - destruct (Nat.eqb_spec (itn It s) k); [|discriminate]. inversion H; subst. split; [constructor|reflexivity].
    - destruct (Nat.eqb_spec (itn It s) k); [inversion H; subst; split; [constructor|reflexivity]|].
      destruct (check c clk s) as [os s1] eqn:EC. destruct os; [discriminate|].
      destruct (body c orc clk s1) as [s2|o] eqn:EB; [|discriminate].
      destruct (IH _ _ H) as [R E]. split; [|exact E].
      clear - R EC EB. induction R.
      + eapply reach_step; [constructor|exact EC|exact EB].
      + eapply reach_step; eauto.
  Qed.

  (* limiting the same run to k iterations returns exactly that state, with status IterationLimit *)
  Theorem iteration_limit_prefix fuel c orc clk k : forall s sk,
    at_iter fuel c orc clk s k = Some sk -> (itn It s <= k)%nat ->
    run (S fuel) (with_limit c (Some k)) orc clk s = Done It IterationLimit sk.
  Proof.
    induction fuel as [|f IH]; intros s sk H Hk.
    - cbn in H. destruct (Nat.eqb_spec (itn It s) k); [|discriminate]. inversion H; subst.
      cbn. unfold Loop.check. cbn [with_limit c_iter_limit]. rewrite Nat.leb_refl. reflexivity.
    - cbn [at_iter] in H. destruct (Nat.eqb_spec (itn It s) k) as [E|NE].
      + inversion H; subst.
        change (run (S (S f)) (with_limit c (Some (itn It sk))) orc clk sk)
          with (let '(os, s1) := check (with_limit c (Some (itn It sk))) clk sk in
                match os with
                | Some stt => Done It stt s1
                | None => match body (with_limit c (Some (itn It sk))) orc clk s1 with
                          | inl s2 => run (S f) (with_limit c (Some (itn It sk))) orc clk s2
                          | inr o => o
                          end
                end).
        unfold Loop.check. cbn [with_limit c_iter_limit]. rewrite Nat.leb_refl. reflexivity.
      + destruct (check c clk s) as [os s1] eqn:EC. destruct os; [discriminate|].
        destruct (body c orc clk s1) as [s2|o] eqn:EB; [|discriminate].
        assert (Hlt : (itn It s < k)%nat) by lia.
        change (run (S (S f)) (with_limit c (Some k)) orc clk s)
          with (let '(os, s1) := check (with_limit c (Some k)) clk s in
                match os with
                | Some stt => Done It stt s1
                | None => match body (with_limit c (Some k)) orc clk s1 with
                          | inl s2 => run (S f) (with_limit c (Some k)) orc clk s2
                          | inr o => o
                          end
                end).
        rewrite (check_limit _ _ _ _ _ EC Hlt). rewrite body_limit, EB.
        apply IH; [exact H|].
        destruct (body_spec _ _ _ _ _ _ _ _ EB) as (nx & l & acc & kk & fin & _ & BS). destruct BS.
        pose proof (check_same It it_total it_linf it_obj it_feas _ _ _ _ _ EC) as SA. destruct SA as (_ & _ & _ & _ & Si & _). lia.
  Qed.

  (* the run passes through iteration k whenever it ends at or after it *)
  Lemma run_passes_iter fuel c orc clk k : forall s stt fin,
    run fuel c orc clk s = Done It stt fin -> (itn It s <= k <= itn It fin)%nat ->
    exists sk, at_iter fuel c orc clk s k = Some sk.
  Proof.
    induction fuel as [|f IH]; intros s stt fin H Hk; [discriminate|].
    cbn [at_iter]. destruct (Nat.eqb_spec (itn It s) k) as [E|NE]; [eauto|].
    cbn [Loop.run] in H. destruct (check c clk s) as [os s1] eqn:EC.
    pose proof (check_same It it_total it_linf it_obj it_feas _ _ _ _ _ EC) as SA. destruct SA as (_ & _ & _ & _ & Si & _).
    destruct os as [st'|].
    - inversion H; subst. lia.
    - destruct (body c orc clk s1) as [s2|o] eqn:EB.
      + eapply IH; [exact H|].
        destruct (body_spec _ _ _ _ _ _ _ _ EB) as (nx & l & acc & kk & fn & _ & BS). destruct BS. lia.
      + destruct (body_stop _ _ _ _ _ _ _ _ EB) as [(fin' & -> & _)|(w & fin' & nx & -> & _)]; discriminate.
  Qed.

  (* the histories only grow: what was announced / tried up to a reachable state is a prefix of what
     any later state has *)
  Lemma reach_prefix c orc clk s0 s : reach c orc clk s0 s ->
    (exists more, announced It s = announced It s0 ++ more)
    /\ (exists more, trials It s = trials It s0 ++ more).
  Proof.
    induction 1 as [|s s1 s2 R [[m1 IH1] [m2 IH2]] EC EB].
    - split; exists []; rewrite app_nil_r; reflexivity.
    - destruct (body_spec _ _ _ _ _ _ _ _ EB) as (nx & l & acc & kk & fn & _ & BS). destruct BS.
      pose proof (check_same It it_total it_linf it_obj it_feas _ _ _ _ _ EC) as SA.
      destruct SA as (_ & _ & _ & _ & _ & _ & _ & _ & Sa & Str & _).
      rewrite bs_ann, bs_trials, Sa, Str, IH1, IH2. split; eexists; rewrite <- app_assoc; reflexivity.
  Qed.

  (* ================================================================ C08: deadlines *)
  (* a deadline found expired at the top of the loop returns the state as it is *)
  Lemma deadline_outer c clk s s1 : check c clk s = (Some TimeLimit, s1) ->
    same_alg It s s1 /\ deadline_passed It c s (clk (cpos It s)) = true.
  Proof.
    intros H. split; [eapply check_same; eauto|].
    destruct (check_spec It it_total it_linf it_obj it_feas _ _ _ _ _ H) as [(_ & E & _)|(_ & _ & [(D & _)|(D & R)])].
    - discriminate.
    - exact D.
    - destruct R as [(_ & E)|(_ & [(_ & E)|(_ & [(_ & E)|(_ & E)])])]; discriminate.
  Qed.

  (* a deadline found expired inside a trial abandons that trial (see failed_trial for what follows) *)
  Lemma deadline_inner c clk s p dt a k : inner_checks It c clk s p
      (match a with Ans _ _ _ _ n => n | Fail _ n => n end) = (true, k) ->
    resolve c clk s p dt a = (cur It s, 1 / dt, false, k).
  Proof. intros H. unfold Loop.resolve. rewrite H. reflexivity. Qed.

  Lemma inner_checks_abandon c clk s : forall n p k, inner_checks It c clk s p n = (true, k) ->
    (0 < k)%nat /\ deadline_passed It c s (clk (p + k - 1)%nat) = true.
  Proof.
    induction n as [|n IH]; intros p k H; cbn in H; [discriminate|].
    destruct (deadline_passed It c s (clk p)) eqn:E.
    - inversion H; subst. split; [lia|]. replace (p + 1 - 1)%nat with p by lia. exact E.
    - destruct (inner_checks It c clk s (S p) n) as [ab kk] eqn:EI. inversion H; subst.
      destruct (IH _ _ EI) as [Hk Hd]. split; [lia|].
      replace (p + S kk - 1)%nat with (S p + kk - 1)%nat by lia. exact Hd.
  Qed.

  (* once the deadline has passed it stays passed, for a clock that does not run backwards *)
  Lemma deadline_monotone c (clk : clock) s s' q q' :
    (forall a b, (a <= b)%nat -> clk a <= clk b) -> tstart It s' = tstart It s -> (q <= q')%nat ->
    deadline_passed It c s (clk q) = true -> deadline_passed It c s' (clk q') = true.
  Proof.
    intros Hm Ht Hq. unfold deadline_passed. rewrite Ht. destruct (c_time_limit c) as [tl|]; [|auto].
    intros H. apply qle_iff in H. apply qle_iff. specialize (Hm _ _ Hq). lra.
  Qed.

  (* so after an abandoned trial the next top-of-loop test stops the solve (unless the abandoned
     trial's doubled lambda reached lamb_max, which body turns into the lambda error first) *)
  Lemma check_after_deadline c clk s q :
    (forall a b, (a <= b)%nat -> clk a <= clk b) -> (q <= cpos It s)%nat ->
    deadline_passed It c s (clk q) = true ->
    exists stt s1, check c clk s = (Some stt, s1) /\ (stt = TimeLimit \/ stt = IterationLimit).
  Proof.
    intros Hm Hq Hd.
    pose proof (deadline_monotone c clk s s q (cpos It s) Hm eq_refl Hq Hd) as Hd'.
    unfold Loop.check.
    destruct (match c_iter_limit c with Some L => (L <=? itn It s)%nat | None => false end).
    - eexists _, _. split; [reflexivity|auto].
    - rewrite Hd'. eexists _, _. split; [reflexivity|auto].
  Qed.

  (* C08, deadline inside a trial, in full: a trial abandoned at one of its deadline tests (current lambda below
     lamb_max, as it is after every earlier trial) lets the body run to its end with point, path, counters of accepted
     steps, penalty and lambda untouched, and the very next termination test ends the solve with TimeLimit (or
     IterationLimit), returning that same point *)
  Lemma abandoned_trial_then_stop c (orc : oracle) clk s k :
    (forall a b, (a <= b)%nat -> clk a <= clk b) ->
    0 < lamb It s -> qle (c_lamb_max c) (lamb It s) = false ->
    inner_checks It c clk s (S (cpos It s))
      (match orc (itn It s) (cur It s) (rho It s) (1 / lamb It s) (disp_of It c clk s) with
       | Ans _ _ _ _ n => n | Fail _ n => n end) = (true, k) ->
    exists s', body c orc clk s = inl s'
      /\ cur It s' = cur It s /\ nacc It s' = nacc It s /\ path It s' = path It s /\ times It s' = times It s
      /\ rho It s' = rho It s /\ lamb It s' == lamb It s /\ itn It s' = S (itn It s)
      /\ exists stt s1, check c clk s' = (Some stt, s1) /\ (stt = TimeLimit \/ stt = IterationLimit)
                         /\ cur It s1 = cur It s.
  Proof.
    intros Hm Hpos Hmax HI.
    pose proof (deadline_inner c clk s (S (cpos It s)) (1 / lamb It s) _ k HI) as ER.
    destruct (inner_checks_abandon c clk s _ _ _ HI) as [Hk Hd].
    assert (EL : 1 / (1 / lamb It s) == lamb It s) by (field; lra).
    assert (Hmax' : qle (c_lamb_max c) (1 / (1 / lamb It s)) = false).
    { apply qle_false. apply qle_false in Hmax. rewrite EL. exact Hmax. }
    unfold Loop.body. fold (disp_of It c clk s). rewrite ER. cbv zeta. rewrite Hmax'.
    destruct (disp_of It c clk s); cbn [fst snd];
      (eexists; split; [reflexivity|]; cbn;
       repeat (split; [try reflexivity; try exact EL|]);
       match goal with |- exists stt s1, check c clk ?s' = _ /\ _ =>
         destruct (check_after_deadline c clk s' (S (cpos It s) + k - 1)%nat Hm ltac:(cbn; lia)
                     ltac:(exact (deadline_monotone c clk s s' _ _ Hm eq_refl (Nat.le_refl _) Hd)))
           as (stt & s1 & EC & Hst);
         exists stt, s1; split; [exact EC|]; split; [exact Hst|];
         pose proof (check_same It it_total it_linf it_obj it_feas _ _ _ _ _ EC) as SA; destruct SA as (Sc & _); exact Sc
       end).
  Qed.


  (* ================================================================ C09: observers *)
  (* two configurations that differ only in what is observed (display interval, path collection),
     two arbitrary clocks (i.e. arbitrary patterns of displayed rows), no time limit *)
  Definition cfg_alg_eq (c1 c2 : cfg) : Prop :=
    c_iter_limit c1 = c_iter_limit c2 /\ c_time_limit c1 = None /\ c_time_limit c2 = None
    /\ c_opt_tol c1 = c_opt_tol c2 /\ c_obj_lower c1 = c_obj_lower c2 /\ c_lamb_init c1 = c_lamb_init c2
    /\ c_lamb_max c1 = c_lamb_max c2 /\ c_policy c1 = c_policy c2 /\ c_pparams c1 = c_pparams c2.

  Definition trial_alg (t : trial) := (t_rho t, t_dt t, t_lamb t, t_acc t, t_final t).

  Definition obs_eq (s1 s2 : state) : Prop :=
    cur It s1 = cur It s2 /\ lamb It s1 = lamb It s2 /\ rho It s1 = rho It s2 /\ pst It s1 = pst It s2
    /\ itn It s1 = itn It s2 /\ nacc It s1 = nacc It s2 /\ announced It s1 = announced It s2
    /\ map trial_alg (trials It s1) = map trial_alg (trials It s2)
    /\ pdist It s1 = pdist It s2 /\ nchanges It s1 = nchanges It s2.

  Definition out_eq (o1 o2 : outcome It) : Prop :=
    match o1, o2 with
    | Done _ st1 f1, Done _ st2 f2 => st1 = st2 /\ obs_eq f1 f2
    | LambdaError _ f1, LambdaError _ f2 => obs_eq f1 f2
    | Internal _ w1 f1, Internal _ w2 f2 => w1 = w2 /\ obs_eq f1 f2
    | OutOfFuel _, OutOfFuel _ => True
    | _, _ => False
    end.

  Lemma inner_checks_nolimit c clk s : c_time_limit c = None ->
    forall n p, inner_checks It c clk s p n = (false, n).
  Proof.
    intros Hn. induction n as [|n IH]; intros p; cbn; [reflexivity|].
    unfold deadline_passed. rewrite Hn. rewrite IH. reflexivity.
  Qed.

  Lemma resolve_nolimit c clk s p dt a : c_time_limit c = None ->
    resolve c clk s p dt a = match a with
                             | Ans _ nx l acc n => (nx, l, acc, n)
                             | Fail _ n => (cur It s, 2 * (1 / dt), false, n)
                             end.
  Proof. intros Hn. unfold Loop.resolve. rewrite inner_checks_nolimit by exact Hn. destruct a; reflexivity. Qed.

  Lemma check_sim c1 c2 clk1 clk2 s1 s2 : cfg_alg_eq c1 c2 -> obs_eq s1 s2 ->
    fst (check c1 clk1 s1) = fst (check c2 clk2 s2)
    /\ obs_eq (snd (check c1 clk1 s1)) (snd (check c2 clk2 s2)).
  Proof.
    intros (C1 & C2 & C3 & C4 & C5 & _) (E1 & E2 & E3 & E4 & E5 & E6 & E7 & E8 & E9 & E10).
    unfold Loop.check, deadline_passed. rewrite C1, C2, C3, C4, C5, E1, E5.
    destruct (match c_iter_limit c2 with Some L => (L <=? itn It s2)%nat | None => false end).
    - cbn. split; [reflexivity|]. unfold obs_eq. repeat split; auto.
    - destruct (qle (it_total (cur It s2)) (c_opt_tol c2)); [cbn; split; [reflexivity|unfold obs_eq; cbn; repeat split; auto]|].
      destruct (it_linf (cur It s2)); [cbn; split; [reflexivity|unfold obs_eq; cbn; repeat split; auto]|].
      destruct (qle (it_obj (cur It s2)) (c_obj_lower c2) && it_feas (cur It s2));
        cbn; (split; [reflexivity|unfold obs_eq; cbn; repeat split; auto]).
  Qed.

  Definition step_eq (r1 r2 : state + outcome It) : Prop :=
    match r1, r2 with
    | inl a, inl b => obs_eq a b
    | inr o1, inr o2 => out_eq o1 o2
    | _, _ => False
    end.

  Lemma map_snoc {A B} (f : A -> B) l x : map f (l ++ [x]) = map f l ++ [f x].
  Proof. rewrite map_app. reflexivity. Qed.

  Ltac fin_obs :=
    unfold step_eq, out_eq, obs_eq;
    cbn [cur lamb rho pst itn nacc announced trials pdist nchanges];
    rewrite ?map_snoc; cbn [trial_alg t_rho t_dt t_lamb t_acc t_final];
    repeat match goal with H : _ = _ |- _ => rewrite H end;
    repeat split; reflexivity.

  Lemma body_sim c1 c2 (orc : oracle) clk1 clk2 s1 s2 :
    cfg_alg_eq c1 c2 -> obs_eq s1 s2 ->
    (forall i x r d b1 b2, orc i x r d b1 = orc i x r d b2) ->
    step_eq (body c1 orc clk1 s1) (body c2 orc clk2 s2).
  Proof.
    intros (C1 & C2 & C3 & C4 & C5 & C6 & C7 & C8 & C9) (E1 & E2 & E3 & E4 & E5 & E6 & E7 & E8 & E9 & E10) Hd.
    unfold Loop.body.
    set (d1 := match c_interval c1 with None => false | Some iv => qle iv (clk1 (cpos It s1) - dstart It s1) end).
    set (d2 := match c_interval c2 with None => false | Some iv => qle iv (clk2 (cpos It s2) - dstart It s2) end).
    rewrite (resolve_nolimit c1) by exact C2. rewrite (resolve_nolimit c2) by exact C3.
    rewrite (Hd _ _ _ _ d1 d2). rewrite E1, E2, E3, E5.
    destruct (orc (itn It s2) (cur It s2) (rho It s2) (1 / lamb It s2) d2) as [nx l acc n|n].
    - rewrite C7. destruct (qle (c_lamb_max c2) l).
      + fin_obs.
      + destruct (if d1 then (S (S (cpos It s1) + n), clk1 (S (cpos It s1) + n)%nat) else ((S (cpos It s1) + n)%nat, dstart It s1)) as [p3 ds].
        destruct (if d2 then (S (S (cpos It s2) + n), clk2 (S (cpos It s2) + n)%nat) else ((S (cpos It s2) + n)%nat, dstart It s2)) as [p3' ds'].
        destruct acc.
        * rewrite C8, C9, E4.
          destruct (p_update (c_policy c2) (c_pparams c2) (pst It s2) (it_pdata nx)) as [ps' nrho a|w].
          -- destruct a; fin_obs.
          -- fin_obs.
        * fin_obs.
    - rewrite C7. destruct (qle (c_lamb_max c2) (2 * (1 / (1 / lamb It s2)))).
      + fin_obs.
      + destruct (if d1 then (S (S (cpos It s1) + n), clk1 (S (cpos It s1) + n)%nat) else ((S (cpos It s1) + n)%nat, dstart It s1)) as [p3 ds].
        destruct (if d2 then (S (S (cpos It s2) + n), clk2 (S (cpos It s2) + n)%nat) else ((S (cpos It s2) + n)%nat, dstart It s2)) as [p3' ds'].
        fin_obs.
  Qed.

  Theorem observer_noninterference c1 c2 (orc : oracle) clk1 clk2 :
    cfg_alg_eq c1 c2 -> (forall i x r d b1 b2, orc i x r d b1 = orc i x r d b2) ->
    forall fuel s1 s2, obs_eq s1 s2 -> out_eq (run fuel c1 orc clk1 s1) (run fuel c2 orc clk2 s2).
  Proof.
    intros HC Hd. induction fuel as [|f IH]; intros s1 s2 HE; cbn [Loop.run]; [exact I|].
    destruct (check_sim c1 c2 clk1 clk2 s1 s2 HC HE) as [F S].
    destruct (check c1 clk1 s1) as [os1 t1]. destruct (check c2 clk2 s2) as [os2 t2]. cbn in F, S. subst os2.
    destruct os1 as [stt|].
    - cbn. auto.
    - pose proof (body_sim c1 c2 orc clk1 clk2 t1 t2 HC S Hd) as B.
      destruct (body c1 orc clk1 t1) as [a|o1]; destruct (body c2 orc clk2 t2) as [b|o2]; cbn in B; try contradiction.
      + apply IH. exact B.
      + exact B.
  Qed.
End LoopProofs2.
