(* C16 — the penalty parameter is positive and never decreases. *)
From Verif Require Import Penalty Loop LoopInst LoopProofs LoopProofs2 LoopTop PenaltyProofs PenaltyProofs2.
From Coq Require Import Lqa.

(* policy level: every policy only ever raises its own penalty, announces exactly its own penalty, and
   the constant policy changes nothing *)
Theorem C16_policy_monotone : forall pol prm stp d stp' nrho a,
  0 < pp_rho prm -> 0 < ps_rho stp -> (pol = Constant -> ps_rho stp == pp_rho prm) ->
  p_update pol prm stp d = PRes stp' nrho a ->
  ps_rho stp <= ps_rho stp' /\ nrho == ps_rho stp' /\ (pol = Constant -> ps_rho stp' == pp_rho prm).
Proof. exact policy_ok. Qed.

Theorem C16_constant_unchanged : forall prm stp d, p_update Constant prm stp d = PRes stp (pp_rho prm) true.
Proof. exact constant_spec. Qed.

(* dual-norm policy: at most a factor of ten per accepted step, never beyond max(rho, ||y||_inf) *)
Theorem C16_dualnorm_bounds : forall prm stp d stp' nrho a,
  0 < ps_rho stp -> p_update DualNorm prm stp d = PRes stp' nrho a ->
  a = true /\ ps_rho stp' <= 10 * ps_rho stp
  /\ (ps_rho stp' = ps_rho stp \/ (d_m0 d = false /\ ps_rho stp' <= d_ynorm d)).
Proof. exact dualnorm_bounds. Qed.

(* the internal assertions of penalty.py cannot fire (positive penalty, data are norms) *)
Theorem C16_no_internal_assert : forall pol prm stp d w,
  0 < ps_rho stp -> 0 <= d_ynorm d -> 0 <= d_yprod d -> 0 <= d_viol d ->
  (pol = Pareto -> d_bound d <> None) ->
  p_update pol prm stp d <> PAssert w.
Proof. exact policy_no_assert. Qed.

(* ParetoDecrease: never vetoes, at most a factor of ten per update, never beyond max(rho, its bound), and
   changes the penalty only when both the violation and the infeasibility measure exceed their tolerances *)
Theorem C16_pareto_bounds : forall prm stp d stp' nrho a,
  0 < ps_rho stp -> p_update Pareto prm stp d = PRes stp' nrho a ->
  a = true /\ ps_rho stp' <= ps_rho stp * 10
  /\ (ps_rho stp' = ps_rho stp
      \/ exists b, d_bound d = Some b /\ ps_rho stp' <= qmax b (ps_rho stp)
                   /\ qle (d_viol d) (pp_opt_tol prm) = false
                   /\ qle (d_infeas_inf d) (pp_infeas_tol prm) = false).
Proof. exact pareto_bounds. Qed.

(* DualEquilibration: never vetoes; a change is at least tenfold and reaches the equilibration target *)
Theorem C16_dualequil_bounds : forall prm stp d stp' nrho a,
  0 < ps_rho stp -> p_update DualEquil prm stp d = PRes stp' nrho a ->
  a = true
  /\ (ps_rho stp' = ps_rho stp
      \/ (ps_rho stp * 10 <= ps_rho stp' /\ c_001 * d_yprod d / d_viol d <= ps_rho stp'
          /\ ps_rho stp < c_001 * d_yprod d / d_viol d)).
Proof. exact dualequil_bounds. Qed.

(* only the two filter policies ever veto a step, and their veto is exactly a tenfold increase with the
   filter entries untouched; an acceptance leaves the penalty alone *)
Theorem C16_veto_only_filters : forall pol prm stp d stp' nrho,
  p_update pol prm stp d = PRes stp' nrho false -> pol = ObjFilter \/ pol = LagFilter.
Proof. exact veto_only_filters. Qed.

Theorem C16_filter_policy_rho : forall pol prm stp d stp' nrho a,
  pol = ObjFilter \/ pol = LagFilter ->
  p_update pol prm stp d = PRes stp' nrho a ->
  (a = true -> ps_rho stp' = ps_rho stp)
  /\ (a = false -> ps_rho stp' = ps_rho stp * 10 /\ ps_entries stp' = ps_entries stp).
Proof. exact filter_policy_rho. Qed.

(* policy level, whole histories: whatever sequence of update data a policy object is fed (any length, any
   values, any policy), the penalties it announces are non-decreasing from its starting penalty, lie between
   the starting and the final penalty, the final penalty is positive, and the constant policy announces
   params.rho every time.  p_run stops at a failed internal assertion (excluded by C16_no_internal_assert). *)
Theorem C16_policy_history : forall pol prm ds st fin rs,
  0 < pp_rho prm -> 0 < ps_rho st -> (pol = Constant -> ps_rho st == pp_rho prm) ->
  p_run pol prm st ds = Some (fin, rs) ->
  q_nondecr_from (ps_rho st) rs /\ ps_rho st <= ps_rho fin /\ 0 < ps_rho fin
  /\ length rs = length ds
  /\ (forall r, In r rs -> ps_rho st <= r /\ r <= ps_rho fin)
  /\ (pol = Constant -> forall r, In r rs -> r == pp_rho prm).
Proof. exact policy_history. Qed.

(* non-vacuity of the history statement: a ParetoDecrease run with a capped, a tenfold and a kept update *)
Example C16_history_nonvacuous :
  let prm := {| pp_rho := 1; pp_opt_tol := 1 # 10; pp_infeas_tol := 1 # 10 |} in
  let d v b := {| d_m0 := false; d_ynorm := 0; d_yprod := 0; d_viol := v; d_infeas_inf := v;
                  d_bound := Some b; d_entry := (0, 0); d_lag_entry := fun _ => (0, 0) |} in
  match p_run Pareto prm (p_init prm) [d 1 4; d 1 1000; d 0 1000; d 1 3] with
  | Some (fin, rs) => map Qred rs = [4; 40; 40; 40] /\ Qred (ps_rho fin) = 40
  | None => False
  end.
Proof. vm_compute. split; reflexivity. Qed.

Section C16.
  Variable It : Type.
  Variables (it_total : It -> Q) (it_linf : It -> bool) (it_obj : It -> Q) (it_feas : It -> bool)
            (it_pdata : It -> pdata) (step_norm : It -> It -> Q).
  Notation solve := (solve It it_total it_linf it_obj it_feas it_pdata step_norm).

  (* loop level, for every oracle trace: the penalties handed to the successive trials are positive and
     non-decreasing, the solver's penalty never exceeds the policy's own (which runs ahead after filter
     vetoes), and under the constant policy both stay at params.rho.  Precondition: params.rho > 0. *)
  Theorem C16_trial_penalties : forall fuel c orc clk x0 stt fin,
    0 < pp_rho (c_pparams c) ->
    solve fuel c orc clk x0 = Done It stt fin ->
    nondecr (trials It fin) /\ 0 < rho It fin /\ rho It fin <= ps_rho (pst It fin)
    /\ (forall u, In u (trials It fin) -> t_rho u <= rho It fin)
    /\ (c_policy c = Constant -> rho It fin == pp_rho (c_pparams c) /\ ps_rho (pst It fin) == pp_rho (c_pparams c)).
  Proof.
    intros fuel c orc clk x0 stt fin Hp H.
    destruct (solve_done_inv It it_total it_linf it_obj it_feas it_pdata step_norm _ _ _ _ _ _ _ H)
      as (_ & _ & _ & _ & _ & A).
    exact (A Hp).
  Qed.
End C16.

Example C16_nonvacuous :
  match ex_solve 40 (mk_cfg None None (1 # 4) (-(100)) 1 64 DualNorm
                            {| pp_rho := 1 # 16; pp_opt_tol := 1 # 4; pp_infeas_tol := 0 |} None false) 8 with
  | Done _ _ f => map (fun t => Qred (t_rho t)) (trials Q f)
                  = [1 # 16; 5 # 8; 5 # 8; 5 # 8; 5 # 8; 5 # 8; 5 # 8; 5 # 8; 5 # 8; 5 # 8; 5 # 8; 5 # 8; 5 # 8]
  | _ => False
  end.
Proof. vm_compute. reflexivity. Qed.

Print Assumptions C16_policy_monotone.
Print Assumptions C16_constant_unchanged.
Print Assumptions C16_dualnorm_bounds.
Print Assumptions C16_no_internal_assert.
Print Assumptions C16_trial_penalties.
Print Assumptions C16_pareto_bounds.
Print Assumptions C16_dualequil_bounds.
Print Assumptions C16_veto_only_filters.
Print Assumptions C16_filter_policy_rho.
Print Assumptions C16_policy_history.

(* the tie of C16_policy_history to the code: p_run's announced penalties are the trace that the correspondence
   unit `penalty` compares with penalty.py's update() on every run *)
Theorem C16_history_is_the_compared_trace : forall pol prm ds st fin rs,
  p_run pol prm st ds = Some (fin, rs) ->
  map (fun o : option (Q * bool * Q * nat) => match o with Some (r, _, _, _) => Some r | None => None end)
      (CorrPenalty.update_trace pol prm st ds) = map Some rs.
Proof. exact p_run_trace. Qed.
Print Assumptions C16_history_is_the_compared_trace.
