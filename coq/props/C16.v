(* C16 — the penalty parameter is positive and never decreases. *)
From Verif Require Import Loop LoopInst LoopProofs LoopProofs2 LoopTop PenaltyProofs.
From Coq Require Import Lqa.

(* policy level: every policy only ever raises its own penalty, announces exactly its own penalty, and
   the constant policy changes nothing *)
Theorem C16_policy_monotone : forall pol prm stp d stp' nrho a,
  0 < pp_rho prm -> 0 < ps_rho stp -> (pol = Constant -> ps_rho stp == pp_rho prm) ->
  p_update pol prm stp d = PRes stp' nrho a ->
  ps_rho stp <= ps_rho stp' /\ nrho == ps_rho stp' /\ (pol = Constant -> ps_rho stp' == pp_rho prm).
Proof. exact policy_ok. Qed.

Theorem C16_constant_unchanged : forall prm stp d, p_update Constant prm stp d = PRes stp (pp_rho prm) true.
Proof. exact constant_spec. Qed.

(* dual-norm policy: at most a factor of ten per accepted step, never beyond max(rho, ||y||_inf) *)
Theorem C16_dualnorm_bounds : forall prm stp d stp' nrho a,
  0 < ps_rho stp -> p_update DualNorm prm stp d = PRes stp' nrho a ->
  a = true /\ ps_rho stp' <= 10 * ps_rho stp
  /\ (ps_rho stp' = ps_rho stp \/ (d_m0 d = false /\ ps_rho stp' <= d_ynorm d)).
Proof. exact dualnorm_bounds. Qed.

(* the internal assertions of penalty.py cannot fire (positive penalty, data are norms) *)
Theorem C16_no_internal_assert : forall pol prm stp d w,
  0 < ps_rho stp -> 0 <= d_ynorm d -> 0 <= d_yprod d -> 0 <= d_viol d ->
  (pol = Pareto -> d_bound d <> None) ->
  p_update pol prm stp d <> PAssert w.
Proof. exact policy_no_assert. Qed.

Section C16.
  Variable It : Type.
  Variables (it_total : It -> Q) (it_linf : It -> bool) (it_obj : It -> Q) (it_feas : It -> bool)
            (it_pdata : It -> pdata) (step_norm : It -> It -> Q).
  Notation solve := (solve It it_total it_linf it_obj it_feas it_pdata step_norm).

  (* loop level, for every oracle trace: the penalties handed to the successive trials are positive and
     non-decreasing, the solver's penalty never exceeds the policy's own (which runs ahead after filter
     vetoes), and under the constant policy both stay at params.rho.  Precondition: params.rho > 0. *)
  Theorem C16_trial_penalties : forall fuel c orc clk x0 stt fin,
    0 < pp_rho (c_pparams c) ->
    solve fuel c orc clk x0 = Done It stt fin ->
    nondecr (trials It fin) /\ 0 < rho It fin /\ rho It fin <= ps_rho (pst It fin)
    /\ (forall u, In u (trials It fin) -> t_rho u <= rho It fin)
    /\ (c_policy c = Constant -> rho It fin == pp_rho (c_pparams c) /\ ps_rho (pst It fin) == pp_rho (c_pparams c)).
  Proof.
    intros fuel c orc clk x0 stt fin Hp H.
    destruct (solve_done_inv It it_total it_linf it_obj it_feas it_pdata step_norm _ _ _ _ _ _ _ H)
      as (_ & _ & _ & _ & _ & A).
    exact (A Hp).
  Qed.
End C16.

Example C16_nonvacuous :
  match ex_solve 40 (mk_cfg None None (1 # 4) (-(100)) 1 64 DualNorm
                            {| pp_rho := 1 # 16; pp_opt_tol := 1 # 4; pp_infeas_tol := 0 |} None false) 8 with
  | Done _ _ f => map (fun t => Qred (t_rho t)) (trials Q f)
                  = [1 # 16; 5 # 8; 5 # 8; 5 # 8; 5 # 8; 5 # 8; 5 # 8; 5 # 8; 5 # 8; 5 # 8; 5 # 8; 5 # 8; 5 # 8]
  | _ => False
  end.
Proof. vm_compute. reflexivity. Qed.

Print Assumptions C16_policy_monotone.
Print Assumptions C16_constant_unchanged.
Print Assumptions C16_dualnorm_bounds.
Print Assumptions C16_no_internal_assert.
Print Assumptions C16_trial_penalties.
