(* C12 — counters, callbacks and the recorded path tell one consistent story.
   Statements only; each is closed by `exact` of a lemma from proofs/. *)
From Verif Require Import Loop LoopInst LoopProofs LoopProofs2 LoopTop Callbacks CallbackProofs.

Section C12.
  Variable It : Type.                          (* iterates: abstract *)
  Variables (it_total : It -> Q) (it_linf : It -> bool) (it_obj : It -> Q) (it_feas : It -> bool)
            (it_pdata : It -> pdata) (step_norm : It -> It -> Q).
  Notation solve := (solve It it_total it_linf it_obj it_feas it_pdata step_norm).

  (* For every configuration, step oracle (any mix of accepted / rejected / failed answers), clock,
     penalty policy (incl. vetoes after the controller accepted) and start, in the returned state:
     1. iterations = number of announced steps = number of trial computations;
     2. accepted steps = number of trials whose result was finally adopted;
     3. the announced steps form a chain from the start: each starts at the iterate that was current, the
        iterate moves only to the `next` of a step announced as accepted, and the final iterate is the end
        of that chain (hence the last accepted point, or the start);
     4. with path collection: one column per adopted step plus the start, in order, and the model times are
        the partial sums of the step sizes dt *handed to* the adopted trials; without: no path. *)
  Theorem C12_one_story : forall fuel c orc clk x0 stt fin,
    solve fuel c orc clk x0 = Done It stt fin ->
    I_count It fin /\ I_chain It x0 fin /\ I_path It c x0 fin.
  Proof.
    intros fuel c orc clk x0 stt fin H.
    destruct (solve_done_inv It it_total it_linf it_obj it_feas it_pdata step_norm _ _ _ _ _ _ _ H)
      as (A & _ & B & C & _).
    exact (conj A (conj B C)).
  Qed.

  (* the final iterate is the start or the `next` of an announced step flagged accepted *)
  Theorem C12_final_is_last_accepted : forall fuel c orc clk x0 stt fin,
    solve fuel c orc clk x0 = Done It stt fin ->
    cur It fin = x0 \/ exists f n, In (f, n, true) (announced It fin) /\ cur It fin = n.
  Proof.
    intros fuel c orc clk x0 stt fin H.
    destruct (solve_done_inv It it_total it_linf it_obj it_feas it_pdata step_norm _ _ _ _ _ _ _ H)
      as (_ & _ & B & _).
    exact (chain_provenance It _ _ _ _ B).
  Qed.

  (* 5. the distance factor is at least one: the accumulated step norms dominate the direct distance,
        for every distance that obeys the triangle inequality and is dominated by the step norm
        (||(dx,dy)||_2 <= ||dx||_2 + ||dy||_2 for the code's norms) *)
  Theorem C12_dist_factor : forall (dist : It -> It -> Q),
    (forall a, dist a a == 0) -> (forall a b c, dist a c <= dist a b + dist b c) ->
    (forall a b, dist a b <= step_norm a b) ->
    forall fuel c orc clk x0 stt fin,
    solve fuel c orc clk x0 = Done It stt fin -> dist x0 (cur It fin) <= pdist It fin.
  Proof. exact (path_dist_ge_direct It it_total it_linf it_obj it_feas it_pdata step_norm). Qed.
End C12.

(* non-vacuity: a run with accepted, failed and rejected trials, path collected *)
Example C12_nonvacuous :
  ex_summary (ex_solve 40 (ex_cfg None None DualNorm true) 8)
  = Some (Optimal, 13%nat, 5%nat, 1 # 4, 8, 13%nat,
          [0; 1; 3 # 2; 7 # 4; 15 # 8; 31 # 16], [8; 4; 2; 1; 1 # 2; 1 # 4]).
Proof. vm_compute. reflexivity. Qed.

(* the callback registry ("announced to callbacks"): for EVERY sequence of register / unregister / dispatch
   operations the registry holds each live handle once; a dispatch calls exactly the live handles, each once; a handle
   stays live (and is called by every later dispatch) until it is unregistered itself, whatever else is registered,
   unregistered or dispatched in between — in particular one registered after earlier dispatches; an unregistered
   handle is gone *)
Theorem C12_registry_invariant : forall ops, cb_inv (fst (cb_run cb_init ops)).
Proof. intros ops. apply cb_run_inv. exact cb_init_inv. Qed.
Theorem C12_dispatch_calls_each_once : forall s h, cb_inv s ->
  match snd (cb_step s CbDispatch) with
  | OCalled hs => (In h hs <-> In h (cb_handles s)) /\ (In h (cb_handles s) -> count_occ Nat.eq_dec hs h = 1%nat)
  | _ => False
  end.
Proof. exact dispatch_calls_each_once. Qed.
Theorem C12_registered_stays : forall ops s h, In h (cb_handles s) -> Forall (keeps h) ops ->
  In h (cb_handles (fst (cb_run s ops))).
Proof. exact registered_stays. Qed.
Theorem C12_unregistered_is_gone : forall s h, cb_inv s -> In h (cb_handles s) ->
  ~ In h (cb_handles (fst (cb_step s (CbUnregister h)))).
Proof. exact unregistered_is_gone. Qed.
Example C12_registry_nonvacuous :
  snd (cb_run cb_init [CbRegister; CbDispatch; CbRegister; CbDispatch; CbUnregister 0%nat; CbDispatch; CbUnregister 0%nat])
  = [OHandle 0%nat; OCalled [0%nat]; OHandle 1%nat; OCalled [0%nat; 1%nat]; OUnreg true; OCalled [1%nat]; OUnreg false].
Proof. vm_compute. reflexivity. Qed.

Print Assumptions C12_one_story.
Print Assumptions C12_final_is_last_accepted.
Print Assumptions C12_dist_factor.
Print Assumptions C12_registry_invariant.
Print Assumptions C12_dispatch_calls_each_once.
Print Assumptions C12_registered_stays.
Print Assumptions C12_unregistered_is_gone.
