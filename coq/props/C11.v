(* C11 — caller-owned data is never modified; cached callback results are safe.
   Static part: the abstract argument.  Per-run part: factprops/FactsC11.v (every in-place operation in /repo
   targets an object the package created itself). *)
From Coq Require Import List Bool.
Import ListNotations.
From Verif Require Import Effects.

(* a sequence of writes none of which targets a caller-owned object leaves every caller-owned object's value
   unchanged — hence a callback that hands out the same (cached / memoised) object again hands out the same
   value a fresh evaluation would give *)
Theorem C11_caller_values_preserved : forall (value : Type) (caller_owned : nat -> bool) ops (h : nat -> value),
  forallb (fun op => negb (caller_owned (fst op))) ops = true ->
  forall k, caller_owned k = true -> run_ops value h ops k = h k.
Proof. exact caller_values_preserved. Qed.

Example C11_nonvacuous :
  run_ops nat (fun k => k) [(5, 0); (7, 1)] 3 = 3 /\ run_ops nat (fun k => k) [(5, 0); (7, 1)] 5 = 0.
Proof. split; reflexivity. Qed.

Print Assumptions C11_caller_values_preserved.
