(* C04 — The internally solved problem is an exact reformulation of the user's problem.
   Statements only.  P is an arbitrary problem (arbitrary callbacks), sc arbitrary integer weights. *)
From Verif Require Import Vec Problem Scale Slack Transform Iterate VecLemmas TransformProofs.

(* 1. round trips of the power-of-two change of variables: exact, for every weight vector *)
Theorem C04_scale_roundtrip_primal : forall sc x, length x = length (vw sc) ->
  veq (unscale_primal sc (scale_primal sc x)) x /\ veq (scale_primal sc (unscale_primal sc x)) x.
Proof. exact scale_unscale_primal. Qed.
Theorem C04_scale_roundtrip_dual : forall sc y, length y = length (cw sc) ->
  veq (unscale_dual sc (scale_dual sc y)) y /\ veq (scale_dual sc (unscale_dual sc y)) y.
Proof. exact scale_unscale_dual. Qed.
Theorem C04_scale_roundtrip_bounds_dual : forall sc d, length d = length (vw sc) ->
  veq (unscale_bounds_dual sc (scale_bounds_dual sc d)) d /\ veq (scale_bounds_dual sc (unscale_bounds_dual sc d)) d.
Proof. exact scale_unscale_bounds_dual. Qed.

(* 2. into the internal space and back (scaling + slack embedding): the original values *)
Theorem C04_restore_transform : forall sc P x y d,
  length x = nvars P -> length (vw sc) = nvars P -> length y = length (cw sc) ->
  let '(xt, yt) := transform_sol (Some sc) P x y in
  let '(x', y', _) := restore_sol (Some sc) P xt yt d in
  veq x' x /\ veq y' y.
Proof. exact restore_transform. Qed.
Theorem C04_restore_transform_unscaled : forall P x y d,
  length x = nvars P ->
  let '(xt, yt) := transform_sol None P x y in
  let '(x', y', _) := restore_sol None P xt yt d in
  x' = x /\ y' = y.
Proof. exact restore_transform_unscaled. Qed.

(* 3. the scaled bounds describe exactly the user's box: what the user's callbacks are fed
      (_orig_x of the internal point) is in the user's box iff the internal point is in the internal box *)
Theorem C04_box_exact : forall lb ub xt w,
  in_box (map2 ldexp_b lb w) (map2 ldexp_b ub w) xt = in_box lb ub (ldexpv xt (zneg w)).
Proof. exact orig_x_in_box. Qed.

(* 4. internal residual terms are exactly the scaled terms of the user's problem:
      (g~ + J~^T y~)_j = 2^(o - v_j) (g + J^T y)_j  with x = unscale_primal x~, y = unscale_dual y~.
      This forces dual weight = w - o and bound-dual weight = v - o. *)
Theorem C04_scaled_lagrangian_gradient : forall sc P xt yt j,
  let x := unscale_primal sc xt in
  let y := unscale_dual sc yt in
  length (vw sc) = nvars P -> length (cw sc) = ncons P -> length yt = ncons P ->
  shaped P x y -> (j < nvars P)%nat ->
  nth j (lag_grad (scaled_problem sc P) xt yt) 0
  == nth j (lag_grad P x y) 0 * p2 (ow sc - nth j (vw sc) 0%Z).
Proof. exact scaled_lag_grad. Qed.

(* 5. slack embedding: on original columns the Lagrangian gradient is unchanged, on the slack column
      of row i it is exactly -y_i *)
Theorem C04_slack_lagrangian_gradient : forall P xt y j,
  let x := orig_vals P xt in
  shaped P x y -> length (cons_lb P) = ncons P -> length (cons_ub P) = ncons P ->
  (j < nvars P + num_slacks P)%nat ->
  nth j (lag_grad (cons_problem P) xt y) 0 ==
  if Nat.ltb j (nvars P) then nth j (lag_grad P x y) 0
  else - nth (j - nvars P) (select (slack_mask P) y) 0.
Proof. exact cons_lag_grad. Qed.

(* 6. internal constraints row by row: c_i(x) + offset_i, minus the slack on slack rows *)
Theorem C04_slack_constraints : forall m c s i, length c = length m -> (i < length m)%nat ->
  length s = length (filter (fun b => b) m) ->
  nth i (sub_slacks m c s) 0 ==
  if nth i m false then nth i c 0 - nth (length (filter (fun b => b) (firstn i m))) s 0 else nth i c 0.
Proof. exact sub_slacks_nth. Qed.

(* 7. the starting slacks are the projection of c(x0) onto [l,u]: inside the slack box for EVERY x0 *)
Theorem C04_start_slacks_in_box : forall P x,
  Forall2 (fun l u => bnd_le l u = true) (cons_lb P) (cons_ub P) ->
  length (p_cons P x) = length (cons_lb P) ->
  in_box (select (slack_mask P) (cons_lb P)) (select (slack_mask P) (cons_ub P)) (slack_start P x) = true.
Proof. exact slack_start_in_box. Qed.

(* non-vacuity: a concrete quadratic instance (ranged, one-sided and offset equality rows) meets the
   shape hypotheses, and the model evaluates on it *)
Definition ex_spec : qspec :=
  mk_qspec [[2; 0]; [0; 1]] [1; -1] 0
           [[[0; 0]; [0; 0]]; [[1; 0]; [0; 0]]; [[0; 0]; [0; 0]]]
           [[1; 1]; [0; 1]; [1; -1]] [0; 1; 0]
           [Some (-(1)); None] [Some 3; Some 2]
           [Some 0; None; Some 1] [Some 2; Some 4; Some 1].
Definition ex_sc : scaling := mk_scaling [1; -2]%Z [0; 3; -1]%Z 2%Z.
Example C04_nonvacuous_shape :
  shaped (quad_problem ex_spec) (unscale_primal ex_sc [2; 1]) (unscale_dual ex_sc [1; -1; 2])
  /\ num_slacks (scaled_problem ex_sc (quad_problem ex_spec)) = 2%nat.
Proof. split; [constructor; repeat constructor | reflexivity]. Qed.

Print Assumptions C04_scale_roundtrip_primal.
Print Assumptions C04_scale_roundtrip_dual.
Print Assumptions C04_scale_roundtrip_bounds_dual.
Print Assumptions C04_restore_transform.
Print Assumptions C04_restore_transform_unscaled.
Print Assumptions C04_box_exact.
Print Assumptions C04_scaled_lagrangian_gradient.
Print Assumptions C04_slack_lagrangian_gradient.
Print Assumptions C04_slack_constraints.
Print Assumptions C04_start_slacks_in_box.
