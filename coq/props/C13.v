(* C13 — residuals and augmented-Lagrangian derivatives match their definitions.
   The Gallina definitions in model/Iterate.v and model/Implicit.v ARE the independent dense reference
   (index-wise sums over lists, no sparse formats); they are tied to pygradflow by exact correspondence.
   The theorems below tie the definitions to their mathematical meaning and to each other. *)
From Verif Require Import Iterate Implicit VecLemmas IterateProofs ImplicitProofs KKTProofs ProjProofs.

(* 1. the projection used in the residual: clipped components land in [lb, ub], components marked
      inactive are untouched, and a point already inside is not moved *)
Theorem C13_projection_spec : forall p lb ub act j,
  (j < length p)%nat -> (j < length lb)%nat -> (j < length ub)%nat -> (j < length act)%nat ->
  nth j (project_box p lb ub act) 0
  = if nth j act false then clip_b (nth j p 0) (nth j lb None) (nth j ub None) else nth j p 0.
Proof. exact project_box_spec. Qed.
Theorem C13_projection_in_box : forall p lb ub act j,
  (j < length p)%nat -> (j < length lb)%nat -> (j < length ub)%nat -> (j < length act)%nat ->
  nth j act false = true -> bnd_le (nth j lb None) (nth j ub None) = true ->
  lb_le (nth j lb None) (nth j (project_box p lb ub act) 0) = true
  /\ le_ub (nth j (project_box p lb ub act) 0) (nth j ub None) = true.
Proof. exact project_in_box. Qed.
Theorem C13_projection_identity_on_inactive : forall p lb ub act j,
  (j < length p)%nat -> (j < length lb)%nat -> (j < length ub)%nat -> (j < length act)%nat ->
  nth j act false = false -> nth j (project_box p lb ub act) 0 = nth j p 0.
Proof. exact project_id_inactive. Qed.
Theorem C13_clip_identity_inside : forall p l u, lb_le l p = true -> le_ub p u = true -> clip_b p l u == p.
Proof. exact clip_b_inside. Qed.

(* 1b. the clipping IS the Euclidean projection onto the (non-empty) box: idempotent, no point of the box is
       closer to p than the clipped value, and clipping never increases the distance between two points *)
Theorem C13_projection_idempotent : forall p l u, bnd_le l u = true -> clip_b (clip_b p l u) l u == clip_b p l u.
Proof. exact clip_b_idem. Qed.
Theorem C13_projection_is_nearest_point : forall p l u z,
  bnd_le l u = true -> lb_le l z = true -> le_ub z u = true -> qabs (clip_b p l u - p) <= qabs (z - p).
Proof. exact clip_b_nearest. Qed.
Theorem C13_projection_nonexpansive : forall p q l u, bnd_le l u = true ->
  qabs (clip_b p l u - clip_b q l u) <= qabs (p - q).
Proof. exact clip_b_nonexpansive. Qed.

(* 2. the active-set rule marks only components outside the box by more than 1e-8 *)
Theorem C13_unmarked_is_nearly_inside : forall p l u, outside1 p l u = false ->
  match l with Some a => a - c_1e8 <= p | None => True end
  /\ match u with Some b => p <= b + c_1e8 | None => True end.
Proof. exact outside1_false. Qed.

(* 3. the scaled residual function is the standard one scaled by lambda: the projections commute *)
Theorem C13_scaled_projection : forall lam p l u, 0 < lam ->
  clip_b (lam * p) (bnd_scale lam l) (bnd_scale lam u) == lam * clip_b p l u.
Proof. exact clip_b_scale. Qed.

(* 4. bound multipliers component by component, and their signs *)
Theorem C13_bounds_dual_component : forall P atol x y, wf P x -> forall j, (j < nvars P)%nat ->
  nth j (bounds_dual P atol x y) 0
  = bdual1 atol (nth j x 0) (nth j (var_lb P) None) (nth j (var_ub P) None) (nth j (vneg (lag_grad P x y)) 0).
Proof. exact bounds_dual_nth. Qed.
Theorem C13_bound_dual_signs : forall atol xi l u r,
  (near_lower atol xi l = false -> near_upper atol xi u = false -> bdual1 atol xi l u r = 0)
  /\ (near_lower atol xi l = true -> near_upper atol xi u = false -> bdual1 atol xi l u r <= 0)
  /\ (near_lower atol xi l = false -> near_upper atol xi u = true -> 0 <= bdual1 atol xi l u r)
  /\ (near_lower atol xi l = true -> near_upper atol xi u = true -> bdual1 atol xi l u r = r).
Proof.
  intros. split; [|split; [|split]].
  - apply bdual1_interior. - apply bdual1_lower. - apply bdual1_upper. - apply bdual1_both.
Qed.

(* 5. the stationarity residual vanishes exactly on the normal cone of the (active_tol-fattened) box:
      G = 0 in the interior, G >= 0 at a lower bound only, G <= 0 at an upper bound only *)
Theorem C13_stationarity_characterisation : forall atol xi l u G,
  (near_lower atol xi l = false -> near_upper atol xi u = false -> G == 0) ->
  (near_lower atol xi l = true -> near_upper atol xi u = false -> 0 <= G) ->
  (near_lower atol xi l = false -> near_upper atol xi u = true -> G <= 0) ->
  G + bdual1 atol xi l u (- G) == 0.
Proof. exact stat1_zero. Qed.

(* 6. total_res <= tol splits into its three parts, and stat_res <= tol holds component by component *)
Theorem C13_total_res_parts : forall P atol x y tol, total_res P atol x y <= tol ->
  cons_violation P x <= tol /\ bound_violation P x <= tol /\ stat_res P atol x y <= tol.
Proof. exact total_res_parts. Qed.
Theorem C13_stat_res_component : forall P atol x y, wf P x -> forall tol j,
  stat_res P atol x y <= tol -> (j < nvars P)%nat ->
  qabs (nth j (lag_grad P x y) 0
        + bdual1 atol (nth j x 0) (nth j (var_lb P) None) (nth j (var_ub P) None) (- nth j (lag_grad P x y) 0)) <= tol.
Proof. exact stat_res_nth. Qed.

(* non-vacuity: the residual function of a bounded 2-variable instance at a point whose projection
   leaves the box in one component *)
Definition ex13 : problem := quad_problem (mk_qspec [[1; 0]; [0; 1]] [4; -(4)] 0 [] [] [] [Some 0; Some 0] [Some 1; Some 1] [] []).
Example C13_nonvacuous :
  let act := active_set ex13 [1 # 2; 1 # 2] 1 1 None [1 # 2; 1 # 2] [] in
  act = [true; true]
  /\ map Qred (value_at ex13 [1 # 2; 1 # 2] [] 1 1 [1 # 2; 1 # 2] [] act) = [1 # 2; -(1 # 2)]
  /\ map Qred (value_at ex13 [1 # 2; 1 # 2] [] 1 1 [1 # 2; 1 # 2] [] [false; false]) = [9 # 2; -(7 # 2)].
Proof. vm_compute. repeat split. Qed.

Print Assumptions C13_projection_spec.
Print Assumptions C13_projection_in_box.
Print Assumptions C13_projection_identity_on_inactive.
Print Assumptions C13_clip_identity_inside.
Print Assumptions C13_unmarked_is_nearly_inside.
Print Assumptions C13_scaled_projection.
Print Assumptions C13_bounds_dual_component.
Print Assumptions C13_bound_dual_signs.
Print Assumptions C13_stationarity_characterisation.
Print Assumptions C13_total_res_parts.
Print Assumptions C13_stat_res_component.
Print Assumptions C13_projection_idempotent.
Print Assumptions C13_projection_is_nearest_point.
Print Assumptions C13_projection_nonexpansive.
