(* C14 — all step-solver choices compute the same Newton step.
   The systems the four step solvers assemble are in model/StepSolvers.v, tied to pygradflow by exact
   correspondence (matrix, right-hand side and post-processing captured at the linear-solver interface).
   The theorems below are the algebra: the row equations of the scaled formulations are equivalent to
   F'_A(z) s = F(z), for EVERY linear H0, J, J^T, active set, lambda > 0, rho > 0 and residual. *)
From Verif Require Import StepSolvers StepAlgebra StepProofs.

Section C14.
  Variables H0 J Jt : V -> V.
  Hypothesis H0_lin : forall (a b : Q) (u v : V) j, H0 (fun k => a * u k + b * v k) j == a * H0 u j + b * H0 v j.
  Hypothesis J_lin : forall (a b : Q) (u v : V) i, J (fun k => a * u k + b * v k) i == a * J u i + b * J v i.
  Hypothesis Jt_lin : forall (a b : Q) (u v : V) j, Jt (fun k => a * u k + b * v k) j == a * Jt u j + b * Jt v j.
  Hypothesis H0_ext : forall (u v : V), (forall k, u k == v k) -> forall j, H0 u j == H0 v j.
  Hypothesis J_ext : forall (u v : V), (forall k, u k == v k) -> forall i, J u i == J v i.
  Hypothesis Jt_ext : forall (u v : V), (forall k, u k == v k) -> forall j, Jt u j == Jt v j.
  Variable act : nat -> bool.
  Variables lam rho : Q.
  Hypothesis lam_pos : 0 < lam.
  Hypothesis rho_pos : 0 < rho.
  Variables Fx Fy : V.

  (* extended and asymmetric formulation (identity rows on the active set, (2,2) block -lambda/(1+lambda rho)):
     its solution, post-processed by dy = fact * (sy - rho * b2), solves the standard Newton system whose
     Hessian is H0 + rho J^T J *)
  Theorem C14_extended_solves_standard : forall sx sy,
    ext_system H0 J Jt act lam rho Fx Fy sx sy ->
    std_system H0 J Jt act lam rho Fx Fy sx (post_dy lam rho Fy sy).
  Proof. exact (ext_solves_std H0 J Jt Jt_lin Jt_ext act lam rho lam_pos rho_pos Fx Fy). Qed.

  (* ... and conversely, so the two systems have the same solutions *)
  Theorem C14_standard_solves_extended : forall dx dy,
    std_system H0 J Jt act lam rho Fx Fy dx dy ->
    ext_system H0 J Jt act lam rho Fx Fy dx (pre_sy J rho dx dy).
  Proof. exact (std_solves_ext H0 J Jt Jt_lin Jt_ext act lam rho lam_pos rho_pos Fx Fy). Qed.
  Theorem C14_post_inverts_pre : forall dx dy i,
    std_system H0 J Jt act lam rho Fx Fy dx dy -> post_dy lam rho Fy (pre_sy J rho dx dy) i == dy i.
  Proof. exact (post_pre H0 J Jt act lam rho lam_pos rho_pos Fx Fy). Qed.

  (* symmetric formulation: the reduced system on the inactive set with dx[active] = b0 assigned *)
  Theorem C14_symmetric_iff_extended : forall sx sy,
    sym_system H0 J Jt act lam rho Fx Fy sx sy <-> ext_system H0 J Jt act lam rho Fx Fy sx sy.
  Proof. exact (sym_iff_ext H0 J Jt H0_lin J_lin H0_ext J_ext act lam rho Fx Fy). Qed.
  Theorem C14_symmetric_solves_standard : forall sx sy,
    sym_system H0 J Jt act lam rho Fx Fy sx sy ->
    std_system H0 J Jt act lam rho Fx Fy sx (post_dy lam rho Fy sy).
  Proof. exact (sym_solves_std H0 J Jt H0_lin J_lin Jt_lin H0_ext J_ext Jt_ext act lam rho lam_pos rho_pos Fx Fy). Qed.

  (* one Newton step is exact when the residual is affine along the step (quadratic objective, affine
     constraints, unchanged active set, no clipping) *)
  Theorem C14_one_step_exact : forall dx dy Fx' Fy',
    std_system H0 J Jt act lam rho Fx Fy dx dy ->
    (forall j, act j = true -> Fx' j == Fx j - dx j) ->
    (forall j, act j = false -> Fx' j == Fx j - (dx j + 1 / lam * (H0 dx j + rho * Jt (J dx) j + Jt dy j))) ->
    (forall i, Fy' i == Fy i - (- (1 / lam) * J dx i + dy i)) ->
    (forall j, Fx' j == 0) /\ (forall i, Fy' i == 0).
  Proof. exact (one_step_exact H0 J Jt act lam rho Fx Fy). Qed.
End C14.

(* the simplified, full and active-set Newton variants take the same first step from the same start *)
Theorem C14_first_step_agree : forall P xh yh dt rho kind tau sol,
  newton_step P xh yh dt rho kind Simplified tau xh yh sol = newton_step P xh yh dt rho kind Full tau xh yh sol
  /\ newton_step P xh yh dt rho kind Simplified tau xh yh sol
     = newton_step P xh yh dt rho kind ActiveSetNewton tau xh yh sol.
Proof. exact first_step_agree. Qed.

(* non-vacuity: a 2-variable, 1-constraint instance on which the four assembled systems are evaluated *)
Definition ex14 : problem :=
  quad_problem (mk_qspec [[2; 0]; [0; 1]] [1; -(1)] 0 [[[1; 0]; [0; 0]]] [[1; 1]] [-(1)]
                         [Some 0; None] [Some 2; None] [Some 0] [Some 0]).
Example C14_nonvacuous :
  length (matrix ex14 1 1 KStandard [true; false] [1; 1] [1]) = 3%nat
  /\ length (matrix ex14 1 1 KExtended [true; false] [1; 1] [1]) = 3%nat
  /\ length (matrix ex14 1 1 KSymmetric [true; false] [1; 1] [1]) = 2%nat
  /\ length (matrix ex14 1 1 KAsymmetric [true; false] [1; 1] [1]) = 3%nat.
Proof. vm_compute. repeat split. Qed.

Print Assumptions C14_extended_solves_standard.
Print Assumptions C14_standard_solves_extended.
Print Assumptions C14_post_inverts_pre.
Print Assumptions C14_symmetric_iff_extended.
Print Assumptions C14_symmetric_solves_standard.
Print Assumptions C14_one_step_exact.
Print Assumptions C14_first_step_agree.
