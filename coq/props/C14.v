(* C14 — all step-solver choices compute the same Newton step.
   The systems the four step solvers assemble are in model/StepSolvers.v, tied to pygradflow by exact
   correspondence (matrix, right-hand side and post-processing captured at the linear-solver interface).
   The theorems below are the algebra: the row equations of the scaled formulations are equivalent to
   F'_A(z) s = F(z), for EVERY linear H0, J, J^T, active set, lambda > 0, rho > 0 and residual. *)
From Verif Require Import StepSolvers LineSearch StepAlgebra StepProofs VecLemmas StepBridge StepBridge2 SearchProofs.
From Coq Require Import Lqa.

Section C14.
  Variables H0 J Jt : V -> V.
  Hypothesis H0_lin : forall (a b : Q) (u v : V) j, H0 (fun k => a * u k + b * v k) j == a * H0 u j + b * H0 v j.
  Hypothesis J_lin : forall (a b : Q) (u v : V) i, J (fun k => a * u k + b * v k) i == a * J u i + b * J v i.
  Hypothesis Jt_lin : forall (a b : Q) (u v : V) j, Jt (fun k => a * u k + b * v k) j == a * Jt u j + b * Jt v j.
  Hypothesis H0_ext : forall (u v : V), (forall k, u k == v k) -> forall j, H0 u j == H0 v j.
  Hypothesis J_ext : forall (u v : V), (forall k, u k == v k) -> forall i, J u i == J v i.
  Hypothesis Jt_ext : forall (u v : V), (forall k, u k == v k) -> forall j, Jt u j == Jt v j.
  Variable act : nat -> bool.
  Variables lam rho : Q.
  Hypothesis lam_pos : 0 < lam.
  Hypothesis rho_pos : 0 < rho.
  Variables Fx Fy : V.

  (* extended and asymmetric formulation (identity rows on the active set, (2,2) block -lambda/(1+lambda rho)):
     its solution, post-processed by dy = fact * (sy - rho * b2), solves the standard Newton system whose
     Hessian is H0 + rho J^T J *)
  Theorem C14_extended_solves_standard : forall sx sy,
    ext_system H0 J Jt act lam rho Fx Fy sx sy ->
    std_system H0 J Jt act lam rho Fx Fy sx (post_dy lam rho Fy sy).
  Proof. exact (ext_solves_std H0 J Jt Jt_lin Jt_ext act lam rho lam_pos rho_pos Fx Fy). Qed.

  (* ... and conversely, so the two systems have the same solutions *)
  Theorem C14_standard_solves_extended : forall dx dy,
    std_system H0 J Jt act lam rho Fx Fy dx dy ->
    ext_system H0 J Jt act lam rho Fx Fy dx (pre_sy J rho dx dy).
  Proof. exact (std_solves_ext H0 J Jt Jt_lin Jt_ext act lam rho lam_pos rho_pos Fx Fy). Qed.
  Theorem C14_post_inverts_pre : forall dx dy i,
    std_system H0 J Jt act lam rho Fx Fy dx dy -> post_dy lam rho Fy (pre_sy J rho dx dy) i == dy i.
  Proof. exact (post_pre H0 J Jt act lam rho lam_pos rho_pos Fx Fy). Qed.

  (* symmetric formulation: the reduced system on the inactive set with dx[active] = b0 assigned *)
  Theorem C14_symmetric_iff_extended : forall sx sy,
    sym_system H0 J Jt act lam rho Fx Fy sx sy <-> ext_system H0 J Jt act lam rho Fx Fy sx sy.
  Proof. exact (sym_iff_ext H0 J Jt H0_lin J_lin H0_ext J_ext act lam rho Fx Fy). Qed.
  Theorem C14_symmetric_solves_standard : forall sx sy,
    sym_system H0 J Jt act lam rho Fx Fy sx sy ->
    std_system H0 J Jt act lam rho Fx Fy sx (post_dy lam rho Fy sy).
  Proof. exact (sym_solves_std H0 J Jt H0_lin J_lin Jt_lin H0_ext J_ext Jt_ext act lam rho lam_pos rho_pos Fx Fy). Qed.

  (* one Newton step is exact when the residual is affine along the step (quadratic objective, affine
     constraints, unchanged active set, no clipping) *)
  Theorem C14_one_step_exact : forall dx dy Fx' Fy',
    std_system H0 J Jt act lam rho Fx Fy dx dy ->
    (forall j, act j = true -> Fx' j == Fx j - dx j) ->
    (forall j, act j = false -> Fx' j == Fx j - (dx j + 1 / lam * (H0 dx j + rho * Jt (J dx) j + Jt dy j))) ->
    (forall i, Fy' i == Fy i - (- (1 / lam) * J dx i + dy i)) ->
    (forall j, Fx' j == 0) /\ (forall i, Fy' i == 0).
  Proof. exact (one_step_exact H0 J Jt act lam rho Fx Fy). Qed.
End C14.

(* the simplified, full and active-set Newton variants take the same first step from the same start *)
Theorem C14_first_step_agree : forall P xh yh dt rho kind tau sol,
  newton_step P xh yh dt rho kind Simplified tau xh yh sol = newton_step P xh yh dt rho kind Full tau xh yh sol
  /\ newton_step P xh yh dt rho kind Simplified tau xh yh sol
     = newton_step P xh yh dt rho kind ActiveSetNewton tau xh yh sol.
Proof. exact first_step_agree. Qed.

(* non-vacuity: a 2-variable, 1-constraint instance on which the four assembled systems are evaluated *)
Definition ex14 : problem :=
  quad_problem (mk_qspec [[2; 0]; [0; 1]] [1; -(1)] 0 [[[1; 0]; [0; 0]]] [[1; 1]] [-(1)]
                         [Some 0; None] [Some 2; None] [Some 0] [Some 0]).
Example C14_nonvacuous :
  length (matrix ex14 1 1 KStandard [true; false] [1; 1] [1]) = 3%nat
  /\ length (matrix ex14 1 1 KExtended [true; false] [1; 1] [1]) = 3%nat
  /\ length (matrix ex14 1 1 KSymmetric [true; false] [1; 1] [1]) = 2%nat
  /\ length (matrix ex14 1 1 KAsymmetric [true; false] [1; 1] [1]) = 3%nat.
Proof. vm_compute. repeat split. Qed.

Print Assumptions C14_extended_solves_standard.
Print Assumptions C14_standard_solves_extended.
Print Assumptions C14_post_inverts_pre.
Print Assumptions C14_symmetric_iff_extended.
Print Assumptions C14_symmetric_solves_standard.
Print Assumptions C14_one_step_exact.
Print Assumptions C14_first_step_agree.

(* ---------------- on the lists the code builds (no abstraction left): asymmetric vs standard ---------------- *)
(* for an ARBITRARY problem (arbitrary callbacks), point, multiplier, derivative point, active set, dt > 0,
   rho > 0 and well-shaped data: if `sol` solves the system AsymmetricStepSolver assembles, then the (dx, dy) the
   code computes from it solves the system StandardStepSolver assembles, whose matrix is F'_A(z) with the Hessian
   H(x, y + rho c) + rho J^T J and whose right-hand side is F(z) *)
Theorem C14_asymmetric_solves_standard_lists : forall (P : problem) xh yh dt rho, 0 < dt -> 0 < rho ->
  forall act xd yd x y, wfb P rho act xd yd -> wfr P xh yh rho act x y ->
  forall sol, length sol = (nvars P + ncons P)%nat ->
  veq (mvec (matrix P dt rho KAsymmetric act xd yd) sol) (rhs P xh yh dt rho KAsymmetric act xd yd x y) ->
  let '(dx, dy) := post P xh yh dt rho KAsymmetric act x y sol in
  veq (mvec (matrix P dt rho KStandard act xd yd) (dx ++ dy)) (rhs P xh yh dt rho KStandard act xd yd x y).
Proof.
  intros P xh yh dt rho Hdt Hrho act xd yd x y WB WR sol Lsol Hsol.
  exact (asymmetric_solves_standard_lists P xh yh dt rho Hdt Hrho act xd yd x y WB WR sol Lsol Hsol).
Qed.

(* the scaled residual function is lambda times the standard one (y block with the opposite sign), for the
   same active set: the relation the algebra above starts from, proved on the list definitions *)
Theorem C14_scaled_residual_x : forall (P : problem) xh yh dt rho, 0 < dt -> forall act x y,
  wfr P xh yh rho act x y -> forall j, (j < nvars P)%nat ->
  nth j (s_value_at P xh yh dt rho x y act) 0 == 1 / dt * nth j (value_at P xh yh dt rho x y act) 0.
Proof. exact scaled_residual_x. Qed.
Theorem C14_scaled_residual_y : forall (P : problem) xh yh dt rho, 0 < dt -> forall act x y,
  wfr P xh yh rho act x y -> forall i, (i < ncons P)%nat ->
  nth (nvars P + i) (s_value_at P xh yh dt rho x y act) 0
  == - (1 / dt * nth (nvars P + i) (value_at P xh yh dt rho x y act) 0).
Proof. exact scaled_residual_y. Qed.

(* non-vacuity: f = x^2/2, c = x = 0, at x = 1, y = 0, dt = rho = 1: the asymmetric system [[2,1],[1,-1/2]] s =
   (2, 1/2) has the solution (3/4, 1/2), and the post-processed step (3/4, 3/4) solves the standard system *)
Definition ex14b : problem := quad_problem (mk_qspec [[1]] [0] 0 [[[0]]] [[1]] [0] [None] [None] [Some 0] [Some 0]).
Example C14_lists_nonvacuous :
  veqb (mvec (matrix ex14b 1 1 KAsymmetric [false] [1] [0]) [3 # 4; 1 # 2]) (rhs ex14b [1] [0] 1 1 KAsymmetric [false] [1] [0] [1] [0]) = true
  /\ (let '(dx, dy) := post ex14b [1] [0] 1 1 KAsymmetric [false] [1] [0] [3 # 4; 1 # 2] in
      veqb (mvec (matrix ex14b 1 1 KStandard [false] [1] [0]) (dx ++ dy)) (rhs ex14b [1] [0] 1 1 KStandard [false] [1] [0] [1] [0])) = true.
Proof. vm_compute. split; reflexivity. Qed.
Example C14_lists_wf : wfb ex14b 1 [false] [1] [0] /\ wfr ex14b [1] [0] 1 [false] [1] [0].
Proof. split; constructor; try reflexivity; repeat constructor. Qed.

(* ALL FOUR step solvers, on the lists the code builds: whichever system the configured solver assembles
   (Standard: F'_A s = F;  Extended: permuted rows of the scaled system;  Symmetric: the reduced system in the
   inactive variables and the multipliers;  Asymmetric: identity rows for active variables), any exact solution of
   it, post-processed as the code does, solves the Standard system *)
Theorem C14_every_kind_solves_standard_lists : forall (P : problem) xh yh dt rho, 0 < dt -> 0 < rho ->
  forall act xd yd x y, wfb P rho act xd yd -> wfr P xh yh rho act x y ->
  forall (k : solver_kind) sol, length sol = sys_len P act k ->
  veq (mvec (matrix P dt rho k act xd yd) sol) (rhs P xh yh dt rho k act xd yd x y) ->
  veq (mvec (matrix P dt rho KStandard act xd yd) (post_vec P xh yh dt rho act x y k sol))
      (rhs P xh yh dt rho KStandard act xd yd x y).
Proof.
  intros P xh yh dt rho Hdt Hrho act xd yd x y WB WR k sol L H.
  exact (every_kind_solves_standard_lists P xh yh dt rho Hdt Hrho act xd yd x y WB WR k sol L H).
Qed.

(* ... hence, where the Standard matrix determines its solution, any two step solvers return the same step *)
Theorem C14_all_kinds_same_step : forall (P : problem) xh yh dt rho, 0 < dt -> 0 < rho ->
  forall act xd yd x y, wfb P rho act xd yd -> wfr P xh yh rho act x y ->
  forall (k1 k2 : solver_kind) s1 s2,
  injective_on (matrix P dt rho KStandard act xd yd) (nvars P + ncons P) ->
  length s1 = sys_len P act k1 -> length s2 = sys_len P act k2 ->
  veq (mvec (matrix P dt rho k1 act xd yd) s1) (rhs P xh yh dt rho k1 act xd yd x y) ->
  veq (mvec (matrix P dt rho k2 act xd yd) s2) (rhs P xh yh dt rho k2 act xd yd x y) ->
  veq (post_vec P xh yh dt rho act x y k1 s1) (post_vec P xh yh dt rho act x y k2 s2).
Proof.
  intros P xh yh dt rho Hdt Hrho act xd yd x y WB WR k1 k2 s1 s2 Inj L1 L2 H1 H2.
  exact (all_kinds_same_step P xh yh dt rho Hdt Hrho act xd yd x y WB WR k1 k2 s1 s2 Inj L1 L2 H1 H2).
Qed.

(* non-vacuity: two variables (the second active), one equality row; the four systems differ (3x3 permuted,
   2x2 reduced), each has the listed solution, and all four post-processed steps are (-1/4, 3, 3/4) *)
Definition ex14c : problem :=
  quad_problem (mk_qspec [[1;0];[0;1]] [0;0] 0 [[[0;0];[0;0]]] [[1;1]] [0] [Some 0; None] [None;None] [Some 0] [Some 0]).
Definition sol14c (k : solver_kind) : vec :=
  match k with KStandard => [-1 # 4; 3; 3 # 4] | KSymmetric => [-1 # 4; 7 # 2] | _ => [-1 # 4; 3; 7 # 2] end.
Example C14_all_kinds_nonvacuous :
  forallb (fun k => (length (sol14c k) =? sys_len ex14c [false;true] k)%nat
                    && veqb (mvec (matrix ex14c 1 1 k [false;true] [1;1] [0]) (sol14c k))
                            (rhs ex14c [1;1] [0] 1 1 k [false;true] [1;1] [0] [1;1] [0])
                    && veqb (post_vec ex14c [1;1] [0] 1 1 [false;true] [1;1] [0] k (sol14c k)) [-1 # 4; 3; 3 # 4])
          [KStandard; KExtended; KSymmetric; KAsymmetric] = true
  /\ matrix ex14c 1 1 KExtended [false;true] [1;1] [0] <> matrix ex14c 1 1 KAsymmetric [false;true] [1;1] [0].
Proof. split; [vm_compute; reflexivity|vm_compute; discriminate]. Qed.
Example C14_all_kinds_wf : wfb ex14c 1 [false;true] [1;1] [0] /\ wfr ex14c [1;1] [0] 1 [false;true] [1;1] [0].
Proof. split; constructor; try reflexivity; repeat constructor. Qed.
Example C14_all_kinds_injective : injective_on (matrix ex14c 1 1 KStandard [false;true] [1;1] [0]) 3.
Proof.
  intros v w Lv Lw H.
  destruct v as [|v0 [|v1 [|v2 [|]]]]; try discriminate. destruct w as [|w0 [|w1 [|w2 [|]]]]; try discriminate.
  match type of H with veq (mvec ?M _) _ => let M' := eval vm_compute in M in change M with M' in H end.
  cbn [mvec map dot] in H.
  inversion H as [|? ? ? ? E0 H']; subst. inversion H' as [|? ? ? ? E1 H'']; subst.
  inversion H'' as [|? ? ? ? E2 _]; subst.
  repeat constructor; lra.
Qed.

(* the Globalized variant (LineSearch.v): it hands the step solver exactly the system of the Full variant, for every
   step solver; and when the residual is already below newton_tol, or the full step passes the acceptance test at
   once, the point it hands on is the Full variant's point (component-wise) *)
Theorem C14_globalized_system_is_full : forall (P : problem) xh yh dt rho kind tau tol x y sol,
  let '(M, r, _) := globalized_step P xh yh dt rho kind tau tol x y sol in
  let '(M', r', _) := newton_step P xh yh dt rho kind Full tau x y sol in
  M = M' /\ r = r'.
Proof. exact globalized_system_is_full. Qed.
Theorem C14_globalized_full_step_when_accepted : forall (P : problem) xh yh dt rho kind tau tol x y sol,
  Forall2 (fun l u => bnd_le l u = true) (var_lb P) (var_ub P) ->
  let '(_, _, (dx0, dy0, xn0, yn0)) := newton_step P xh yh dt rho kind Full tau x y sol in
  qle (merit P xh yh dt rho kind x y) tol = true
  \/ accepts P xh yh dt rho kind tol (merit P xh yh dt rho kind x y) (search_ip P xh yh dt rho kind x y dx0 dy0)
             x y dx0 dy0 1 = true ->
  match snd (globalized_step P xh yh dt rho kind tau tol x y sol) with
  | Some (_, _, xn, yn) => veq xn xn0 /\ veq yn yn0
  | None => False
  end.
Proof. exact globalized_full_step_when_accepted. Qed.
(* non-vacuity: f = x^2/2 on [-1, 3], x = 1, dt = rho = 1: the exact Newton direction 1/2 is accepted at once *)
Example C14_globalized_nonvacuous :
  let P := quad_problem (mk_qspec [[1]] [0] 0 [] [] [] [Some (-(1))] [Some 3] [] []) in
  accepts P [1] [] 1 1 KStandard c_1e8 (merit P [1] [] 1 1 KStandard [1] []) (search_ip P [1] [] 1 1 KStandard [1] [] [1 # 2] [])
          [1] [] [1 # 2] [] 1 = true
  /\ qle (merit P [1] [] 1 1 KStandard [1] []) c_1e8 = false.
Proof. vm_compute. split; reflexivity. Qed.

Print Assumptions C14_asymmetric_solves_standard_lists.
Print Assumptions C14_scaled_residual_x.
Print Assumptions C14_scaled_residual_y.
Print Assumptions C14_every_kind_solves_standard_lists.
Print Assumptions C14_all_kinds_same_step.
Print Assumptions C14_globalized_system_is_full.
Print Assumptions C14_globalized_full_step_when_accepted.
