(* C17 — linear solvers return the solution or fail loudly (wrapper logic; the scipy backends are oracles). *)
From Verif Require Import LinSolve VecLemmas LinProofs.

Section C17.
  Variable splu_ok : mat -> bool.                      (* does SuperLU factorise this matrix? *)
  Variable lu_backsolve : mat -> bool -> vec -> vec.   (* its triangular solves, "N" / "T" *)
  Variable iter_backend : bcall -> vec * Z.            (* scipy gmres / minres: (vector, info) *)
  Variable n : nat.
  Notation solve := (solve lu_backsolve iter_backend n).

  (* backend contract assumed (sampled by the check, not proved): info = 0 means the returned vector meets
     the backend's stated tolerance for the system it was given *)

  Theorem C17_gmres_returns_only_converged : forall A rhs trans x0 v call,
    solve GMRES A rhs trans x0 = (LOk v, call) ->
    let M := if trans then transpose n A else A in
    (exists c, call = Some c /\ b_mat c = M /\ b_rhs c = rhs /\ b_x0 c = x0
               /\ snd (iter_backend c) = 0%Z /\ v = fst (iter_backend c))
    \/ (call = None /\ x0 = Some v /\ residual_inf M v rhs < c_1e8').
  Proof. exact (gmres_returns_only_converged lu_backsolve iter_backend n). Qed.

  Theorem C17_gmres_fails_loudly : forall A rhs trans x0 c,
    snd (solve GMRES A rhs trans x0) = Some c -> snd (iter_backend c) <> 0%Z ->
    fst (solve GMRES A rhs trans x0) = LErr.
  Proof. exact (gmres_fails_loudly lu_backsolve iter_backend n). Qed.

  Theorem C17_minres_returns_only_converged : forall A rhs trans x0 v call,
    solve MINRES A rhs trans x0 = (LOk v, call) ->
    exists c, call = Some c /\ b_mat c = A /\ b_rhs c = rhs /\ b_x0 c = x0
              /\ snd (iter_backend c) = 0%Z /\ v = fst (iter_backend c).
  Proof. exact (minres_returns_only_converged lu_backsolve iter_backend n). Qed.
  Theorem C17_minres_requires_symmetric : forall A, create splu_ok MINRES A false = CreateAssert.
  Proof. exact (minres_requires_symmetric splu_ok). Qed.

  Theorem C17_lu_fail_loud : forall A sym, splu_ok A = false -> create splu_ok LU A sym = CreateErr.
  Proof. exact (lu_fail_loud splu_ok). Qed.
  Theorem C17_lu_solve_spec : forall A rhs trans x0,
    solve LU A rhs trans x0
    = (LOk (lu_backsolve A trans rhs), Some {| b_mat := A; b_rhs := rhs; b_x0 := None; b_trans := trans |}).
  Proof. exact (lu_solve_spec lu_backsolve iter_backend n). Qed.
End C17.

(* non-vacuity: GMRES with a transposed request and a backend that reports non-convergence raises;
   an initial guess that solves the transposed system is returned without calling the backend *)
Example C17_nonvacuous :
  fst (solve (fun _ _ v => v) (fun _ => ([0; 0], 3%Z)) 2 GMRES [[1; 2]; [0; 1]] [1; 1] true None) = LErr
  /\ solve (fun _ _ v => v) (fun _ => ([0; 0], 3%Z)) 2 GMRES [[1; 2]; [0; 1]] [1; 3] true (Some [1; 1])
     = (LOk [1; 1], None).
Proof. vm_compute. split; reflexivity. Qed.

Print Assumptions C17_gmres_returns_only_converged.
Print Assumptions C17_gmres_fails_loudly.
Print Assumptions C17_minres_returns_only_converged.
Print Assumptions C17_minres_requires_symmetric.
Print Assumptions C17_lu_fail_loud.
Print Assumptions C17_lu_solve_spec.
