(* C19 — the derivative checker accepts correct derivatives and pinpoints wrong ones.
   f is an arbitrary function, D an arbitrary candidate derivative (any dimensions). *)
From Verif Require Import DerivCheck VecLemmas DerivProofs DerivProofs2 CorrDeriv.

(* 1. an error identifies the FIRST column containing a failing entry and exactly the failing rows of it *)
Theorem C19_error_pinpoints : forall f x D eps atol cols rows i,
  check_cols f x D eps atol cols = Some (rows, i) ->
  exists pre post, cols = pre ++ i :: post
    /\ (forall k, In k pre -> bad_rows atol (col k D) (fd_col f x k eps) = [])
    /\ rows = bad_rows atol (col i D) (fd_col f x i eps) /\ rows <> [].
Proof. exact error_pinpoints. Qed.
Theorem C19_reported_rows : forall atol dcol apx r,
  In r (bad_rows atol dcol apx)
  <-> (r < length dcol)%nat /\ (r < length apx)%nat /\ isclose atol (nth r dcol 0) (nth r apx 0) = false.
Proof. exact bad_rows_spec. Qed.

(* 2. derivatives whose entries all pass the closeness test are accepted; being within deriv_tol of the
      difference quotient suffices (for a quadratic function the quotient is D* + eps/2 * curvature) *)
Theorem C19_correct_accepted : forall f x D eps atol cols,
  (forall k, In k cols -> bad_rows atol (col k D) (fd_col f x k eps) = []) ->
  check_cols f x D eps atol cols = None.
Proof. exact correct_accepted. Qed.
Theorem C19_within_tolerance_is_close : forall atol e a, qabs (e - a) <= atol -> isclose atol e a = true.
Proof. exact isclose_within. Qed.

(* 3. a single entry wrong by more than twice its closeness threshold (atol + rtol |quotient|) — the factor
      two is what the truncation error of the correct entry may mask — is reported with its column and
      exactly its row, whatever the position (r, c), for gradient, Jacobian and Hessian alike *)
Theorem C19_single_corruption_detected : forall f x (D : mat) eps atol r c d n,
  (c < n)%nat -> (r < length D)%nat ->
  Forall (fun row => length row = n) D ->
  (forall k, length (fd_col f x k eps) = length D) ->
  (forall k, (k < n)%nat -> bad_rows atol (col k D) (fd_col f x k eps) = []) ->
  2 * (atol + c_rtol * qabs (nth r (fd_col f x c eps) 0)) < qabs d ->
  exists rows, check_cols f x (add_at2 D r c d) eps atol (seq 0 n) = Some (rows, c)
               /\ forall r', In r' rows <-> r' = r.
Proof. exact single_corruption_detected. Qed.

(* 4. the checker's silence is informative: acceptance is EXACTLY "no checked column has a failing row", so after
      an accepted check every compared entry passed the closeness test; and with ANY number of wrong entries,
      whenever some checked column has a failing row the checker raises and reports a genuine failing column
      with exactly its failing rows *)
Theorem C19_accepted_iff_all_clean : forall f x D eps atol cols,
  check_cols f x D eps atol cols = None
  <-> forall k, In k cols -> bad_rows atol (col k D) (fd_col f x k eps) = [].
Proof. exact accepted_iff. Qed.
Theorem C19_accepted_entries_close : forall f x D eps atol cols,
  check_cols f x D eps atol cols = None ->
  forall k r, In k cols -> (r < length (col k D))%nat -> (r < length (fd_col f x k eps))%nat ->
    isclose atol (nth r (col k D) 0) (nth r (fd_col f x k eps) 0) = true.
Proof. exact accepted_entries_close. Qed.
Theorem C19_any_bad_column_raises : forall f x D eps atol cols k,
  In k cols -> bad_rows atol (col k D) (fd_col f x k eps) <> [] ->
  exists rows i, check_cols f x D eps atol cols = Some (rows, i)
    /\ In i cols /\ rows = bad_rows atol (col i D) (fd_col f x i eps) /\ rows <> [].
Proof. exact any_bad_column_raises. Qed.

(* non-vacuity: f(x) = (x0^2, x0 x1) at (1, 2), Jacobian entry (1,0) corrupted by 1 *)
Example C19_nonvacuous :
  let f := fun z : vec => [nth 0 z 0 * nth 0 z 0; nth 0 z 0 * nth 1 z 0] in
  deriv_check f [1; 2] [[2; 0]; [2; 1]] (1 # 1024) (1 # 16) = None
  /\ deriv_check f [1; 2] (add_at2 [[2; 0]; [2; 1]] 1 0 1) (1 # 1024) (1 # 16) = Some ([1%nat], 0%nat).
Proof. vm_compute. split; reflexivity. Qed.

Print Assumptions C19_error_pinpoints.
Print Assumptions C19_reported_rows.
Print Assumptions C19_correct_accepted.
Print Assumptions C19_within_tolerance_is_close.
Print Assumptions C19_single_corruption_detected.
Print Assumptions C19_accepted_iff_all_clean.
Print Assumptions C19_accepted_entries_close.
Print Assumptions C19_any_bad_column_raises.
