(* C05 — user functions are only evaluated inside the variable bounds.
   Static part (this file): the arithmetic that keeps points in the box, for every input; the loop invariant
   for every oracle trace; the abstract argument over construction sites.  Per-run part:
   factprops/FactsC05.v (every construction / evaluation site in /repo is of a known kind). *)
From Verif Require Import Transform StepSolvers LineSearch Loop VecLemmas TransformProofs StepProofs ImplicitProofs SearchProofs LoopTop Effects.

(* 1. StepResult puts the new point into [lb, ub] for EVERY dx the linear solver may have returned — so
      independently of Newton variant, step solver, linear solver and active-set rule — keeps dx consistent
      with it, and does not touch a point that is already inside *)
Theorem C05_compute_xn_in_box : forall x dx l u, bnd_le l u = true ->
  let '(xn, dx') := xn1 x dx l u in
  lb_le l xn = true /\ le_ub xn u = true /\ xn == x - dx'.
Proof. exact xn1_in_box. Qed.
Theorem C05_compute_xn_inside_untouched : forall x dx l u,
  lb_le l (x - dx) = true -> le_ub (x - dx) u = true -> xn1 x dx l u = (x - dx, dx).
Proof. exact xn1_inside. Qed.
Theorem C05_step_result_in_box : forall (P : problem) x y dx dy,
  Forall2 (fun l u => bnd_le l u = true) (var_lb P) (var_ub P) ->
  let '(_, _, xn, _) := step_result P x y dx dy in
  in_box (var_lb P) (var_ub P) xn = true.
Proof. exact step_result_in_box. Qed.

(* 2. the scaled bounds describe exactly the user's box: the point handed to the user's callbacks
      (ScaledProblem._orig_x of the internal point) is in the user's box iff the internal point is in the
      internal box *)
Theorem C05_scaled_box_exact : forall lb ub xt w,
  in_box (map2 ldexp_b lb w) (map2 ldexp_b ub w) xt = in_box lb ub (ldexpv xt (zneg w)).
Proof. exact orig_x_in_box. Qed.

(* 3. the starting slacks are clip(c(x0), l, u): inside the slack box for every x0 *)
Theorem C05_start_slacks_in_box : forall P x,
  Forall2 (fun l u => bnd_le l u = true) (cons_lb P) (cons_ub P) ->
  length (p_cons P x) = length (cons_lb P) ->
  in_box (select (slack_mask P) (cons_lb P)) (select (slack_mask P) (cons_ub P)) (slack_start P x) = true.
Proof. exact slack_start_in_box. Qed.

(* 4. loop invariant, for every step oracle whose answers have the property B (here: "in the box", by 1),
      every clock, configuration and penalty policy: the current iterate and both ends of every step announced
      to callbacks have it, in the state any solve returns *)
Theorem C05_loop_keeps_box : forall (It : Type) it_total it_linf it_obj it_feas it_pdata step_norm (B : It -> Prop)
    fuel c (orc : oracle It) clk x0 stt fin,
  (forall i x r d b nx l a k, orc i x r d b = Ans It nx l a k -> B nx) -> B x0 ->
  solve It it_total it_linf it_obj it_feas it_pdata step_norm fuel c orc clk x0 = Done It stt fin ->
  B (cur It fin) /\ Forall (fun a => B (fst (fst a)) /\ B (snd (fst a))) (announced It fin).
Proof.
  intros It it_total it_linf it_obj it_feas it_pdata step_norm B fuel c orc clk x0 stt fin H1 H2 H3.
  exact (solve_keeps_box It it_total it_linf it_obj it_feas it_pdata step_norm B fuel c orc clk x0 stt fin H1 H2 H3).
Qed.

(* 5. the argument over construction sites: if every Iterate of a run is the start (in the box by hypothesis),
      a clipped step / clip (in the box by 1), or a copy of an earlier one, then every one is in the box *)
Theorem C05_all_iterates_in_box : forall (inbox : nat -> Prop) (tr : list event),
  (forall k, nth_error tr k = Some EStart -> inbox k) ->
  (forall k, nth_error tr k = Some EClipped -> inbox k) ->
  (forall k j, nth_error tr k = Some (ECopy j) -> (j < k)%nat -> inbox j -> inbox k) ->
  (forall k j, nth_error tr k = Some (ECopy j) -> (j < k)%nat) ->
  forallb event_from_known_site tr = true -> forall k, (k < length tr)%nat -> inbox k.
Proof. exact all_iterates_in_box. Qed.

(* 6. the Armijo line search of the Globalized Newton variant (LineSearch.v): every trial point it builds — the
      points the user's functions are evaluated at while it backtracks — is in the box, for every direction and
      step length; a step that returns hands on a point in the box, which is the trial point that passed the
      test, for the first step length 2^-k (k < 30) that passes; the step fails (the code raises) exactly when
      the residual is above newton_tol and all 30 trials are rejected *)
Theorem C05_trial_point_in_box : forall (P : problem) x y dx0 dy0 alpha,
  Forall2 (fun l u => bnd_le l u = true) (var_lb P) (var_ub P) ->
  in_box (var_lb P) (var_ub P) (fst (trial_point P x y dx0 dy0 alpha)) = true.
Proof. exact trial_point_in_box. Qed.
Theorem C05_globalized_step_in_box : forall (P : problem) xh yh dt rho kind tau tol x y sol M r dx dy xn yn,
  Forall2 (fun l u => bnd_le l u = true) (var_lb P) (var_ub P) ->
  globalized_step P xh yh dt rho kind tau tol x y sol = (M, r, Some (dx, dy, xn, yn)) ->
  in_box (var_lb P) (var_ub P) xn = true.
Proof. exact globalized_step_in_box. Qed.
Theorem C05_globalized_step_spec : forall (P : problem) xh yh dt rho kind tau tol x y sol M r dx dy xn yn,
  Forall2 (fun l u => bnd_le l u = true) (var_lb P) (var_ub P) ->
  globalized_step P xh yh dt rho kind tau tol x y sol = (M, r, Some (dx, dy, xn, yn)) ->
  qle (merit P xh yh dt rho kind x y) tol = false ->
  let '(_, _, (dx0, dy0, _, _)) := newton_step P xh yh dt rho kind Full tau x y sol in
  let res := merit P xh yh dt rho kind x y in
  let ip := search_ip P xh yh dt rho kind x y dx0 dy0 in
  exists k, (k < max_trials)%nat
    /\ accepts P xh yh dt rho kind tol res ip x y dx0 dy0 (halves k 1) = true
    /\ (forall j, (j < k)%nat -> accepts P xh yh dt rho kind tol res ip x y dx0 dy0 (halves j 1) = false)
    /\ let '(xt, yt) := trial_point P x y dx0 dy0 (halves k 1) in veq xn xt /\ yn = yt.
Proof. exact globalized_step_spec. Qed.
Theorem C05_globalized_step_raises : forall (P : problem) xh yh dt rho kind tau tol x y sol,
  snd (globalized_step P xh yh dt rho kind tau tol x y sol) = None <->
  qle (merit P xh yh dt rho kind x y) tol = false
  /\ let '(_, _, (dx0, dy0, _, _)) := newton_step P xh yh dt rho kind Full tau x y sol in
     forall j, (j < max_trials)%nat ->
       accepts P xh yh dt rho kind tol (merit P xh yh dt rho kind x y) (search_ip P xh yh dt rho kind x y dx0 dy0)
               x y dx0 dy0 (halves j 1) = false.
Proof. exact globalized_step_raises. Qed.
Theorem C05_accepts_spec : forall (P : problem) xh yh dt rho kind tol res ip x y dx0 dy0 alpha,
  accepts P xh yh dt rho kind tol res ip x y dx0 dy0 alpha = true <->
  let '(xt, yt) := trial_point P x y dx0 dy0 alpha in
  merit P xh yh dt rho kind xt yt <= tol \/ merit P xh yh dt rho kind xt yt <= res + c_1e4 * alpha * ip.
Proof. exact accepts_spec. Qed.

(* the direction the search uses is the dx StepResult has already corrected, so every trial point is a convex
   combination of two points of the box and its clipping never moves it: the box invariant of the trial points does
   not rest on that clipping *)
Theorem C05_trial_point_unclipped : forall (P : problem) x y dx dy k,
  Forall2 (fun l u => bnd_le l u = true) (var_lb P) (var_ub P) ->
  length x = length (var_lb P) -> length dx = length x ->
  in_box (var_lb P) (var_ub P) x = true ->
  let '(dx0, dy0, _, _) := step_result P x y dx dy in
  veq (fst (trial_point P x y dx0 dy0 (halves k 1))) (vsub x (vscale (halves k 1) dx0)).
Proof. exact trial_point_unclipped. Qed.

(* non-vacuity: f = x^2/2 on [-1, 3] from x = 1 with dt = rho = 1: the overshooting direction 4 is halved twice
   (trial points -3 -> clipped to -1, then -1, then 0: accepted), the ascent direction -1 is rejected 30 times *)
Definition ex05 : problem := quad_problem (mk_qspec [[1]] [0] 0 [] [] [] [Some (-(1))] [Some 3] [] []).
Example C05_search_nonvacuous :
  match snd (globalized_step ex05 [1] [] 1 1 KStandard None c_1e8 [1] [] [4]) with
  | Some (dx, dy, xn, yn) => veqb dx [1] && veqb xn [0]
  | None => false
  end = true
  /\ fst (trial_point ex05 [1] [] [4] [] 1) = [-(1)]
  /\ snd (globalized_step ex05 [1] [] 1 1 KStandard None c_1e8 [1] [] [-(1)]) = None.
Proof. vm_compute. repeat split. Qed.

(* non-vacuity *)
Example C05_nonvacuous :
  xn1 1 3 (Some 0) (Some 2) = (0, 1) /\ xn1 1 (-(5)) (Some 0) (Some 2) = (2, -(1)) /\ xn1 1 (1 # 2) (Some 0) None = (1 - (1 # 2), 1 # 2).
Proof. vm_compute. repeat split. Qed.

Print Assumptions C05_compute_xn_in_box.
Print Assumptions C05_compute_xn_inside_untouched.
Print Assumptions C05_step_result_in_box.
Print Assumptions C05_scaled_box_exact.
Print Assumptions C05_start_slacks_in_box.
Print Assumptions C05_loop_keeps_box.
Print Assumptions C05_all_iterates_in_box.
Print Assumptions C05_trial_point_in_box.
Print Assumptions C05_globalized_step_in_box.
Print Assumptions C05_globalized_step_spec.
Print Assumptions C05_globalized_step_raises.
Print Assumptions C05_accepts_spec.
Print Assumptions C05_trial_point_unclipped.
