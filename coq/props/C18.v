(* C18 — The penalty filter is a Pareto front.
   Only statements here; each is closed by `exact` of a lemma from proofs/. *)
From Verif Require Import Penalty FilterProofs FilterProofs2.

Section C18.
  Variable T : Type.                       (* any carrier: floats without NaN, Q, ... *)
  Variable leb : T -> T -> bool.           (* its <= *)
  Notation dom := (dominates leb).
  Notation ins := (filter_insert leb).

  (* 1. after ANY sequence of insertions (from any antichain, in particular from the empty
        filter) the entries are pairwise non-dominated; no order axiom is needed *)
  Theorem C18_antichain : forall (h : list (T * T)),
    antichain T leb (fst (filter_run leb [] h)).
  Proof. intros h. apply AC_antichain. exact (run_AC T leb h [] (AC_nil T leb)). Qed.

  (* 2. an insertion is refused exactly when a stored entry is at least as good in both coordinates,
        and then the entries are unchanged *)
  Theorem C18_refused_iff_dominated : forall es p,
    snd (ins es p) = false <-> exists e, In e es /\ dom e p = true.
  Proof. exact (insert_refused_iff T leb). Qed.

  Theorem C18_refused_unchanged : forall es p, snd (ins es p) = false -> fst (ins es p) = es.
  Proof. exact (insert_refused_unchanged T leb). Qed.

  (* 3. accepting an entry removes exactly the stored entries it dominates (order of survivors kept)
        and appends it *)
  Theorem C18_accept_removes_exactly_dominated : forall es p,
    snd (ins es p) = true -> fst (ins es p) = filter (fun e => negb (dom p e)) es ++ [p].
  Proof. exact (insert_accepted_entries T leb). Qed.

  (* 4. refinement to the abstract specification (needs a preorder): the entries after a history
        are representatives of the minimal elements of everything ever offered *)
  Hypothesis leb_refl : forall a, leb a a = true.
  Hypothesis leb_trans : forall a b c, leb a b = true -> leb b c = true -> leb a c = true.

  Theorem C18_pareto_front : forall h,
    let es := fst (filter_run leb [] h) in
    antichain T leb es
    /\ (forall e, In e es -> In e h)
    /\ (forall q, In q h -> exists e, In e es /\ dom e q = true)
    /\ (forall e q, In e es -> In q h -> dom q e = true -> dom e q = true).
  Proof. exact (run_is_pareto_front T leb leb_refl leb_trans). Qed.
End C18.

(* 5. the policy wrapper: a refused point raises the filter's penalty tenfold and vetoes the step,
      an accepted point leaves the penalty unchanged *)
Theorem C18_update : forall pol prm st d,
  pol = ObjFilter \/ pol = LagFilter ->
  let e := match pol with ObjFilter => d_entry d | _ => d_lag_entry d (ps_rho st) end in
  let r := filter_insert qle (ps_entries st) e in
  (snd r = true ->
     p_update pol prm st d = PRes {| ps_rho := ps_rho st; ps_entries := fst r |} (ps_rho st) true)
  /\ (snd r = false ->
     p_update pol prm st d =
       PRes {| ps_rho := ps_rho st * 10; ps_entries := ps_entries st |} (ps_rho st * 10) false).
Proof. exact filter_update_spec. Qed.

(* the instance the code runs on: Q with <=, which is a preorder *)
Theorem C18_Q_front : forall h,
  let es := fst (filter_run qle [] h) in
  antichain Q qle es
  /\ (forall e, In e es -> In e h)
  /\ (forall q, In q h -> exists e, In e es /\ dominates qle e q = true)
  /\ (forall e q, In e es -> In q h -> dominates qle q e = true -> dominates qle e q = true).
Proof. exact (run_is_pareto_front Q qle qle_refl qle_trans). Qed.

(* 6. size and distinctness over whole histories (instance Q with <=): one verdict per offered point, never more
      entries than acceptances (so never more than points offered), entries pairwise distinct, and a stored entry
      offered again is refused *)
Theorem C18_Q_size : forall h,
  let r := filter_run qle [] h in
  length (snd r) = length h
  /\ (length (fst r) <= count_true (snd r))%nat /\ (count_true (snd r) <= length h)%nat.
Proof.
  intros h r. destruct (run_length Q qle h []) as [A B]. fold r in A, B. cbn [length] in B.
  repeat split; [exact A | exact B | rewrite <- A; apply count_true_le].
Qed.

Theorem C18_Q_entries_distinct : forall h, NoDup (fst (filter_run qle [] h)).
Proof. exact (run_NoDup Q qle qle_refl). Qed.

Theorem C18_Q_reoffer_refused : forall es e, In e es -> snd (filter_insert qle es e) = false.
Proof. exact (reoffer_refused Q qle qle_refl). Qed.

(* non-vacuity: a concrete history with ties and duplicates, with refusals and removals *)
Example C18_nonvacuous :
  filter_run qle [] [(3,3); (3,3); (2,5); (5,1); (1,4); (4,4); (1,1)]
  = ([(1,1)], [true; false; true; true; true; false; true]).
Proof. vm_compute. reflexivity. Qed.

Print Assumptions C18_antichain.
Print Assumptions C18_refused_iff_dominated.
Print Assumptions C18_refused_unchanged.
Print Assumptions C18_accept_removes_exactly_dominated.
Print Assumptions C18_pareto_front.
Print Assumptions C18_update.
Print Assumptions C18_Q_front.
Print Assumptions C18_Q_size.
Print Assumptions C18_Q_entries_distinct.
Print Assumptions C18_Q_reoffer_refused.
