(* C02 — non-optimal terminal statuses are justified by the returned point (loop level; the
   numeric content of locally_infeasible / is_feasible is in C13.v / C01.v). *)
From Verif Require Import Loop LoopInst LoopProofs LoopProofs2 LoopTop.

Section C02.
  Variable It : Type.
  Variables (it_total : It -> Q) (it_linf : It -> bool) (it_obj : It -> Q) (it_feas : It -> bool)
            (it_pdata : It -> pdata) (step_norm : It -> It -> Q).
  Notation solve := (solve It it_total it_linf it_obj it_feas it_pdata step_norm).

  (* every returned status is justified by the state it is returned with:
     IterationLimit <-> iterations = limit;  TimeLimit only on a clock read at or past the deadline;
     Optimal only if total_res <= opt_tol at the returned iterate; LocallyInfeasible only if the returned
     iterate passes the local-infeasibility test; Unbounded only if it is feasible to tolerance with
     objective at or below the limit; and the iteration count never exceeds the limit *)
  Theorem C02_status_justified : forall fuel c orc clk x0 stt fin,
    solve fuel c orc clk x0 = Done It stt fin ->
    match stt with
    | IterationLimit => c_iter_limit c = Some (itn It fin)
    | TimeLimit => exists t tl, c_time_limit c = Some tl /\ (0 < cpos It fin)%nat /\ t = clk (cpos It fin - 1)%nat
                                /\ tl <= t - tstart It fin
    | Optimal => it_total (cur It fin) <= c_opt_tol c
    | LocallyInfeasible => it_linf (cur It fin) = true
    | Unbounded => it_obj (cur It fin) <= c_obj_lower c /\ it_feas (cur It fin) = true
    end
    /\ match c_iter_limit c with Some L => (itn It fin <= L)%nat | None => True end
    /\ (c_iter_limit c = Some (itn It fin) -> stt = IterationLimit).
  Proof. exact (status_justified It it_total it_linf it_obj it_feas it_pdata step_norm). Qed.

  (* no solve performs more iterations than the limit, however it ends (status, lambda error, ...) *)
  Theorem C02_never_beyond_limit : forall fuel c orc clk x0 o L,
    solve fuel c orc clk x0 = o -> c_iter_limit c = Some L ->
    match o with
    | Done _ _ fin | LambdaError _ fin | Internal _ _ fin => (itn It fin <= L)%nat
    | OutOfFuel _ => True
    end.
  Proof. exact (never_beyond_limit It it_total it_linf it_obj it_feas it_pdata step_norm). Qed.

  (* the tests are tried in the documented order and the first that fires wins *)
  Theorem C02_status_order : forall c clk s os s1,
    check It it_total it_linf it_obj it_feas c clk s = (os, s1) ->
    let hit := match c_iter_limit c with Some L => (L <=? itn It s)%nat | None => false end in
    let t := clk (cpos It s) in
    (hit = true /\ os = Some IterationLimit /\ s1 = s)
    \/ (hit = false /\ cpos It s1 = S (cpos It s) /\
        ((deadline_passed It c s t = true /\ os = Some TimeLimit)
         \/ (deadline_passed It c s t = false /\
             ((qle (it_total (cur It s)) (c_opt_tol c) = true /\ os = Some Optimal)
              \/ (qle (it_total (cur It s)) (c_opt_tol c) = false /\
                  ((it_linf (cur It s) = true /\ os = Some LocallyInfeasible)
                   \/ (it_linf (cur It s) = false /\
                       ((qle (it_obj (cur It s)) (c_obj_lower c) && it_feas (cur It s) = true
                         /\ os = Some Unbounded)
                        \/ (qle (it_obj (cur It s)) (c_obj_lower c) && it_feas (cur It s) = false
                            /\ os = None))))))))).
  Proof. exact (check_spec It it_total it_linf it_obj it_feas). Qed.

  (* once the deadline has passed it stays passed for a clock that does not run backwards *)
  Theorem C02_deadline_stays_passed : forall c (clk : clock) s s' q q',
    (forall a b, (a <= b)%nat -> clk a <= clk b) -> tstart It s' = tstart It s -> (q <= q')%nat ->
    deadline_passed It c s (clk q) = true -> deadline_passed It c s' (clk q') = true.
  Proof. exact (deadline_monotone It). Qed.
End C02.

Example C02_nonvacuous_limit :
  ex_summary (ex_solve 40 (ex_cfg (Some 4%nat) None DualNorm true) 8)
  = Some (IterationLimit, 4%nat, 2%nat, 2, 1, 4%nat, [0; 1; 3 # 2], [8; 4; 2]).
Proof. vm_compute. reflexivity. Qed.
Example C02_nonvacuous_time :
  ex_summary (ex_solve 40 (ex_cfg None (Some 9) ObjFilter true) 8)
  = Some (TimeLimit, 2%nat, 1%nat, 4, 1, 2%nat, [0; 1], [8; 4]).
Proof. vm_compute. reflexivity. Qed.

Print Assumptions C02_status_justified.
Print Assumptions C02_never_beyond_limit.
Print Assumptions C02_status_order.
Print Assumptions C02_deadline_stays_passed.
