(* C07 — failures at trial points are survived and never accepted (loop level). *)
From Verif Require Import Loop LoopInst LoopProofs LoopProofs2 LoopTop.
From Coq Require Import Lqa.

Section C07.
  Variable It : Type.
  Variables (it_total : It -> Q) (it_linf : It -> bool) (it_obj : It -> Q) (it_feas : It -> bool)
            (it_pdata : It -> pdata) (step_norm : It -> It -> Q).
  Notation solve := (solve It it_total it_linf it_obj it_feas it_pdata step_norm).
  Notation body := (body It it_pdata step_norm).

  (* 1. whatever answer the step computation would have given, a failure (StepSolverError / EvalError
        caught by compute_step) yields: iterate, accepted-step count, path, model times, penalty and policy
        state unchanged; one more iteration; announced as (current, current, not accepted); lambda doubled (or left
        as it is when the trial was abandoned at a deadline test before the failure) *)
  Theorem C07_failed_trial_is_discarded : forall c (orc : oracle It) clk s s' n,
    orc (itn It s) (cur It s) (rho It s) (1 / lamb It s) (disp_of It c clk s) = Fail It n ->
    body c orc clk s = inl s' ->
    cur It s' = cur It s /\ nacc It s' = nacc It s /\ path It s' = path It s /\ times It s' = times It s
    /\ rho It s' = rho It s /\ pst It s' = pst It s
    /\ itn It s' = S (itn It s)
    /\ announced It s' = announced It s ++ [(cur It s, cur It s, false)]
    /\ (lamb It s' = 2 * (1 / (1 / lamb It s)) \/ lamb It s' = 1 / (1 / lamb It s)).
  Proof. exact (failed_trial It it_pdata step_norm). Qed.

  (* 2. provenance, for EVERY fault sequence (the oracle may answer Fail at any set of positions): the
        iterate a solve returns is the start or the `next` of a trial that was announced as accepted; the
        point of a failed trial is announced only as (current, current, false) and so is never it *)
  Theorem C07_returned_point_was_accepted : forall fuel c orc clk x0 stt fin,
    solve fuel c orc clk x0 = Done It stt fin ->
    cur It fin = x0 \/ exists f n, In (f, n, true) (announced It fin) /\ cur It fin = n.
  Proof.
    intros fuel c orc clk x0 stt fin H.
    destruct (solve_done_inv It it_total it_linf it_obj it_feas it_pdata step_norm _ _ _ _ _ _ _ H)
      as (_ & _ & B & _).
    exact (chain_provenance It _ _ _ _ B).
  Qed.

  (* 3. under faults a solve still ends with a status or the deliberate lambda error: the only other
        outcome of the loop model, an internal assertion of a penalty policy, is unreachable *)
  Theorem C07_outcome_under_faults : forall fuel c orc clk x0 w fin,
    0 < pp_rho (c_pparams c) ->
    (forall x, 0 <= d_ynorm (it_pdata x) /\ 0 <= d_yprod (it_pdata x) /\ 0 <= d_viol (it_pdata x)
               /\ (c_policy c = Pareto -> d_bound (it_pdata x) <> None)) ->
    solve fuel c orc clk x0 <> Internal It w fin.
  Proof. exact (solve_never_internal It it_total it_linf it_obj it_feas it_pdata step_norm). Qed.

  (* 4. an Optimal result obtained despite faults still has total_res <= opt_tol at the returned iterate
        (the justification of statuses does not depend on the oracle trace) *)
  Theorem C07_optimal_despite_faults : forall fuel c orc clk x0 fin,
    solve fuel c orc clk x0 = Done It Optimal fin -> it_total (cur It fin) <= c_opt_tol c.
  Proof.
    intros fuel c orc clk x0 fin H.
    exact (proj1 (status_justified It it_total it_linf it_obj it_feas it_pdata step_norm _ _ _ _ _ _ _ H)).
  Qed.
End C07.

(* non-vacuity: the example oracle fails every third trial; the run still ends Optimal and the failed
   trials are announced as (x, x, false) *)
Example C07_nonvacuous :
  match ex_solve 40 (ex_cfg None None DualNorm false) 8 with
  | Done _ Optimal f => map (fun a => (Qred (fst (fst a)), Qred (snd (fst a)), snd a)) (firstn 3 (announced Q f))
                        = [(8, 4, true); (4, 4, false); (4, 2, false)]
  | _ => False
  end.
Proof. vm_compute. reflexivity. Qed.

Print Assumptions C07_failed_trial_is_discarded.
Print Assumptions C07_returned_point_was_accepted.
Print Assumptions C07_outcome_under_faults.
Print Assumptions C07_optimal_despite_faults.
