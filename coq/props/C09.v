(* C09 — observation does not perturb the computation (loop level). *)
From Verif Require Import Loop LoopInst LoopProofs LoopProofs2 LoopTop.

Section C09.
  Variable It : Type.
  Variables (it_total : It -> Q) (it_linf : It -> bool) (it_obj : It -> Q) (it_feas : It -> bool)
            (it_pdata : It -> pdata) (step_norm : It -> It -> Q).
  Notation run := (run It it_total it_linf it_obj it_feas it_pdata step_norm).

  (* Two solves whose configurations differ only in what is observed (display interval, path
     collection), run against two ARBITRARY clocks (i.e. any wall-clock pattern of displayed rows), with a
     step computation that does not depend on the display flag, end the same way: same status (or same
     error), same iterate, lambda, penalty, policy state, counters, announced steps and, trial by trial,
     the same (rho, dt) -> (lambda, accepted, adopted).  (With a finite time limit the wall clock itself is an
     input of the algorithm, so the statement is for time_limit = inf.) *)
  Theorem C09_observer_noninterference : forall c1 c2 (orc : oracle It) clk1 clk2,
    cfg_alg_eq c1 c2 -> (forall i x r d b1 b2, orc i x r d b1 = orc i x r d b2) ->
    forall fuel s1 s2, obs_eq It s1 s2 -> out_eq It (run fuel c1 orc clk1 s1) (run fuel c2 orc clk2 s2).
  Proof. exact (observer_noninterference It it_total it_linf it_obj it_feas it_pdata step_norm). Qed.

  (* the initial states of two such solves are related *)
  Theorem C09_initial_states_related : forall c1 c2 clk1 clk2 x0,
    cfg_alg_eq c1 c2 -> obs_eq It (init_st It c1 clk1 x0) (init_st It c2 clk2 x0).
  Proof.
    intros c1 c2 clk1 clk2 x0 (C1 & C2 & C3 & C4 & C5 & C6 & C7 & C8 & C9).
    unfold obs_eq, init_st. cbn. rewrite C6, C9. repeat split; reflexivity.
  Qed.
End C09.

(* non-vacuity: always displaying + collecting the path vs never displaying, not collecting *)
Example C09_nonvacuous :
  let c1 := mk_cfg None None (1 # 4) (-(100)) 1 64 ObjFilter {| pp_rho := 1 # 2; pp_opt_tol := 1 # 4; pp_infeas_tol := 0 |} (Some 0) true in
  let c2 := mk_cfg None None (1 # 4) (-(100)) 1 64 ObjFilter {| pp_rho := 1 # 2; pp_opt_tol := 1 # 4; pp_infeas_tol := 0 |} None false in
  match ex_solve 40 c1 8, ex_solve 40 c2 8 with
  | Done _ s1 f1, Done _ s2 f2 =>
      s1 = s2 /\ itn Q f1 = itn Q f2 /\ Qred (cur Q f1) = Qred (cur Q f2) /\ announced Q f1 = announced Q f2
      /\ (cpos Q f1 <> cpos Q f2) /\ path Q f2 = []
  | _, _ => False
  end.
Proof. vm_compute. repeat split; try reflexivity. discriminate. Qed.

Print Assumptions C09_observer_noninterference.
Print Assumptions C09_initial_states_related.
