(* C01 — Optimal status implies first-order optimality of the user's own problem.
   P is an arbitrary problem (arbitrary callbacks, dimensions, bounds incl. infinite ones, row kinds),
   sc arbitrary integer weights.  (xt, yt) is the internal iterate (scaled variables followed by slacks),
   T = ConstrainedProblem(ScaledProblem(P)) the internal problem. *)
From Verif Require Import Transform Iterate Flow Loop CorrLoop VecLemmas TransformProofs IterateProofs KKTProofs LoopTop FlowProofs.

(* 1. the loop returns Optimal only with total_res <= opt_tol at the returned iterate, for every step
      oracle (Newton variant, step solver, linear solver, controller), penalty policy, clock and start *)
Theorem C01_optimal_only_if_total_res : forall (T : problem) atol otol itol fuel c orc clk z0 fin,
  solve LIt (l_total T atol) (l_linf T atol otol itol) (l_obj T) (l_feas T otol) (l_pdata T) (fun _ _ => 0)
        fuel c orc clk z0 = Done LIt Optimal fin ->
  total_res T atol (fst (cur LIt fin)) (snd (cur LIt fin)) <= c_opt_tol c.
Proof.
  intros T atol otol itol fuel c orc clk z0 fin H.
  exact (proj1 (status_justified LIt _ _ _ _ _ _ _ _ _ _ _ _ _ H)).
Qed.

Section C01.
  Variable P : problem.
  Variable sc : scaling.
  Variables atol tol : Q.
  Variables xt yt : vec.
  Notation Ps := (scaled_problem sc P).
  Notation T := (cons_problem Ps).
  Notation xs := (orig_vals Ps xt).
  Notation x := (unscale_primal sc xs).
  Notation y := (unscale_dual sc yt).
  Notation bd := (bounds_dual T atol xt yt).
  Notation d := (unscale_bounds_dual sc (orig_vals Ps bd)).

  (* (x, y, d) is what Transformation.restore_sol returns *)
  Theorem C01_restored : restore_sol (Some sc) P xt yt bd = (x, y, d).
  Proof. exact (restore_is P sc atol xt yt). Qed.

  Hypothesis W : wfu P sc xt yt.                       (* dimensions fit *)
  Hypothesis R : total_res T atol xt yt <= tol.        (* what Optimal guarantees, with tol = opt_tol *)

  (* 2. variable bounds hold exactly (internal iterate in the internal box: C05) *)
  Theorem C01_bounds_exact : in_box (var_lb T) (var_ub T) xt = true -> in_box (var_lb P) (var_ub P) x = true.
  Proof. exact (user_bounds_exact P sc xt yt W). Qed.

  (* 3. l <= c(x) <= u to tolerance tol * 2^-w_i, row by row (equality, one-sided, ranged, fixed rows) *)
  Theorem C01_feasibility : forall i, in_box (var_lb T) (var_ub T) xt = true -> (i < ncons P)%nat ->
    length (p_cons P x) = ncons P ->
    let ci := nth i (p_cons P x) 0 in
    let t := tol * p2 (- nth i (cw sc) 0%Z) in
    match nth i (cons_lb P) None with Some a => a - t <= ci | None => True end
    /\ match nth i (cons_ub P) None with Some b => ci <= b + t | None => True end.
  Proof. exact (user_feasibility P sc atol tol xt yt W R). Qed.

  (* 4. grad f(x) + J(x)^T y + d = 0 to tolerance tol * 2^(v_j - o), component by component *)
  Theorem C01_stationarity : forall j, (j < nvars P)%nat ->
    qabs (nth j (lag_grad P x y) 0 + nth j d 0) <= tol * p2 (nth j (vw sc) 0%Z - ow sc).
  Proof. exact (user_stationarity P sc atol tol xt yt W R). Qed.

  (* 5. y_i may be positive only where the row's slack sits at its upper bound, negative only at its
        lower bound, and is zero to tolerance tol * 2^(w_i - o) elsewhere *)
  Theorem C01_multiplier_sign : forall i, (i < ncons P)%nat -> nth i (slack_mask Ps) false = true ->
    let k := rank (slack_mask Ps) i in
    let sk := nth k (slack_vals Ps xt) 0 in
    let lo := near_lower atol sk (nth i (cons_lb Ps) None) in
    let up := near_upper atol sk (nth i (cons_ub Ps) None) in
    let t := tol * p2 (nth i (cw sc) 0%Z - ow sc) in
    (lo = false -> up = false -> - t <= nth i y 0 /\ nth i y 0 <= t)
    /\ (lo = true -> up = false -> nth i y 0 <= t)
    /\ (lo = false -> up = true -> - t <= nth i y 0).
  Proof. exact (user_multiplier_sign P sc atol tol xt yt W R). Qed.

  (* 6. d_j is non-zero only at an active variable bound, with the documented sign *)
  Theorem C01_bound_dual_sign : forall j, (j < nvars P)%nat ->
    let lo := near_lower atol (nth j xs 0) (nth j (var_lb Ps) None) in
    let up := near_upper atol (nth j xs 0) (nth j (var_ub Ps) None) in
    (lo = false -> up = false -> nth j d 0 == 0)
    /\ (lo = true -> up = false -> nth j d 0 <= 0)
    /\ (lo = false -> up = true -> 0 <= nth j d 0).
  Proof. exact (user_bound_dual_sign P sc atol tol xt yt W R). Qed.
End C01.

(* 7. End to end, in one statement: for an ARBITRARY user problem P (arbitrary callbacks), arbitrary integer scaling
      weights, every configuration, clock, penalty policy and every step oracle (= every Newton variant, step solver,
      linear solver and step-size controller, including ones that fail) whose answers, like the start, have the right
      shape and lie in the internal box (C05): if solve() returns Optimal, then what Transformation.restore_sol hands
      to the caller satisfies the user's bounds exactly, the user's rows to opt_tol * 2^-w_i, and stationarity
      grad f + J^T y + d = 0 to opt_tol * 2^(v_j - o), component by component.  (Multiplier and bound-multiplier signs:
      items 5 and 6, under the same two hypotheses.) *)
Theorem C01_end_to_end : forall (P : problem) (sc : scaling) atol otol itol fuel c orc clk z0 fin,
  let T := cons_problem (scaled_problem sc P) in
  let Good := fun z : LIt => wfu P sc (fst z) (snd z) /\ in_box (var_lb T) (var_ub T) (fst z) = true in
  (forall i x r d b nx l a k, orc i x r d b = Ans LIt nx l a k -> Good nx) -> Good z0 ->
  solve LIt (l_total T atol) (l_linf T atol otol itol) (l_obj T) (l_feas T otol) (l_pdata T) (fun _ _ => 0)
        fuel c orc clk z0 = Done LIt Optimal fin ->
  let xt := fst (cur LIt fin) in
  let yt := snd (cur LIt fin) in
  exists x y d, restore_sol (Some sc) P xt yt (bounds_dual T atol xt yt) = (x, y, d)
    /\ in_box (var_lb P) (var_ub P) x = true
    /\ (forall j, (j < nvars P)%nat ->
          qabs (nth j (lag_grad P x y) 0 + nth j d 0) <= c_opt_tol c * p2 (nth j (vw sc) 0%Z - ow sc))
    /\ (forall i, (i < ncons P)%nat -> length (p_cons P x) = ncons P ->
          let ci := nth i (p_cons P x) 0 in
          let t := c_opt_tol c * p2 (- nth i (cw sc) 0%Z) in
          match nth i (cons_lb P) None with Some a => a - t <= ci | None => True end
          /\ match nth i (cons_ub P) None with Some b => ci <= b + t | None => True end).
Proof.
  intros P sc atol otol itol fuel c orc clk z0 fin T Good Horc H0 HS xt yt.
  pose proof (C01_optimal_only_if_total_res T atol otol itol fuel c orc clk z0 fin HS) as R.
  destruct (solve_keeps_box LIt _ _ _ _ _ _ Good fuel c orc clk z0 Optimal fin Horc H0 HS) as [[W B] _].
  fold xt yt in R, W, B.
  eexists _, _, _. split; [apply (restore_is P sc atol xt yt)|].
  split; [exact (user_bounds_exact P sc xt yt W B)|].
  split.
  - intros j Hj. exact (user_stationarity P sc atol (c_opt_tol c) xt yt W R j Hj).
  - intros i Hi HL. exact (user_feasibility P sc atol (c_opt_tol c) xt yt W R i B Hi HL).
Qed.

(* the same without scaling: the slack layer alone (Pq = the user's problem) *)
Theorem C01_unscaled_stationarity : forall Pq atol xt yt, wfs Pq xt yt -> forall tol j,
  stat_res (cons_problem Pq) atol xt yt <= tol -> (j < nvars Pq)%nat ->
  let x := orig_vals Pq xt in
  qabs (nth j (lag_grad Pq x yt) 0
        + bdual1 atol (nth j x 0) (nth j (var_lb Pq) None) (nth j (var_ub Pq) None) (- nth j (lag_grad Pq x yt) 0)) <= tol
  /\ nth j (bounds_dual (cons_problem Pq) atol xt yt) 0
     == bdual1 atol (nth j x 0) (nth j (var_lb Pq) None) (nth j (var_ub Pq) None) (- nth j (lag_grad Pq x yt) 0).
Proof. exact orig_column. Qed.
Theorem C01_unscaled_multiplier : forall Pq atol xt yt, wfs Pq xt yt -> forall tol i,
  stat_res (cons_problem Pq) atol xt yt <= tol -> (i < ncons Pq)%nat -> nth i (slack_mask Pq) false = true ->
  let k := rank (slack_mask Pq) i in
  qabs (- nth i yt 0
        + bdual1 atol (nth k (slack_vals Pq xt) 0) (nth i (cons_lb Pq) None) (nth i (cons_ub Pq) None) (nth i yt 0)) <= tol.
Proof. exact slack_column. Qed.
Theorem C01_unscaled_rows : forall Pq xt yt, wfs Pq xt yt -> forall tol i,
  cons_violation (cons_problem Pq) xt <= tol -> (i < ncons Pq)%nat ->
  let ci := nth i (p_cons Pq (orig_vals Pq xt)) 0 + nth i (cons_offsets Pq) 0 in
  if nth i (slack_mask Pq) false
  then - tol <= ci - nth (rank (slack_mask Pq) i) (slack_vals Pq xt) 0 /\ ci - nth (rank (slack_mask Pq) i) (slack_vals Pq xt) 0 <= tol
  else - tol <= ci /\ ci <= tol.
Proof. exact cons_row. Qed.

(* non-vacuity: min x^2/2 s.t. 1 <= x <= 3 as a ranged ROW (slack), scaled with v = 1, w = 2, o = 1; the
   internal point (x~, s~; y~) = (2, 4; -1/2) has total_res = 0 and restores to x = 1, y = -1, d = 0 *)
Definition ex_P : problem := quad_problem (mk_qspec [[1]] [0] 0 [[[0]]] [[1]] [0] [None] [None] [Some 1] [Some 3]).
Definition ex_sc : scaling := mk_scaling [1%Z] [2%Z] 1%Z.
Example C01_nonvacuous :
  let T := cons_problem (scaled_problem ex_sc ex_P) in
  qeqb (total_res T (1 # 100) [2; 4] [-(1 # 2)]) 0 = true
  /\ in_box (var_lb T) (var_ub T) [2; 4] = true
  /\ (let '(x, y, d) := restore_sol (Some ex_sc) ex_P [2; 4] [-(1 # 2)] (bounds_dual T (1 # 100) [2; 4] [-(1 # 2)]) in
      (map Qred x, map Qred y, map Qred d)) = ([1], [-(1)], [0]).
Proof. vm_compute. repeat split. Qed.
Example C01_nonvacuous_wf : wfu ex_P ex_sc [2; 4] [-(1 # 2)].
Proof.
  constructor; try reflexivity.
  - constructor; try reflexivity. constructor; try reflexivity. repeat constructor.
  - constructor; try reflexivity. repeat constructor.
Qed.

(* the flow-integration solver: its status Optimal rests on RestrictedFlow.residuum (tested at the top of every
   iteration and by the convergence event).  For every problem, point in the box, multiplier and tolerances: where that
   measure (Flow.v, after the repair F18; its square, the code takes a 2-norm) is within the tolerance, the KKT residual
   total_res of the internal problem, with the bound multipliers the solver itself reports, is within it too -- so
   the theorems above about total_res apply to it.  The measure before the repair, which masked the rho = 0 flow
   with the filter of the current rho, does not have this property: witness below, replayed on the real code (F18). *)
Theorem C01_integration_residuum_bounds_total_res : forall (T : problem) atol x y tol,
  0 <= atol -> 0 <= tol ->
  length (var_lb T) = length x -> length (var_ub T) = length x ->
  in_box (var_lb T) (var_ub T) x = true ->
  residuum_sq T x y <= tol * tol ->
  total_res T atol x y <= tol.
Proof. exact residuum_bounds_total_res. Qed.
Example C01_integration_old_measure_refuted :
  let filt := create_filter f18_problem [0] [0] 16 in
  filt = [false]
  /\ qle (old_residuum_sq f18_problem [0] [0] filt) ((1 # 1024) * (1 # 1024)) = true
  /\ qlt (1 # 1024) (total_res f18_problem (1 # 1048576) [0] [0]) = true
  /\ qle (residuum_sq f18_problem [0] [0]) ((1 # 1024) * (1 # 1024)) = false.
Proof. exact old_residuum_refuted. Qed.
(* non-vacuity: the same problem at its KKT point (x = 0, y = 2^-8): the measure is |c| = 2^-11 *)
Example C01_integration_nonvacuous :
  qle (residuum_sq f18_problem [0] [1 # 256]) ((1 # 1024) * (1 # 1024)) = true
  /\ in_box (var_lb f18_problem) (var_ub f18_problem) [0] = true.
Proof. vm_compute. split; reflexivity. Qed.

Print Assumptions C01_optimal_only_if_total_res.
Print Assumptions C01_restored.
Print Assumptions C01_bounds_exact.
Print Assumptions C01_feasibility.
Print Assumptions C01_stationarity.
Print Assumptions C01_multiplier_sign.
Print Assumptions C01_bound_dual_sign.
Print Assumptions C01_unscaled_stationarity.
Print Assumptions C01_unscaled_multiplier.
Print Assumptions C01_unscaled_rows.
Print Assumptions C01_end_to_end.
Print Assumptions C01_integration_residuum_bounds_total_res.
