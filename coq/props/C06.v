(* C06 — solve() ends with a status or a deliberate error, never an internal crash.
   Static part: the loop model has no other outcome, for every oracle trace; every numeric assertion on
   the solve path is backed by a theorem (table Effects.numeric_asserts).  Per-run part:
   factprops/FactsC06.v (every raise / assert / handler in /repo is of a known kind). *)
From Verif Require Import Loop LoopInst LoopProofs LoopTop PenaltyProofs StepCtl CtlProofs Effects ActiveTau TauProofs.
From Coq Require Import Lqa.

Section C06.
  Variable It : Type.
  Variables (it_total : It -> Q) (it_linf : It -> bool) (it_obj : It -> Q) (it_feas : It -> bool)
            (it_pdata : It -> pdata) (step_norm : It -> It -> Q).
  Notation solve := (solve It it_total it_linf it_obj it_feas it_pdata step_norm).

  (* the loop ends with one of the five statuses or the deliberate lambda error: the only other
     constructor of the outcome type, an internal assertion of a penalty policy, is unreachable (rho > 0) *)
  Theorem C06_loop_total : forall fuel c orc clk x0 w fin,
    0 < pp_rho (c_pparams c) ->
    (forall x, 0 <= d_ynorm (it_pdata x) /\ 0 <= d_yprod (it_pdata x) /\ 0 <= d_viol (it_pdata x)
               /\ (c_policy c = Pareto -> d_bound (it_pdata x) <> None)) ->
    solve fuel c orc clk x0 <> Internal It w fin.
  Proof. exact (solve_never_internal It it_total it_linf it_obj it_feas it_pdata step_norm). Qed.
End C06.

(* assertions dt > 0 / rho > 0 / fact > 0 on the step path *)
Theorem C06_fact_positive : forall lam rho : Q, 0 < lam -> 0 < rho -> 0 < 1 / (1 + lam * rho).
Proof. intros lam rho H1 H2. apply Qlt_shift_div_l; nra. Qed.
Theorem C06_lambda_positive : forall prm lamb res0 pi_out passed, 0 < lamb -> forall k stream id l a,
  0 < cp_lamb_min prm -> 0 < cp_lamb_init prm -> 0 < cp_lamb_inc prm ->
  ctl_step prm lamb res0 pi_out passed k stream = CAns id l a -> 0 < l.
Proof. intros prm lamb res0 pi_out passed H. exact (lambda_stays_positive prm lamb res0 pi_out passed H). Qed.
Theorem C06_penalty_asserts_unreachable : forall pol prm stp d w,
  0 < ps_rho stp -> 0 <= d_ynorm d -> 0 <= d_yprod d -> 0 <= d_viol d ->
  (pol = Pareto -> d_bound d <> None) -> p_update pol prm stp d <> PAssert w.
Proof. exact policy_no_assert. Qed.

Example C06_nonvacuous :
  match ex_solve 40 (ex_cfg None None LagFilter false) 8 with Done _ _ _ => True | _ => False end.
Proof. vm_compute. exact I. Qed.

(* NewtonController.compute_tau (the parameter of the active-set rules), for every point, gradient and box, infinite
   bounds included: the SmallestActiveSet rule never takes the minimum of an empty selection (no ValueError), the
   minimum it takes is positive (its assertion `min_tau >= 0`), and what it returns is positive; the
   LargestActiveSet rule returns at least one and can only fail on a problem without variables *)
Theorem C06_compute_tau_smallest_no_crash : forall x g lb ub, compute_tau ASSmallest x g lb ub <> TauCrash.
Proof. exact smallest_no_crash. Qed.
Theorem C06_compute_tau_smallest_assertion : forall x g lb ub t0 ts,
  filter ext_pos (tau_vals x g lb ub) = t0 :: ts ->
  match fold_left ext_min ts t0 with Fin p => 0 <= p | PInf => True end.
Proof. exact smallest_min_tau_nonneg. Qed.
Theorem C06_compute_tau_smallest_positive : forall x g lb ub t,
  compute_tau ASSmallest x g lb ub = TauVal t -> ext_pos t = true.
Proof. exact smallest_positive. Qed.
Theorem C06_compute_tau_largest : forall x g lb ub,
  (forall t, compute_tau ASLargest x g lb ub = TauVal t -> match t with Fin p => 1 <= p | PInf => True end)
  /\ (compute_tau ASLargest x g lb ub = TauCrash -> tau_vals x g lb ub = []).
Proof. intros x g lb ub. split; [apply largest_ge_one|apply largest_crash_only_without_variables]. Qed.
(* non-vacuity: a variable on its lower bound pushed into it (breakpoint 0), one moving towards +inf, one with the
   breakpoint 3: the smallest rule returns 3/2, the largest +inf *)
Example C06_compute_tau_nonvacuous :
  compute_tau ASSmallest [0; 1; 2] [1; -(1); -(1)] [Some 0; None; None] [None; None; Some 5] = TauVal (Fin (Qmake 3 2))
  /\ compute_tau ASLargest [0; 1; 2] [1; -(1); -(1)] [Some 0; None; None] [None; None; Some 5] = TauVal PInf.
Proof. vm_compute. split; reflexivity. Qed.

Print Assumptions C06_loop_total.
Print Assumptions C06_fact_positive.
Print Assumptions C06_lambda_positive.
Print Assumptions C06_penalty_asserts_unreachable.
Print Assumptions C06_compute_tau_smallest_no_crash.
Print Assumptions C06_compute_tau_smallest_assertion.
Print Assumptions C06_compute_tau_smallest_positive.
Print Assumptions C06_compute_tau_largest.
