(* C06 — solve() ends with a status or a deliberate error, never an internal crash.
   Static part: the loop model has no other outcome, for every oracle trace; every numeric assertion on
   the solve path is backed by a theorem (table Effects.numeric_asserts).  Per-run part:
   factprops/FactsC06.v (every raise / assert / handler in /repo is of a known kind). *)
From Verif Require Import Loop LoopInst LoopProofs LoopTop PenaltyProofs StepCtl CtlProofs Effects.
From Coq Require Import Lqa.

Section C06.
  Variable It : Type.
  Variables (it_total : It -> Q) (it_linf : It -> bool) (it_obj : It -> Q) (it_feas : It -> bool)
            (it_pdata : It -> pdata) (step_norm : It -> It -> Q).
  Notation solve := (solve It it_total it_linf it_obj it_feas it_pdata step_norm).

  (* the loop ends with one of the five statuses or the deliberate lambda error: the only other
     constructor of the outcome type, an internal assertion of a penalty policy, is unreachable (rho > 0) *)
  Theorem C06_loop_total : forall fuel c orc clk x0 w fin,
    0 < pp_rho (c_pparams c) ->
    (forall x, 0 <= d_ynorm (it_pdata x) /\ 0 <= d_yprod (it_pdata x) /\ 0 <= d_viol (it_pdata x)
               /\ (c_policy c = Pareto -> d_bound (it_pdata x) <> None)) ->
    solve fuel c orc clk x0 <> Internal It w fin.
  Proof. exact (solve_never_internal It it_total it_linf it_obj it_feas it_pdata step_norm). Qed.
End C06.

(* assertions dt > 0 / rho > 0 / fact > 0 on the step path *)
Theorem C06_fact_positive : forall lam rho : Q, 0 < lam -> 0 < rho -> 0 < 1 / (1 + lam * rho).
Proof. intros lam rho H1 H2. apply Qlt_shift_div_l; nra. Qed.
Theorem C06_lambda_positive : forall prm lamb res0 pi_out passed, 0 < lamb -> forall k stream id l a,
  0 < cp_lamb_min prm -> 0 < cp_lamb_init prm -> 0 < cp_lamb_inc prm ->
  ctl_step prm lamb res0 pi_out passed k stream = CAns id l a -> 0 < l.
Proof. intros prm lamb res0 pi_out passed H. exact (lambda_stays_positive prm lamb res0 pi_out passed H). Qed.
Theorem C06_penalty_asserts_unreachable : forall pol prm stp d w,
  0 < ps_rho stp -> 0 <= d_ynorm d -> 0 <= d_yprod d -> 0 <= d_viol d ->
  (pol = Pareto -> d_bound d <> None) -> p_update pol prm stp d <> PAssert w.
Proof. exact policy_no_assert. Qed.

Example C06_nonvacuous :
  match ex_solve 40 (ex_cfg None None LagFilter false) 8 with Done _ _ _ => True | _ => False end.
Proof. vm_compute. exact I. Qed.

Print Assumptions C06_loop_total.
Print Assumptions C06_fact_positive.
Print Assumptions C06_lambda_positive.
Print Assumptions C06_penalty_asserts_unreachable.
