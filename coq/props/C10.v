(* C10 — a solve is a deterministic function of its inputs, independent of history.
   Static part: the abstract argument.  Per-run part: factprops/FactsC10.v (what persists in /repo, who
   writes it, where per-solve objects are created). *)
From Coq Require Import List Bool.
Import ListNotations.
From Verif Require Import Effects.

(* if the algorithmic part of solve reads, of everything that outlives a solve, only components that no solve
   writes, then after ANY history of other solves the result for the same input is the same *)
Theorem C10_history_independent : forall (comp value input result : Type) (readable : comp -> bool)
    (solve : (comp -> value) -> input -> (comp -> value) * result),
  (forall w w' i, (forall c, readable c = true -> w c = w' c) -> snd (solve w i) = snd (solve w' i)) ->
  (forall w i c, readable c = true -> fst (solve w i) c = w c) ->
  forall hist w i, snd (solve (after comp value input result solve w hist) i) = snd (solve w i).
Proof. exact history_independent. Qed.

(* non-vacuity: two components, solve reads component 0 and bumps component 1 *)
Example C10_nonvacuous :
  let solve := fun (w : bool -> nat) (i : nat) => ((fun c : bool => if c then S (w true) else w false), w false + i) in
  snd (solve (after bool nat nat nat solve (fun _ => 3) [1; 2; 3]) 5) = 8.
Proof. reflexivity. Qed.

Print Assumptions C10_history_independent.
