(* C15 — step-size control: rejected steps shrink the step and keep the point (loop level and
   controller level). *)
From Verif Require Import Loop LoopInst LoopProofs LoopProofs2 LoopTop StepCtl CtlProofs PICtl PIProofs.
From Coq Require Import Lqa.

Section C15.
  Variable It : Type.
  Variables (it_total : It -> Q) (it_linf : It -> bool) (it_obj : It -> Q) (it_feas : It -> bool)
            (it_pdata : It -> pdata) (step_norm : It -> It -> Q).
  Notation solve := (solve It it_total it_linf it_obj it_feas it_pdata step_norm).
  Notation body := (body It it_pdata step_norm).

  (* 1+2. In the state any solve returns: the first trial was called with dt = 1/lamb_init, every
     later trial with dt = 1 / (the lambda returned by the trial before it), every trial that was followed
     by another one returned lambda < lamb_max, and the lambda carried forward is the last one returned. *)
  Theorem C15_lambda_chain : forall fuel c orc clk x0 stt fin,
    solve fuel c orc clk x0 = Done It stt fin ->
    linked (c_lamb_max c) (c_lamb_init c) (trials It fin)
    /\ lamb It fin = last_lamb (c_lamb_init c) (trials It fin)
    /\ (trials It fin <> [] -> qle (c_lamb_max c) (lamb It fin) = false).
  Proof.
    intros fuel c orc clk x0 stt fin H.
    destruct (solve_done_inv It it_total it_linf it_obj it_feas it_pdata step_norm _ _ _ _ _ _ _ H)
      as (_ & _ & _ & _ & A & _).
    exact A.
  Qed.

  (* when a trial returns lambda >= lamb_max nothing further is computed: the solve ends with the
     dedicated error, in a state whose iterate, counters, path and penalty are those before the trial *)
  Theorem C15_abort_at_lambda_max : forall c orc clk s o, body c orc clk s = inr o ->
    (exists fin, o = LambdaError It fin /\ qle (c_lamb_max c) (lamb It fin) = true
                 /\ cur It fin = cur It s /\ itn It fin = itn It s /\ nacc It fin = nacc It s
                 /\ announced It fin = announced It s /\ path It fin = path It s /\ times It fin = times It s
                 /\ rho It fin = rho It s /\ pst It fin = pst It s
                 /\ exists t, trials It fin = trials It s ++ [t] /\ t_final t = false
                              /\ t_lamb t = lamb It fin /\ t_dt t = 1 / lamb It s /\ t_rho t = rho It s)
    \/ (exists w fin nx, o = Internal It w fin /\ cur It fin = cur It s /\ itn It fin = itn It s
                      /\ p_update (c_policy c) (c_pparams c) (pst It s) (it_pdata nx) = PAssert w).
  Proof. exact (body_stop It it_pdata step_norm). Qed.

  (* 3. a trial that is not finally adopted (rejected by the controller, failed, abandoned, or vetoed
     by the penalty policy) leaves the iterate unchanged *)
  Theorem C15_reject_keeps_point : forall c s s' nx l acc d,
    body_step It it_pdata step_norm c s s' nx l acc false d -> cur It s' = cur It s.
  Proof. exact (rejected_keeps_point It it_pdata step_norm). Qed.

  (* 4. a failed trial (StepSolverError / EvalError) returns twice its lambda, which is strictly larger (a trial
        abandoned at a deadline test returns its lambda unchanged: the solve ends at the next test, C08) *)
  Theorem C15_failed_trial : forall c (orc : oracle It) clk s s' n,
    orc (itn It s) (cur It s) (rho It s) (1 / lamb It s) (disp_of It c clk s) = Fail It n ->
    body c orc clk s = inl s' ->
    cur It s' = cur It s /\ nacc It s' = nacc It s /\ path It s' = path It s /\ times It s' = times It s
    /\ rho It s' = rho It s /\ pst It s' = pst It s
    /\ itn It s' = S (itn It s)
    /\ announced It s' = announced It s ++ [(cur It s, cur It s, false)]
    /\ (lamb It s' = 2 * (1 / (1 / lamb It s)) \/ lamb It s' = 1 / (1 / lamb It s)).
  Proof. exact (failed_trial It it_pdata step_norm). Qed.
  Theorem C15_failed_trial_doubles : forall c (orc : oracle It) clk s s',
    orc (itn It s) (cur It s) (rho It s) (1 / lamb It s) (disp_of It c clk s) = Fail It 0 ->
    body c orc clk s = inl s' -> lamb It s' = 2 * (1 / (1 / lamb It s)).
  Proof. exact (failed_trial_doubles It it_pdata step_norm). Qed.

  Theorem C15_doubling_is_strict : forall l, 0 < l -> 2 * (1 / (1 / l)) == 2 * l /\ l < 2 * (1 / (1 / l)).
  Proof. exact two_lambda. Qed.
End C15.

Example C15_nonvacuous :
  match ex_solve 40 (ex_cfg None None DualNorm true) 8 with
  | Done _ _ f => map (fun t => (Qred (t_dt t), Qred (t_lamb t), t_acc t, t_final t)) (firstn 4 (trials Q f))
                  = [(1, 1 # 2, true, true); (2, 1, false, false); (1, 2, false, false); (1 # 2, 1, true, true)]
  | _ => False
  end.
Proof. vm_compute. reflexivity. Qed.

Print Assumptions C15_lambda_chain.
Print Assumptions C15_abort_at_lambda_max.
Print Assumptions C15_reject_keeps_point.
Print Assumptions C15_failed_trial.
Print Assumptions C15_failed_trial_doubles.
Print Assumptions C15_doubling_is_strict.

(* ---------------- controller level: for every Newton stream, PI output and deadline pattern ---------------- *)
Section C15_controllers.
  Variable prm : cparams.
  Variable lamb : Q.
  Variable res0 : Q.
  Variable pi_out : Q -> Q.
  Variable passed : nat -> bool.
  Hypothesis lamb_pos : 0 < lamb.
  Notation ctl_step := (ctl_step prm lamb res0 pi_out passed).

  (* exact control accepts only an iterate whose implicit-Euler residual norm is <= newton_tol *)
  Theorem C15_exact_accepts_only_converged : forall stream id l,
    ctl_step CExact stream = CAns id l true ->
    l == (1 # 2) * lamb /\ exists s, In s stream /\ ns_id s = id /\ ns_res s <= cp_newton_tol prm.
  Proof. exact (exact_accepts_only_converged prm lamb res0 pi_out passed lamb_pos). Qed.

  (* whatever a controller does not accept comes with a strictly larger lambda (lamb_inc > 1); the one exception is
     the exact controller's trial abandoned because a deadline test inside its Newton loop found the deadline
     passed: unchanged iterate, unchanged lambda (the solve then ends at the next termination test, C08) *)
  Theorem C15_rejected_increases_lambda : forall k stream id l,
    1 < cp_lamb_inc prm -> ctl_step k stream = CAns id l false ->
    lamb < l \/ (k = CExact /\ id = 0%nat /\ l == lamb /\ exists j, passed j = true).
  Proof. exact (rejected_increases_lambda prm lamb res0 pi_out passed lamb_pos). Qed.
  Theorem C15_rejected_increases_lambda_no_deadline : forall k stream id l,
    1 < cp_lamb_inc prm -> (forall j, passed j = false) -> ctl_step k stream = CAns id l false -> lamb < l.
  Proof. exact (rejected_increases_lambda_no_deadline prm lamb res0 pi_out passed lamb_pos). Qed.

  Theorem C15_lambda_stays_positive : forall k stream id l a,
    0 < cp_lamb_min prm -> 0 < cp_lamb_init prm -> 0 < cp_lamb_inc prm ->
    ctl_step k stream = CAns id l a -> 0 < l.
  Proof. exact (lambda_stays_positive prm lamb res0 pi_out passed lamb_pos). Qed.

  (* compute_step never accepts a point whose evaluation fails *)
  Theorem C15_never_accepts_unevaluable_point : forall k stream eval_ok id l,
    compute_step prm lamb res0 pi_out passed k stream eval_ok = CAns id l true -> eval_ok id = true.
  Proof. exact (compute_step_never_accepts_bad_point prm lamb res0 pi_out passed). Qed.
End C15_controllers.

Print Assumptions C15_exact_accepts_only_converged.
Print Assumptions C15_rejected_increases_lambda.
Print Assumptions C15_rejected_increases_lambda_no_deadline.
Print Assumptions C15_lambda_stays_positive.
Print Assumptions C15_never_accepts_unevaluable_point.

(* ---------------- the PI controller behind the ratio controllers (controller.py), on the scale it works on ----------------
   after any number of updates since the last reset it returns K_P * (current error) + K_I * (sum of the errors), the
   errors being reference minus measurement; with non-negative gains and measurements at or below the reference the
   output is non-negative (on log scale: the multiplier exp(output) of the step size is at least one) *)
Theorem C15_pi_output : forall c vals s v,
  snd (run_updates c s (vals ++ [v]))
  == pi_KP c * (pi_ref c - v) + pi_KI c * (s + err_sum (pi_ref c) vals + (pi_ref c - v)).
Proof. exact pi_output. Qed.
Theorem C15_pi_output_sign : forall c vals v,
  0 <= pi_KP c -> 0 <= pi_KI c -> Forall (fun w => w <= pi_ref c) vals -> v <= pi_ref c ->
  0 <= snd (run_updates c 0 (vals ++ [v])).
Proof. exact pi_output_sign. Qed.
Example C15_pi_nonvacuous :
  map Qred (pi_run (mk_pi_cfg (1 # 2) (1 # 4) 2) 0 [PiUpdate 1; PiUpdate 3; PiReset; PiUpdate 0]) = [3 # 4; - (1 # 2); 3 # 2].
Proof. vm_compute. reflexivity. Qed.
Print Assumptions C15_pi_output.
Print Assumptions C15_pi_output_sign.
