(* C20 — automatic scalings normalise magnitudes with exact powers of two.
   All weights are integers by construction (type Z); data are arbitrary rationals, i.e. finite floats of
   ANY magnitude, in particular entries smaller than one. *)
From Verif Require Import AutoScale VecLemmas AutoScaleProofs.

(* 1. np.frexp's exponent: 2^(e-1) <= |x| < 2^e for every non-zero x, and it depends only on the value *)
Theorem C20_frexp_spec : forall x, ~ x == 0 -> p2 (frexp_exp x - 1) <= qabs x /\ qabs x < p2 (frexp_exp x).
Proof. exact frexp_spec. Qed.
Theorem C20_frexp_value_only : forall x y, x == y -> frexp_exp x = frexp_exp y.
Proof. exact frexp_exp_compat. Qed.

(* 2. weights_from_nominal_values: |x| 2^w in [1,2) *)
Theorem C20_weight_normalises : forall x, ~ x == 0 -> 1 <= qabs x * p2 (wfn x) /\ qabs x * p2 (wfn x) < 2.
Proof. exact wfn_normalises. Qed.

(* 3. Nominal: every non-zero nominal variable value has scaled magnitude in [1,2) (constraints: same map) *)
Theorem C20_nominal : forall vars cons obj j, (j < length vars)%nat -> ~ nth j vars 0 == 0 ->
  let w := nth j (vw (from_nominal vars cons obj)) 0%Z in
  1 <= qabs (ldexp (nth j vars 0) w) /\ qabs (ldexp (nth j vars 0) w) < 2.
Proof. exact nominal_ok. Qed.

(* 4. GradJac: every non-zero gradient component, scaled by 2^(o - v_j), has magnitude in [1,2) ... *)
Theorem C20_gradjac_gradient : forall g J j, (j < length g)%nat -> ~ nth j g 0 == 0 ->
  let sc := from_grad_jac g J in
  1 <= qabs (nth j g 0) * p2 (ow sc - nth j (vw sc) 0%Z) /\ qabs (nth j g 0) * p2 (ow sc - nth j (vw sc) 0%Z) < 2.
Proof. exact gradjac_gradient_ok. Qed.

(*    ... and the largest entry of every non-zero Jacobian row, scaled by 2^(w_i - v_j), is in [1,2) *)
Theorem C20_gradjac_rows : forall g J i, (i < length J)%nat ->
  let sc := from_grad_jac g J in
  let M := row_max (nth i J []) (vw sc) in
  ~ M == 0 ->
  let scaled_max := fold_right (fun v acc => qmax v acc) 0
                      (map2 (fun v vj => ldexp (qabs v) (nth i (cw sc) 0%Z - vj)) (nth i J []) (vw sc)) in
  1 <= scaled_max /\ scaled_max < 2.
Proof. exact gradjac_row_ok. Qed.

(* 5. KKT equilibration: whenever the loop returns, every column of the matrix it holds (the absolute
      values scaled by the accumulated exponents) has absolute sum in [1,4), or below 1e-10 (empty column) *)
Theorem C20_kkt_exit : forall fuel n es D D',
  scale_sym_loop fuel n es D = Some D' ->
  forall j, (j < n)%nat ->
    let R := nth j (col_sums n (final_entries fuel n es)) 0 in
    R < c_1e10 \/ (1 <= R /\ R < 4).
Proof. exact loop_exit_condition. Qed.
Theorem C20_kkt_test : forall R, rsca R = 0%Z -> R < c_1e10 \/ (1 <= R /\ R < 4).
Proof. exact rsca_zero. Qed.

(* non-vacuity: entries smaller than one (the case the pinned tree got wrong: row [0.001, 0.002]) *)
Example C20_nonvacuous :
  let sc := from_grad_jac [1; 1] [[1 # 1000; 2 # 1000]] in
  cw sc = [9%Z] /\ Qred (row_max [1 # 1000; 2 # 1000] (vw sc) * p2 9) = 128 # 125.
Proof. vm_compute. split; reflexivity. Qed.
Example C20_nonvacuous_kkt :
  from_kkt 2 1 [[4; 0]; [0; 1 # 4]] [[1 # 8; 2]] = Some (mk_scaling [1%Z; 0%Z] [0%Z] 0%Z).
Proof. vm_compute. reflexivity. Qed.

Print Assumptions C20_frexp_spec.
Print Assumptions C20_frexp_value_only.
Print Assumptions C20_weight_normalises.
Print Assumptions C20_nominal.
Print Assumptions C20_gradjac_gradient.
Print Assumptions C20_gradjac_rows.
Print Assumptions C20_kkt_exit.
Print Assumptions C20_kkt_test.
