(* C20 — automatic scalings normalise magnitudes with exact powers of two.
   All weights are integers by construction (type Z); data are arbitrary rationals, i.e. finite floats of
   ANY magnitude, in particular entries smaller than one. *)
From Verif Require Import AutoScale VecLemmas AutoScaleProofs.

(* 1. np.frexp's exponent: 2^(e-1) <= |x| < 2^e for every non-zero x, and it depends only on the value *)
Theorem C20_frexp_spec : forall x, ~ x == 0 -> p2 (frexp_exp x - 1) <= qabs x /\ qabs x < p2 (frexp_exp x).
Proof. exact frexp_spec. Qed.
Theorem C20_frexp_value_only : forall x y, x == y -> frexp_exp x = frexp_exp y.
Proof. exact frexp_exp_compat. Qed.

(* 2. weights_from_nominal_values: |x| 2^w in [1,2) *)
Theorem C20_weight_normalises : forall x, ~ x == 0 -> 1 <= qabs x * p2 (wfn x) /\ qabs x * p2 (wfn x) < 2.
Proof. exact wfn_normalises. Qed.

(* 3. Nominal: every non-zero nominal variable value has scaled magnitude in [1,2) (constraints: same map) *)
Theorem C20_nominal : forall vars cons obj j, (j < length vars)%nat -> ~ nth j vars 0 == 0 ->
  let w := nth j (vw (from_nominal vars cons obj)) 0%Z in
  1 <= qabs (ldexp (nth j vars 0) w) /\ qabs (ldexp (nth j vars 0) w) < 2.
Proof. exact nominal_ok. Qed.

(* 4. GradJac: every non-zero gradient component, scaled by 2^(o - v_j), has magnitude in [1,2) ... *)
Theorem C20_gradjac_gradient : forall g J j, (j < length g)%nat -> ~ nth j g 0 == 0 ->
  let sc := from_grad_jac g J in
  1 <= qabs (nth j g 0) * p2 (ow sc - nth j (vw sc) 0%Z) /\ qabs (nth j g 0) * p2 (ow sc - nth j (vw sc) 0%Z) < 2.
Proof. exact gradjac_gradient_ok. Qed.

(*    ... and the largest entry of every non-zero Jacobian row, scaled by 2^(w_i - v_j), is in [1,2) *)
Theorem C20_gradjac_rows : forall g J i, (i < length J)%nat ->
  let sc := from_grad_jac g J in
  let M := row_max (nth i J []) (vw sc) in
  ~ M == 0 ->
  let scaled_max := fold_right (fun v acc => qmax v acc) 0
                      (map2 (fun v vj => ldexp (qabs v) (nth i (cw sc) 0%Z - vj)) (nth i J []) (vw sc)) in
  1 <= scaled_max /\ scaled_max < 2.
Proof. exact gradjac_row_ok. Qed.

(* 5. KKT equilibration: whenever the loop returns, every column of the matrix it holds (the absolute
      values scaled by the accumulated exponents) has absolute sum in [1,4), or below 1e-10 (empty column) *)
Theorem C20_kkt_exit : forall fuel n es D D',
  scale_sym_loop fuel n es D = Some D' ->
  forall j, (j < n)%nat ->
    let R := nth j (col_sums n (final_entries fuel n es)) 0 in
    R < c_1e10 \/ (1 <= R /\ R < 4).
Proof. exact loop_exit_condition. Qed.
Theorem C20_kkt_test : forall R, rsca R = 0%Z -> R < c_1e10 \/ (1 <= R /\ R < 4).
Proof. exact rsca_zero. Qed.

(* 5'. ... and that matrix IS the input |K| scaled by the exponents the loop returns (accumulated sums of the
       per-round exponents): every column of  diag(2^D') |K| diag(2^D')  has absolute sum in [1,4) or is empty *)
Theorem C20_kkt_normalised : forall n es D',
  scale_symmetric n es = Some D' ->
  length D' = n /\
  forall j, (j < n)%nat ->
    let R := nth j (col_sums n (rescale (abs_entries es) D')) 0 in
    R < c_1e10 \/ (1 <= R /\ R < 4).
Proof. exact equilibration_normalises. Qed.
(* the Scaling object built from it: variable weights are the negated first n exponents, constraint weights the rest *)
Theorem C20_from_kkt_weights : forall n m H J sc, from_kkt n m H J = Some sc ->
  exists w, scale_symmetric (n + m) (kkt_entries n H J) = Some w /\ length w = (n + m)%nat /\
            vw sc = map Z.opp (firstn n w) /\ cw sc = skipn n w /\ ow sc = 0%Z /\
            forall j, (j < n + m)%nat ->
              let R := nth j (col_sums (n + m) (rescale (abs_entries (kkt_entries n H J)) w)) 0 in
              R < c_1e10 \/ (1 <= R /\ R < 4).
Proof.
  intros n m H J sc E. destruct (from_kkt_inv _ _ _ _ _ E) as [w [S ->]].
  exists w. destruct (equilibration_normalises _ _ _ S) as [L N].
  split; [exact S|]. split; [exact L|]. split; [reflexivity|]. split; [reflexivity|]. split; [reflexivity|]. exact N.
Qed.

(* 6. what the solver builds for itself (scale.py create_scaling, tied by unit `create_scaling`): the Nominal scaling is
      taken from the scaling point itself and the constraint values there; GradJac from the gradient and Jacobian there *)
Theorem C20_create_scaling_nominal : forall P xs ys sc, create_scaling 0 P xs ys = Some sc ->
  forall j, (j < length xs)%nat -> ~ nth j xs 0 == 0 ->
  let w := nth j (vw sc) 0%Z in
  1 <= qabs (ldexp (nth j xs 0) w) /\ qabs (ldexp (nth j xs 0) w) < 2.
Proof. intros P xs ys sc E. injection E as <-. intros j Hj Hx. exact (nominal_ok xs (p_cons P xs) 1 j Hj Hx). Qed.
Theorem C20_create_scaling_gradjac : forall P xs ys sc, create_scaling 1 P xs ys = Some sc ->
  forall j, (j < length (p_grad P xs))%nat -> ~ nth j (p_grad P xs) 0 == 0 ->
  1 <= qabs (nth j (p_grad P xs) 0) * p2 (ow sc - nth j (vw sc) 0%Z)
  /\ qabs (nth j (p_grad P xs) 0) * p2 (ow sc - nth j (vw sc) 0%Z) < 2.
Proof. intros P xs ys sc E. injection E as <-. intros j Hj Hx. exact (gradjac_gradient_ok (p_grad P xs) (p_jac P xs) j Hj Hx). Qed.

(* non-vacuity: entries smaller than one (the case the pinned tree got wrong: row [0.001, 0.002]) *)
Example C20_nonvacuous :
  let sc := from_grad_jac [1; 1] [[1 # 1000; 2 # 1000]] in
  cw sc = [9%Z] /\ Qred (row_max [1 # 1000; 2 # 1000] (vw sc) * p2 9) = 128 # 125.
Proof. vm_compute. split; reflexivity. Qed.
Example C20_nonvacuous_kkt :
  from_kkt 2 1 [[4; 0]; [0; 1 # 4]] [[1 # 8; 2]] = Some (mk_scaling [1%Z; 0%Z] [0%Z] 0%Z).
Proof. vm_compute. reflexivity. Qed.

Print Assumptions C20_frexp_spec.
Print Assumptions C20_frexp_value_only.
Print Assumptions C20_weight_normalises.
Print Assumptions C20_nominal.
Print Assumptions C20_gradjac_gradient.
Print Assumptions C20_gradjac_rows.
Print Assumptions C20_kkt_exit.
Print Assumptions C20_kkt_test.
Print Assumptions C20_kkt_normalised.
Print Assumptions C20_from_kkt_weights.
Print Assumptions C20_create_scaling_nominal.
Print Assumptions C20_create_scaling_gradjac.
