(* C08 — stopping early returns exactly a prefix of the unlimited run. *)
From Verif Require Import Loop LoopInst LoopProofs LoopProofs2 LoopTop.

Section C08.
  Variable It : Type.
  Variables (it_total : It -> Q) (it_linf : It -> bool) (it_obj : It -> Q) (it_feas : It -> bool)
            (it_pdata : It -> pdata) (step_norm : It -> It -> Q).
  Notation run := (run It it_total it_linf it_obj it_feas it_pdata step_norm).
  Notation at_iter := (at_iter It it_total it_linf it_obj it_feas it_pdata step_norm).
  Notation reach := (reach It it_total it_linf it_obj it_feas it_pdata step_norm).
  Notation check := (check It it_total it_linf it_obj it_feas).
  Notation body := (body It it_pdata step_norm).

  (* 1. Iteration budget, for EVERY k: if the run (with any or no limit of its own) has state sk at the
        top of the loop with iteration counter k, then the same run limited to k iterations returns
        exactly sk — iterate, counters, announced steps, trials, path, model times, lambda, rho — with
        status IterationLimit. *)
  Theorem C08_iteration_limit_prefix : forall fuel c orc clk k s sk,
    at_iter fuel c orc clk s k = Some sk -> (itn It s <= k)%nat ->
    run (S fuel) (with_limit c (Some k)) orc clk s = Done It IterationLimit sk.
  Proof. exact (iteration_limit_prefix It it_total it_linf it_obj it_feas it_pdata step_norm). Qed.

  (* ... every k up to the natural length of the run is such a point ... *)
  Theorem C08_every_budget_is_a_prefix_point : forall fuel c orc clk k s stt fin,
    run fuel c orc clk s = Done It stt fin -> (itn It s <= k <= itn It fin)%nat ->
    exists sk, at_iter fuel c orc clk s k = Some sk.
  Proof. exact (run_passes_iter It it_total it_linf it_obj it_feas it_pdata step_norm). Qed.

  (* ... and sk is a state the unlimited run really was in, whose announced steps and trials are a
        prefix of everything the unlimited run does later *)
  Theorem C08_prefix_point_is_reachable : forall fuel c orc clk k s sk,
    at_iter fuel c orc clk s k = Some sk -> reach c orc clk s sk /\ itn It sk = k.
  Proof. exact (at_iter_reach It it_total it_linf it_obj it_feas it_pdata step_norm). Qed.

  Theorem C08_histories_only_grow : forall c orc clk s0 s, reach c orc clk s0 s ->
    (exists more, announced It s = announced It s0 ++ more)
    /\ (exists more, trials It s = trials It s0 ++ more).
  Proof. exact (reach_prefix It it_total it_linf it_obj it_feas it_pdata step_norm). Qed.

  (* 2. Deadline found expired at the top of the loop: the state is returned as it is. *)
  Theorem C08_deadline_outer : forall c clk s s1, check c clk s = (Some TimeLimit, s1) ->
    same_alg It s s1 /\ deadline_passed It c s (clk (cpos It s)) = true.
  Proof. exact (deadline_outer It it_total it_linf it_obj it_feas). Qed.

  (* 3. Deadline found expired inside a trial (the exact controller's Newton loop): the trial is
        abandoned, whatever the oracle would have answered ... *)
  Theorem C08_deadline_inner_abandons : forall c clk s p dt a k,
    inner_checks It c clk s p (match a with Ans _ _ _ _ n => n | Fail _ n => n end) = (true, k) ->
    resolve It c clk s p dt a = (cur It s, 1 / dt, false, k).
  Proof. exact (deadline_inner It). Qed.

  (*    ... an abandoned (or failed) trial changes neither iterate, path, model times, accepted-step
        count nor penalty, is announced as (current, current, not accepted) and counts as one iteration:
        no partially computed point leaks ... *)
  Theorem C08_abandoned_trial_leaves_no_trace : forall c s s' nx l acc d,
    body_step It it_pdata step_norm c s s' nx l acc false d ->
    cur It s' = cur It s /\ nacc It s' = nacc It s /\ path It s' = path It s /\ times It s' = times It s
    /\ rho It s' = rho It s.
  Proof.
    intros c s s' nx l acc d BS. destruct BS. destruct (bs_reject eq_refl) as (A & B & C & D & E & _).
    exact (conj A (conj B (conj C (conj D E)))).
  Qed.

  (*    ... and with a clock that does not run backwards the very next termination test stops the solve
        with TimeLimit (or IterationLimit if that budget is exhausted too) ... *)
  Theorem C08_stop_after_abandoned_trial : forall c clk s q,
    (forall a b, (a <= b)%nat -> clk a <= clk b) -> (q <= cpos It s)%nat ->
    deadline_passed It c s (clk q) = true ->
    exists stt s1, check c clk s = (Some stt, s1) /\ (stt = TimeLimit \/ stt = IterationLimit).
  Proof. exact (check_after_deadline It it_total it_linf it_obj it_feas). Qed.

  (*    ... and the loop does get there: the abandoned trial returns the current lambda (below lamb_max, as after every
        earlier trial: C15_lambda_chain), so the body runs to its end with point, path, accepted-step count, penalty and
        lambda untouched, and the solve returns that very point with TimeLimit / IterationLimit.  (Before the repair
        of F10 the abandoned trial doubled lambda and could end in the step-size error instead.) *)
  Theorem C08_abandoned_trial_then_stop : forall c (orc : oracle It) clk s k,
    (forall a b, (a <= b)%nat -> clk a <= clk b) ->
    0 < lamb It s -> qle (c_lamb_max c) (lamb It s) = false ->
    inner_checks It c clk s (S (cpos It s))
      (match orc (itn It s) (cur It s) (rho It s) (1 / lamb It s) (disp_of It c clk s) with
       | Ans _ _ _ _ n => n | Fail _ n => n end) = (true, k) ->
    exists s', body c orc clk s = inl s'
      /\ cur It s' = cur It s /\ nacc It s' = nacc It s /\ path It s' = path It s /\ times It s' = times It s
      /\ rho It s' = rho It s /\ lamb It s' == lamb It s /\ itn It s' = S (itn It s)
      /\ exists stt s1, check c clk s' = (Some stt, s1) /\ (stt = TimeLimit \/ stt = IterationLimit)
                         /\ cur It s1 = cur It s.
  Proof. exact (abandoned_trial_then_stop It it_total it_linf it_obj it_feas it_pdata step_norm). Qed.
End C08.

(* non-vacuity: the unlimited example run passes through iteration 4 in exactly the state the run
   limited to 4 iterations returns *)
Example C08_nonvacuous :
  ex_summary (ex_solve 40 (ex_cfg (Some 4%nat) None DualNorm true) 8)
  = Some (IterationLimit, 4%nat, 2%nat, 2, 1, 4%nat, [0; 1; 3 # 2], [8; 4; 2])
  /\ ex_summary (ex_solve 40 (ex_cfg None None DualNorm true) 8)
     = Some (Optimal, 13%nat, 5%nat, 1 # 4, 8, 13%nat,
             [0; 1; 3 # 2; 7 # 4; 15 # 8; 31 # 16], [8; 4; 2; 1; 1 # 2; 1 # 4]).
Proof. split; vm_compute; reflexivity. Qed.

(* the corner that used to fail (DESIGN 5-F10, repaired): a deadline that expires inside a trial whose doubled lambda
   would have reached lamb_max now ends with TimeLimit at the current point *)
Example C08_deadline_inner_at_lambda_max :
  let c := mk_cfg None (Some 3) 0 (-(100)) 32 64 Constant
                  {| pp_rho := 1; pp_opt_tol := 0; pp_infeas_tol := 0 |} None false in
  match ex_solve 10 c 8 with Done _ TimeLimit _ => True | _ => False end.
Proof. vm_compute. exact I. Qed.

Print Assumptions C08_iteration_limit_prefix.
Print Assumptions C08_every_budget_is_a_prefix_point.
Print Assumptions C08_prefix_point_is_reachable.
Print Assumptions C08_histories_only_grow.
Print Assumptions C08_deadline_outer.
Print Assumptions C08_deadline_inner_abandons.
Print Assumptions C08_abandoned_trial_leaves_no_trace.
Print Assumptions C08_stop_after_abandoned_trial.
Print Assumptions C08_abandoned_trial_then_stop.
