(* Per-run obligations of C05 over the facts regenerated from /repo (Gen.Facts). *)
From Coq Require Import String List Bool.
From Gen Require Import Facts.
From Verif Require Import Effects.
Import ListNotations.
Open Scope string_scope.

Theorem C05_modules_known : forallb module_ok modules = true.
Proof. vm_compute. reflexivity. Qed.
(* every place where an Iterate / StepResult is constructed is of a known kind ... *)
Theorem C05_iterate_sites_classified : forallb iterate_site_ok iterate_sites = true.
Proof. vm_compute. reflexivity. Qed.
(* ... and none of them is an unclipped line-search trial (the Globalized line search was one: F8, fixed) *)
Theorem C05_no_unclipped_site : unclipped_sites iterate_sites = [].
Proof. vm_compute. reflexivity. Qed.
(* every call of a problem callback goes through an Iterate, is forwarded by a wrapper with its own argument,
   happens at the start point, or is one of the two exempt places (scaling point, derivative check) *)
Theorem C05_eval_sites_classified : forallb eval_site_ok eval_sites = true.
Proof. vm_compute. reflexivity. Qed.
