(* Per-run obligations of C05 over the facts regenerated from /repo (Gen.Facts). *)
From Coq Require Import String List Bool.
From Gen Require Import Facts.
From Verif Require Import Effects.
Import ListNotations.
Open Scope string_scope.

Theorem C05_modules_known : forallb module_ok modules = true.
Proof. vm_compute. reflexivity. Qed.
(* every place where an Iterate / StepResult is constructed is of a known kind ... *)
Theorem C05_iterate_sites_classified : forallb iterate_site_ok iterate_sites = true.
Proof. vm_compute. reflexivity. Qed.
(* ... and the only one that is not start / clipped step / copy / clip is the Globalized line search (known finding F8) *)
Theorem C05_only_known_unclipped_site :
  unclipped_sites iterate_sites = [("newton.py", "GlobalizedNewtonMethod.step", "Iterate", "iterate.x - dx")].
Proof. vm_compute. reflexivity. Qed.
(* every call of a problem callback goes through an Iterate, is forwarded by a wrapper with its own argument,
   happens at the start point, or is one of the two exempt places (scaling point, derivative check) *)
Theorem C05_eval_sites_classified : forallb eval_site_ok eval_sites = true.
Proof. vm_compute. reflexivity. Qed.
