(* Per-run obligations of C06 over the facts regenerated from /repo (Gen.Facts). *)
From Coq Require Import String List Bool.
From Gen Require Import Facts.
From Verif Require Import Effects.
Import ListNotations.
Open Scope string_scope.

Theorem C06_modules_known : forallb module_ok modules = true.
Proof. vm_compute. reflexivity. Qed.
(* every raise is a deliberate failure, is converted into a rejected step by a handler, is an abstract method,
   or validates the configuration at construction *)
Theorem C06_raise_sites_classified : forallb raise_ok raise_sites = true.
Proof. vm_compute. reflexivity. Qed.
(* every assert is about shapes of the package's own arrays, about the configuration, or is a numeric
   assertion backed by a named theorem *)
Theorem C06_assert_sites_classified : forallb assert_ok assert_sites = true.
Proof. vm_compute. reflexivity. Qed.
(* the handlers that convert failures exist where they must *)
Theorem C06_required_guards_present : forallb (guard_present guarded_calls) required_guards = true.
Proof. vm_compute. reflexivity. Qed.
Theorem C06_linear_calls_guarded : forallb linear_call_guarded guarded_calls = true.
Proof. vm_compute. reflexivity. Qed.
