(* Diagnostics: the records that fail their classifier (compiled only when an obligation fails). *)
From Coq Require Import String List Bool ZArith.
From Gen Require Import Facts.
From Verif Require Import Effects.
Import ListNotations.
Open Scope string_scope.
Eval vm_compute in ("modules", filter (fun s => negb (module_ok s)) modules).
Eval vm_compute in ("iterate_sites", filter (fun s => negb (iterate_site_ok s)) iterate_sites).
Eval vm_compute in ("unclipped_sites (must be empty)", unclipped_sites iterate_sites).
Eval vm_compute in ("eval_sites", filter (fun s => negb (eval_site_ok s)) eval_sites).
Eval vm_compute in ("raise_sites", filter (fun s => negb (raise_ok s)) raise_sites).
Eval vm_compute in ("assert_sites", filter (fun s => negb (assert_ok s)) assert_sites).
Eval vm_compute in ("missing_guards", filter (fun r => negb (guard_present guarded_calls r)) required_guards).
Eval vm_compute in ("unguarded_linear_calls", filter (fun s => negb (linear_call_guarded s)) guarded_calls).
Eval vm_compute in ("observer_sites", filter (fun s => negb (observer_site_ok s)) observer_sites).
Eval vm_compute in ("creation_sites", filter (fun s => negb (creation_ok s)) creation_sites).
Eval vm_compute in ("self_stores", filter (fun s => negb (persistent_store_ok s)) self_stores).
Eval vm_compute in ("self_first_use", filter (fun s => negb (solve_store_before_load s)) self_first_use).
Eval vm_compute in ("module_state", filter (fun s => negb (module_state_ok s)) module_state).
Eval vm_compute in ("default_args", filter (fun s => negb (default_arg_ok s)) default_args).
Eval vm_compute in ("inplace_ops", filter (fun s => negb (inplace_ok s)) inplace_ops).
Eval vm_compute in ("handlers_that_reraise", filter (fun r => negb (handler_swallows handler_bodies r)) swallowing_handlers).
