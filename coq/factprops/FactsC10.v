(* Per-run obligations of C10 over the facts regenerated from /repo (Gen.Facts). *)
From Coq Require Import String List Bool ZArith.
From Gen Require Import Facts.
From Verif Require Import Effects.
Import ListNotations.
Open Scope string_scope.

(* controller, penalty strategy, display and timer are created inside solve(), nothing of the kind in __init__ *)
Theorem C10_creation_sites_ok : forallb creation_ok creation_sites = true.
Proof. vm_compute. reflexivity. Qed.
(* objects that outlive a solve are only written by their constructors; Solver.solve stores exactly evaluator,
   penalty_strategy and rho on the solver, each before it reads it *)
Theorem C10_persistent_stores_ok : forallb persistent_store_ok self_stores = true.
Proof. vm_compute. reflexivity. Qed.
Theorem C10_solve_stores_before_loads : forallb solve_store_before_load self_first_use = true.
Proof. vm_compute. reflexivity. Qed.
Theorem C10_module_state_ok : forallb module_state_ok module_state = true.
Proof. vm_compute. reflexivity. Qed.
Theorem C10_default_args_ok : forallb default_arg_ok default_args = true.
Proof. vm_compute. reflexivity. Qed.
(* nothing the caller handed in (Params, problem, arrays) is written in place: a mutated Params would make the next
   solve with the same object, or with the shared default, a different computation *)
Theorem C10_inplace_ops_ok : forallb inplace_ok inplace_ops = true.
Proof. vm_compute. reflexivity. Qed.
