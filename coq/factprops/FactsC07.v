(* Per-run obligations of C07 over the facts regenerated from /repo (Gen.Facts). *)
From Coq Require Import String List Bool.
From Gen Require Import Facts.
From Verif Require Import Effects.
Import ListNotations.
Open Scope string_scope.

(* compute_step catches StepSolverError and EvalError around step() and around check_eval of an accepted candidate;
   the prelude of solve maps evaluation failures at the start (incl. print_problem_stats) to the dedicated error;
   the condition estimator's back-solves are guarded; LU factorisation failures become LinearSolverError *)
Theorem C07_required_guards_present : forallb (guard_present guarded_calls) required_guards = true.
Proof. vm_compute. reflexivity. Qed.
(* every factorisation and back-solve issued by a step solver sits under a LinearSolverError handler *)
Theorem C07_linear_calls_guarded : forallb linear_call_guarded guarded_calls = true.
Proof. vm_compute. reflexivity. Qed.
Theorem C07_raise_sites_classified : forallb raise_ok raise_sites = true.
Proof. vm_compute. reflexivity. Qed.
(* the handlers that are there to swallow (display lookups, condition estimate, failed trial steps) never re-raise *)
Theorem C07_swallowing_handlers_swallow : forallb (handler_swallows handler_bodies) swallowing_handlers = true.
Proof. vm_compute. reflexivity. Qed.
