(* Per-run obligations of C09 over the facts regenerated from /repo (Gen.Facts). *)
From Coq Require Import String List Bool.
From Gen Require Import Facts.
From Verif Require Import Effects.
Import ListNotations.
Open Scope string_scope.

(* everything executed under a branch controlled by an observer input (display flags, log level, report_rcond,
   collect_path, path) writes observer state only *)
Theorem C09_observer_branches_ok : forallb observer_site_ok observer_sites = true.
Proof. vm_compute. reflexivity. Qed.
(* display lookups swallow every exception; the estimator's failures are swallowed *)
Theorem C09_required_guards_present : forallb (guard_present guarded_calls) required_guards = true.
Proof. vm_compute. reflexivity. Qed.
(* no module-level state besides the whitelisted constants (in particular no global random state) *)
Theorem C09_module_state_ok : forallb module_state_ok module_state = true.
Proof. vm_compute. reflexivity. Qed.
(* the handlers that are there to swallow (display lookups, condition estimate, failed trial steps) never re-raise *)
Theorem C09_swallowing_handlers_swallow : forallb (handler_swallows handler_bodies) swallowing_handlers = true.
Proof. vm_compute. reflexivity. Qed.
