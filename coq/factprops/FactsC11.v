(* Per-run obligations of C11 over the facts regenerated from /repo (Gen.Facts). *)
From Coq Require Import String List Bool.
From Gen Require Import Facts.
From Verif Require Import Effects.
Import ListNotations.
Open Scope string_scope.

(* every in-place operation (augmented assignment, subscript / attribute store, out=, copy=False) targets an
   object the package created itself, a bookkeeping dictionary, or is on the reviewed list *)
Theorem C11_inplace_ops_ok : forallb inplace_ok inplace_ops = true.
Proof. vm_compute. reflexivity. Qed.
