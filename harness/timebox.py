"""Wall-clock box around one call into the implementation.  A seeded change can make a solve spin forever (e.g. an
iteration counter that is no longer advanced); the check must then report the input instead of hanging."""
import contextlib
import signal
import threading


class TimeBox(BaseException):
    pass


class Hang(Exception):
    """The implementation did not return on `case` within the box."""

    def __init__(self, where, case, seconds):
        super().__init__("%s: no return within %d s" % (where, seconds))
        self.where, self.case, self.seconds = where, case, seconds


def alarm_handler(signum, frame):
    # re-armed: if the exception is raised where it gets cleared (C code calling back into Python), the next
    # one, five seconds later, gets through; leaving the box disarms the timer
    signal.setitimer(signal.ITIMER_REAL, 5.0)
    raise TimeBox()


@contextlib.contextmanager
def time_box(seconds):
    # nested boxes: the outer one stays in charge
    if threading.current_thread() is not threading.main_thread() or signal.getitimer(signal.ITIMER_REAL)[0] > 0:
        yield False
        return

    old = signal.signal(signal.SIGALRM, alarm_handler)
    signal.setitimer(signal.ITIMER_REAL, seconds)
    try:
        yield True
    finally:
        signal.setitimer(signal.ITIMER_REAL, 0)
        signal.signal(signal.SIGALRM, old)
