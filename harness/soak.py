"""Multi-seed soak of all quick checks on the unchanged tree: python -m harness.soak 1 2 3 ... (reports alarms)"""
import json, subprocess, sys, os, glob
from concurrent.futures import ThreadPoolExecutor

ROOT = os.path.dirname(os.path.dirname(os.path.abspath(__file__)))

def main():
    seeds = [int(a) for a in sys.argv[1:] if a.isdigit()] or [1, 2, 3]
    tier = "thorough" if "thorough" in sys.argv else "quick"
    man = json.load(open(os.path.join(ROOT, "MANIFEST.json")))
    ids = [c["property_id"] for c in man["checks"]]
    jobs = [(s, p) for s in seeds for p in ids]
    def one(job):
        s, p = job
        env = dict(os.environ, VERIF_SEED=str(s))
        r = subprocess.run("cd %s && ./check %s --tier %s" % (ROOT, p, tier), shell=True, env=env, stdout=subprocess.PIPE, stderr=subprocess.STDOUT, text=True)
        v = [l for l in r.stdout.splitlines() if l.startswith("VIOLATION")]
        info = []
        for l in v:
            path = l.split("replay=")[1].split()[0]
            try:
                d = json.load(open(path)); info.append("%s | %s" % (d.get("key"), d.get("text", "")[:160]))
            except Exception:
                pass
        return s, p, r.returncode, info
    bad = 0
    with ThreadPoolExecutor(max_workers=5) as ex:
        for s, p, rc, info in ex.map(one, jobs):
            if rc != 0:
                bad += 1
                print("seed", s, p, "exit", rc, info, flush=True)
    print("soak done: %d alarms over %d runs" % (bad, len(jobs)))

if __name__ == "__main__":
    main()
