"""Correspondence units: run the real pygradflow code and the Coq model on the same cases and compare
exactly (the comparison itself is evaluated inside Coq)."""
import collections
import hashlib
import json
import os
import signal
import traceback

from . import common


UNIT_BOX = 60       # seconds for one driven call of the implementation (normal: milliseconds)


class Unit:
    name = "unit"
    header = "From Verif Require Import Vec."
    check_fn = "check"
    tag_fn = "tag"
    exact_fn = None                    # model-side test that the case is float-exact (DESIGN 3.2)
    shard = 300

    def gen(self, g, tier):            # -> list of JSON-able cases
        raise NotImplementedError

    def impl(self, case):              # -> JSON-able result of the real code
        raise NotImplementedError

    def term(self, case, result):      # -> Gallina term of the case (inputs + implementation result)
        raise NotImplementedError

    def tag_name(self, tag):
        return str(tag)

    def nontrivial(self, case, result, tag):
        return True

    def oracle(self, case, result):    # property oracle on one case: None or text of what fails
        return None

    def key(self, case, result):       # signature of a failure, for known-findings matching
        return "%s:mismatch" % self.name

    def model_value(self, case, result, scratch):   # optional: model's own answer for a replay file
        return None


def run_unit(rep, unit, cases, scratch, oracle_on_all=True):
    """Returns number of mismatches."""
    import os
    cp = os.path.join(common.VERIF, "corpus", "unit_%s.json" % unit.name)
    if os.path.exists(cp):             # minimised past failures run first
        with open(cp) as fh:
            cases = json.load(fh) + list(cases)
    results, terms = [], []
    impl_errors = 0
    from .timebox import Hang, TimeBox, time_box
    for c in cases:
        try:
            with time_box(UNIT_BOX):
                r = unit.impl(c)
        except TimeBox:
            if signal.getitimer(signal.ITIMER_REAL)[0] > 0:
                raise
            raise Hang("correspondence unit %s" % unit.name, c, UNIT_BOX)
        except Exception as e:      # the driver itself must not die; an escaping exception is a result
            r = {"exc": type(e).__name__, "msg": str(e)[:200], "tb": traceback.format_exc()[-800:]}
            impl_errors += 1
        results.append(r)
        terms.append(unit.term(c, r))
    failing, tags, errors = common.run_case_files(
        unit.name, unit.header, terms, unit.check_fn, unit.tag_fn, scratch, shard=unit.shard)
    info = rep.cov["units"].setdefault(unit.name, {})
    info["cases"] = len(cases)
    info["impl_exceptions"] = impl_errors
    hist = collections.Counter(unit.tag_name(t) for t in tags)
    info["branch_hits"] = dict(sorted(hist.items(), key=lambda kv: str(kv[0])))
    distinct = set()
    nontriv = 0
    for i, (c, r) in enumerate(zip(cases, results)):
        h = hashlib.sha1(terms[i].encode()).hexdigest()
        if h in distinct:
            continue
        distinct.add(h)
        t = tags[i] if i < len(tags) else None
        if unit.nontrivial(c, r, t):
            nontriv += 1
    info["distinct"] = len(distinct)
    info["distinct_nontrivial"] = nontriv
    rep.cov["evaluations"] += len(cases)
    rep.cov["distinct_nontrivial"] += nontriv
    rep.cov["obligations"] += 1          # "model and implementation agree on every case of this unit"
    rep.add_samples([{"unit": unit.name, "case": cases[i], "impl": results[i]} for i in range(min(1, len(cases)))])
    if errors:
        rep.broken("%s:coq-eval" % unit.name,
                   "correspondence unit %s: model evaluation failed in Coq" % unit.name,
                   {"unit": unit.name, "errors": errors})
        return -1
    # property oracle on every case (independent of the model)
    oracle_fail = 0
    if oracle_on_all:
        for c, r in zip(cases, results):
            msg = unit.oracle(c, r)
            if msg:
                oracle_fail += 1
                rep.failure(unit.key(c, r), msg, {"kind": "oracle", "unit": unit.name, "case": c, "impl": r, "what": msg})
    info["oracle_failures"] = oracle_fail
    info["discarded_inexact"] = 0
    if failing and unit.exact_fn:
        # a mismatch on a case whose exact result is not a binary64 number is a generator slip (the float
        # run was necessarily rounded), not a code/model difference: discard it, and count it
        ex = common.eval_bools(unit.header, unit.exact_fn, [terms[i] for i in failing[:200]], scratch,
                               name="exact_" + unit.name)
        if ex is not None and len(ex) == len(failing[:200]):
            keep = [i for i, e in zip(failing[:200], ex) if e] + failing[200:]
            info["discarded_inexact"] = len(failing) - len(keep)
            failing = keep
    info["mismatches"] = len(failing)
    if not failing:
        rep.cov["discharged"] += 1
        return 0
    # mismatches: look for a concrete property failure among them; cases that differ although the
    # property oracle is satisfied mean the tie itself is broken
    unexplained = []
    for i in failing[:40]:
        msg = unit.oracle(cases[i], results[i])
        if msg:
            rep.failure(unit.key(cases[i], results[i]), msg,
                        {"kind": "oracle", "unit": unit.name, "case": cases[i], "impl": results[i], "what": msg})
        else:
            unexplained.append(i)
    if unexplained:
        i = unexplained[0]
        rep.broken("%s:mismatch" % unit.name,
                   "correspondence unit %s: model and implementation differ on %d of %d cases"
                   % (unit.name, len(failing), len(cases)),
                   {"kind": "correspondence", "unit": unit.name, "case": cases[i], "impl": results[i],
                    "model": unit.model_value(cases[i], results[i], scratch),
                    "failing_indices": failing[:50],
                    "note": "the correspondence between the Coq model and /repo (unit %s) no longer checks" % unit.name})
    return len(failing)
