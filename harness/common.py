"""Shared machinery of the /verif checks: paths, Coq build and evaluation, Gallina literals,
evidence files, known findings, violation reporting."""
import fcntl
import hashlib
import json
import os
import re
import shutil
import subprocess
import sys
import tempfile
import time
from fractions import Fraction

VERIF = os.path.dirname(os.path.dirname(os.path.abspath(__file__)))
REPO = os.environ.get("VERIF_REPO", "/repo")      # the tree under test (scratch worktrees for parallel seed runs)
COQ = os.path.join(VERIF, "coq")
EVIDENCE = os.path.join(VERIF, "evidence")
REPLAYS = os.path.join(VERIF, "replays")
KNOWN = os.path.join(VERIF, "known_findings.json")
COQ_WARN = "-notation-overridden,-deprecated-hint-without-locality,-deprecated-instance-without-locality"
NCPU = os.cpu_count() or 4

FORBIDDEN = re.compile(
    r"\b(Admitted|admit|Axiom|Axioms|Parameter|Parameters|Conjecture|Admit Obligations|"
    r"bypass_check|Unset Guard Checking|Unset Positivity Checking|Unset Universe Checking|"
    r"native_compute)\b"
)


def sh(cmd, timeout=600, cwd=None, env=None):
    p = subprocess.run(cmd, shell=isinstance(cmd, str), cwd=cwd, env=env, timeout=timeout,
                       stdout=subprocess.PIPE, stderr=subprocess.STDOUT, text=True)
    return p.returncode, p.stdout


# --------------------------------------------------------------------------- Coq build
def coq_sources():
    out = []
    for sub in ("model", "proofs", "props"):
        d = os.path.join(COQ, sub)
        for f in sorted(os.listdir(d)):
            if f.endswith(".v"):
                out.append(os.path.join(sub, f))
    return out


def grep_forbidden():
    """Fail closed if any forbidden vernacular occurs in the development."""
    bad = []
    for rel in coq_sources():
        with open(os.path.join(COQ, rel)) as fh:
            txt = fh.read()
        # strip comments (non-nested is enough for our files; nested handled by loop)
        prev = None
        while prev != txt:
            prev = txt
            txt = re.sub(r"\(\*[^*]*(?:\*(?!\))[^*]*)*\*\)", " ", txt)
        for m in FORBIDDEN.finditer(txt):
            bad.append((rel, m.group(0)))
    return bad


def coq_build(verbose=False):
    """Full .vo build of /verif/coq (never -vos). Serialised by a lock, incremental via make."""
    os.makedirs(COQ, exist_ok=True)
    lock = open(os.path.join(COQ, ".build.lock"), "w")
    fcntl.flock(lock, fcntl.LOCK_EX)
    try:
        bad = grep_forbidden()
        if bad:
            return False, "forbidden vernacular: %r" % (bad,)
        srcs = coq_sources()
        proj = ["-R . Verif", "-arg -w -arg " + COQ_WARN] + srcs
        projtxt = "\n".join(proj) + "\n"
        pj = os.path.join(COQ, "_CoqProject")
        old = open(pj).read() if os.path.exists(pj) else ""
        if old != projtxt or not os.path.exists(os.path.join(COQ, "Makefile")):
            with open(pj, "w") as fh:
                fh.write(projtxt)
            rc, out = sh("coq_makefile -f _CoqProject -o Makefile", cwd=COQ)
            if rc != 0:
                return False, out
        rc, out = sh("timeout 2400 make -j%d" % NCPU, cwd=COQ, timeout=2500)
        if verbose:
            print(out[-4000:])
        return rc == 0, out
    finally:
        fcntl.flock(lock, fcntl.LOCK_UN)
        lock.close()


def coqc(vfile, timeout=300, extra_R=None):
    """Compile one .v file (in a scratch dir) against the built development."""
    args = ["timeout", str(timeout), "coqc", "-R", COQ, "Verif", "-w", COQ_WARN]
    if extra_R:
        for d, name in extra_R:
            args += ["-Q", d, name]
    args.append(vfile)
    return sh(args, timeout=timeout + 30, cwd=os.path.dirname(vfile))


def check_props(prop_files, scratch):
    """Re-check the property files against the current model/proof .vo files.
    Returns (obligations, discharged, assumptions_text, errors)."""
    obligations = discharged = 0
    assumptions = {}
    errors = []
    for rel in prop_files:
        src = os.path.join(COQ, rel)
        txt = open(src).read()
        names = re.findall(r"^\s*(?:Theorem|Example)\s+(\w+)", txt, flags=re.M)
        obligations += len(names)
        dst = os.path.join(scratch, os.path.basename(rel))
        shutil.copy(src, dst)
        rc, out = coqc(dst)
        if rc != 0:
            errors.append({"file": rel, "output": out[-3000:]})
            continue
        discharged += len(names)
        # Print Assumptions output, in order of the Print commands
        printed = re.findall(r"^Print Assumptions (\w+)\.", txt, flags=re.M)
        blocks = re.split(r"(?m)^(?=Closed under the global context|Axioms:)", out)
        blocks = [b.strip() for b in blocks if b.strip().startswith(("Closed", "Axioms:"))]
        for nm, b in zip(printed, blocks):
            assumptions[nm] = b
    return obligations, discharged, assumptions, errors


# --------------------------------------------------------------------------- Gallina literals
def cq(x):
    """exact rational literal for a float / int / Fraction (a non-finite float becomes a sentinel no model produces)"""
    if isinstance(x, float) and (x != x or x in (float("inf"), float("-inf"))):
        return "(Qmake 123456789123456789 7)"
    fr = Fraction(x)
    return "(Qmake (%d) %d)" % (fr.numerator, fr.denominator)


def cz(n):
    return "(%d)%%Z" % int(n)


def cn(n):
    assert 0 <= int(n) < 5000
    return "%d%%nat" % int(n)


def cb(b):
    return "true" if b else "false"


def clist(items):
    return "[" + "; ".join(items) + "]"


def cvec(v):
    return clist([cq(x) for x in v])


def cmat(M):
    return clist([cvec(r) for r in M])


def cbnd(x):
    """bound literal: +-inf -> None"""
    x = float(x)
    if x in (float("inf"), float("-inf")):
        return "None"
    return "(Some %s)" % cq(x)


def cbnds(v):
    return clist([cbnd(x) for x in v])


def copt(x, f):
    return "None" if x is None else "(Some %s)" % f(x)


def cpair(a, b):
    return "(%s, %s)" % (a, b)


# --------------------------------------------------------------------------- running case files
def parse_nat_list(block):
    return [int(t) for t in re.findall(r"\d+", block.split(":")[0])]


def run_case_files(unit, header, case_terms, check_fn, tag_fn, scratch, shard=300, timeout=600):
    """Write the cases as Gallina lists, evaluate `failing check_fn cases` and `map tag_fn cases`
    inside Coq (vm_compute), return (failing global indices, tags, errors)."""
    files = []
    for k in range(0, len(case_terms), shard):
        part = case_terms[k:k + shard]
        name = "cases_%s_%d.v" % (unit, k // shard)
        path = os.path.join(scratch, name)
        with open(path, "w") as fh:
            fh.write(header + "\n")
            fh.write("Definition cases := [\n  " + ";\n  ".join(part) + "\n].\n")
            fh.write("Eval vm_compute in (failing %s cases).\n" % check_fn)
            fh.write("Eval vm_compute in (map %s cases).\n" % tag_fn)
        files.append((k, path))
    procs = []
    failing, tags, errors = [], [], []
    # run in parallel
    from concurrent.futures import ThreadPoolExecutor
    with ThreadPoolExecutor(max_workers=NCPU) as ex:
        results = list(ex.map(lambda kp: (kp[0], kp[1], coqc(kp[1], timeout=timeout)), files))
    for k, path, (rc, out) in results:
        if rc != 0:
            errors.append({"file": path, "output": out[-3000:]})
            continue
        blocks = re.split(r"(?m)^\s*= ", out)
        blocks = [b for b in blocks if b.strip()]
        if len(blocks) < 2:
            errors.append({"file": path, "output": out[-3000:]})
            continue
        failing += [k + i for i in parse_nat_list(blocks[0])]
        tags += parse_nat_list(blocks[1])
    return failing, tags, errors


def eval_bools(header, fn, terms, scratch, name="exactness"):
    """map a boolean model function over a few case terms; returns list of bools"""
    path = os.path.join(scratch, name + ".v")
    with open(path, "w") as fh:
        fh.write(header + "\nEval vm_compute in (map (fun c => if %s c then 1%%nat else 0%%nat) [\n%s\n]).\n"
                 % (fn, ";\n".join(terms)))
    rc, out = coqc(path)
    if rc != 0:
        return None
    blocks = [b for b in re.split(r"(?m)^\s*= ", out) if b.strip()]
    return [bool(v) for v in parse_nat_list(blocks[0])]


def eval_in_coq(header, term, scratch, name="probe"):
    """Evaluate one term with vm_compute and return Coq's printed answer (for replay files)."""
    path = os.path.join(scratch, name + ".v")
    with open(path, "w") as fh:
        fh.write(header + "\nEval vm_compute in (%s).\n" % term)
    rc, out = coqc(path)
    return out.strip()


# --------------------------------------------------------------------------- findings
def load_known():
    if not os.path.exists(KNOWN):
        return []
    with open(KNOWN) as fh:
        return json.load(fh)["findings"]


class Report:
    """Collects what a check run found and turns it into exit status, lines and evidence."""

    def __init__(self, prop, tier, seed):
        self.prop, self.tier, self.seed = prop, tier, seed
        self.t0 = time.time()
        self.problems = []        # unlisted violations
        self.known_hits = []      # (key, text)
        self.cov = {"obligations": 0, "discharged": 0, "evaluations": 0, "distinct_nontrivial": 0,
                    "samples": [], "units": {}, "oracle": {}, "print_assumptions": {},
                    "trusted_base": [], "rule": "", "checker_cmd": "", "known_findings_printed": []}
        self.assumptions = []
        self.known = [k for k in load_known() if k["property"] == prop]

    # a failure observed by an oracle or a correspondence unit, with a signature key
    def failure(self, key, text, replay):
        for k in self.known:
            if k.get("status") == "known" and re.fullmatch(k["key"], key):
                if (k["key"], k["what"]) not in self.known_hits:
                    self.known_hits.append((k["key"], k["what"]))
                return "known"
        self.problems.append({"key": key, "text": text, "replay": replay, "found_input": True})
        return "new"

    # a proof obligation / correspondence that no longer checks, with no failing input found
    def broken(self, key, text, detail):
        self.problems.append({"key": key, "text": text, "replay": detail, "found_input": False})

    def add_samples(self, xs, cap=6):
        for x in xs:
            if len(self.cov["samples"]) < cap:
                self.cov["samples"].append(x)

    def finish(self):
        wall = time.time() - self.t0
        os.makedirs(EVIDENCE, exist_ok=True)
        # if a concrete failing input exists, do not also report the inputless breakages
        concrete = [p for p in self.problems if p["found_input"]]
        shown = concrete if concrete else self.problems
        lines = []
        for key, what in self.known_hits:
            lines.append("KNOWN-FINDING: property=%s %s" % (self.prop, what))
            self.cov["known_findings_printed"].append(what)
        for p in shown:
            d = os.path.join(REPLAYS, self.prop)
            os.makedirs(d, exist_ok=True)
            body = json.dumps(p, sort_keys=True, default=str)
            h = hashlib.sha1(body.encode()).hexdigest()[:12]
            path = os.path.join(d, h + ".json")
            with open(path, "w") as fh:
                json.dump({"property": self.prop, "seed": self.seed, "tier": self.tier, **p}, fh,
                          indent=1, default=str)
            tail = "" if p["found_input"] else " no-failing-input-found"
            lines.append("VIOLATION property=%s replay=%s%s" % (self.prop, path, tail))
        ev = {
            "property_id": self.prop, "tier": self.tier, "seed": int(self.seed), "level": "proof",
            "coverage": self.cov, "assumptions": self.assumptions, "wall_s": round(wall, 2),
            "violations": len(shown),
        }
        with open(os.path.join(EVIDENCE, self.prop + ".json"), "w") as fh:
            json.dump(ev, fh, indent=1, default=str)
        for ln in lines:
            print(ln)
        print("[%s] tier=%s seed=%s obligations=%d discharged=%d evaluations=%d violations=%d wall=%.1fs"
              % (self.prop, self.tier, self.seed, self.cov["obligations"], self.cov["discharged"],
                 self.cov["evaluations"], len(shown), wall))
        return 1 if shown else 0


def scratch_dir():
    return tempfile.mkdtemp(prefix="verif_")


KERNEL_TB = [
    "Coq 8.16.1 kernel and its VM (vm_compute); native_compute not used",
    "hand-written Gallina models under /verif/coq/model, tied to /repo by the exact differential "
    "correspondence run of this check (harness/units/*.py: generators, drivers of the real pygradflow "
    "objects, float->Q literal printer, comparison evaluated inside Coq)",
    "numpy/scipy semantics of the primitives the models mirror (ldexp, frexp, clip, masks, sparse formats)",
]


# --------------------------------------------------------------------------- regenerated structural facts
def facts_obligations(rep, prop, scratch):
    """Regenerate Facts.v from /repo's working tree, compile it, and check the per-run obligations of `prop`
    (coq/factprops/Facts<prop>.v: `forallb classifier list = true` by vm_compute). Returns True if all hold."""
    from . import facts
    gen = os.path.join(scratch, "gen")
    os.makedirs(gen, exist_ok=True)
    t0 = time.time()
    try:
        out = facts.extract()
    except Exception as e:
        rep.cov["obligations"] += 1
        rep.broken("facts:extractor", "the fact extractor failed on the current source: %r" % (e,), {"error": repr(e)})
        return False
    facts.emit(out, os.path.join(gen, "Facts.v"))
    rep.cov.setdefault("facts", {})["records"] = {k: len(v) for k, v in out.items()}
    args = ["timeout", "300", "coqc", "-Q", gen, "Gen", "-R", COQ, "Verif", "-w", COQ_WARN]
    rc, o = sh(args + [os.path.join(gen, "Facts.v")], timeout=330, cwd=gen)
    if rc != 0:
        rep.cov["obligations"] += 1
        rep.broken("facts:compile", "the regenerated Facts.v does not compile", {"output": o[-2000:]})
        return False
    src = os.path.join(COQ, "factprops", "Facts%s.v" % prop)
    txt = open(src).read()
    names = re.findall(r"^\s*Theorem\s+(\w+)", txt, flags=re.M)
    rep.cov["obligations"] += len(names)
    dst = os.path.join(gen, "Facts%s.v" % prop)
    shutil.copy(src, dst)
    rc, o = sh(args + [dst], timeout=330, cwd=gen)
    rep.cov["facts"]["wall_s"] = round(time.time() - t0, 1)
    rep.cov["facts"]["obligation_theorems"] = names
    if rc == 0:
        rep.cov["discharged"] += len(names)
        return True
    # which theorem failed, and which records offend
    m = re.search(r'File "[^"]*", line (\d+)', o)
    failed = None
    if m:
        line = int(m.group(1))
        before = txt.splitlines()[:line]
        ths = [re.match(r"\s*Theorem\s+(\w+)", l) for l in before]
        ths = [t.group(1) for t in ths if t]
        failed = ths[-1] if ths else None
    off = os.path.join(gen, "Offenders.v")
    shutil.copy(os.path.join(COQ, "factprops", "Offenders.v"), off)
    rc2, o2 = sh(args + [off], timeout=330, cwd=gen)
    offenders = {}
    for blk in re.split(r"(?m)^\s*= ", o2):
        mm = re.match(r'\("(\w+)",\s*(.*?)\)\s*:\s', blk, flags=re.S)
        if mm and mm.group(2).strip() != "[]":
            offenders[mm.group(1)] = " ".join(mm.group(2).split())[:1500]
    rep.cov["discharged"] += max(0, len(names) - 1)
    rep.broken("facts:%s" % (failed or "obligation"),
               "structural obligation %s over the facts regenerated from /repo no longer holds" % (failed or "(unknown)"),
               {"kind": "facts", "theorem": failed, "offending_records": offenders, "coq_output": o[-1200:],
                "note": "theorem %s in coq/factprops/Facts%s.v (a vm_compute proof over the regenerated site inventory) fails" % (failed, prop)})
    return False
