"""Per-property campaigns of real solves (see campaign.py): case generators, oracles, corpus, replay."""
import collections
import json
import os

import numpy as np

from . import campaign as C
from .gen import Gen
from .qp import INF, Spec

from .common import VERIF
CORPUS = os.path.join(VERIF, "corpus")


def load_corpus(prop):
    p = os.path.join(CORPUS, prop + ".json")
    if not os.path.exists(p):
        return []
    with open(p) as fh:
        return json.load(fh)


def report(rep, prop, name, results):
    """results: list of (case, key or None, message or None, summary)"""
    hist = collections.Counter()
    nontriv = 0
    seen = set()
    for case, key, msg, summ in results:
        hist[summ] += 1
        h = json.dumps(case, sort_keys=True, default=str)
        if h not in seen:
            seen.add(h)
            if not summ.startswith("trivial"):
                nontriv += 1
        if msg:
            rep.failure("%s:%s" % (name, key), msg, {"kind": "campaign", "campaign": name, "property": prop, "case": case, "what": msg})
    rep.cov["oracle"][name] = {"solves": len(results), "outcomes": dict(sorted(hist.items())),
                               "note": "real solves checked against the property text by an independent oracle: search for "
                                       "failing inputs and validation of the models against unmodelled glue, not the proof"}
    rep.cov["evaluations"] += len(results)
    rep.cov["distinct_nontrivial"] += nontriv
    if results:
        c0 = results[0][0]
        rep.add_samples([{"campaign": name, "case": {k: c0[k] for k in c0 if k in ("family", "cfg", "sc", "x0", "faults", "deadline_at", "variant")}}])


def keyof(msg):
    return (msg or "").split(":")[0]


# ------------------------------------------------------------------------------------------------ single-run oracles
SINGLE = {
    "C01": lambda case, rec: C.oracle_C01(case, rec),
    "C02": lambda case, rec: C.oracle_C02(case, rec),
    "C05": lambda case, rec: C.oracle_C05(case, rec),
    "C06": lambda case, rec: C.oracle_C06(case, rec) or C.oracle_C05(case, rec) and None,
    "C12": lambda case, rec: C.oracle_C12(case, rec),
    "C15": lambda case, rec: (lambda m: m if m and m.startswith("C15") else None)(C.oracle_C15_C16(case, rec)) or exact_residual(case, rec),
    "C16": lambda case, rec: (lambda m: m if m and m.startswith("C16") else None)(C.oracle_C15_C16(case, rec)),
}


def c06_key(case, rec, msg):
    """signature of a crash, for the known-findings file"""
    if rec.get("kind") == "crash":
        trials = rec.get("trials") or []
        lr = rec.get("last_rho", 0.0)
        if case["cfg"].get("penalty_update") in ("ObjectiveFilter", "LagrangianFilter") and (not np.isfinite(lr) or lr > 1e300):
            return "crash_filter_rho_overflow"
        if case["cfg"].get("precision") == "Single" and rec.get("exc") == "AssertionError" and "project_box" in (rec.get("frame") or ""):
            return "crash_single_precision_bound"
        return "crash_%s_%s" % (rec.get("exc"), (rec.get("frame") or "").split(":")[-1])
    return keyof(msg)


def summary(case, rec):
    return "%s/%s" % (case.get("family", "?"), rec.get("status") or rec.get("kind"))


def exact_residual(case, rec, newton_tol=1e-8):
    """C15: with exact step control every accepted iterate solves the implicit-Euler equation to the Newton
    tolerance: recomputed from the internal problem's callbacks with dense numpy"""
    if case["cfg"].get("step_control_type") != "Exact" or "_solver" not in rec:
        return None
    prob = rec["_solver"].problem
    n = prob.num_vars
    lb, ub = prob.var_lb, prob.var_ub
    for k, t in enumerate(rec["trials"]):
        if not t["acc"]:
            continue
        z, zn = np.array(t["z"]), np.array(t["zn"])
        xh, yh, x, y = z[:n], z[n:], zn[:n], zn[n:]
        g = np.asarray(prob.obj_grad(x), dtype=float)
        m = len(y)
        c = np.asarray(prob.cons(x), dtype=float) if m else np.zeros(0)
        J = prob.cons_jac(x).toarray() if m else np.zeros((0, n))
        gl = g + J.T.dot(y + t["rho"] * c)
        p = xh - t["dt"] * gl
        act = (p < lb - 1e-8) | (p > ub + 1e-8)
        proj = np.where(act, np.minimum(np.maximum(p, lb), ub), p)
        F = np.concatenate([x - proj, y - (yh + t["dt"] * c)])
        nrm = float(np.linalg.norm(F))
        scale = 1.0 + float(np.linalg.norm(np.concatenate([xh, yh, t["dt"] * gl])))
        # the code tested the residual in its working precision; this one is recomputed in binary64
        unit = 1e-13 if case["cfg"].get("precision") != "Single" else 5e-7
        if nrm > newton_tol * 1.001 + unit * scale:
            return "C15:exact_accept: trial %d accepted with implicit-Euler residual %.3e > newton_tol" % (k, nrm)
        if np.any(x < lb) or np.any(x > ub):
            return "C15:accepted_in_box: accepted step %d left the box" % k
    return None


def run_single(rep, prop, tier, seed, n_quick, n_thorough, allow=None, families=None, extra_cases=(), name=None, scaling=True):
    g = Gen(seed + 17)
    name = name or "solves"
    results = []
    cases = [dict(c) for c in load_corpus(prop) if c.get("campaign", "solves") == name]
    cases += list(extra_cases)
    N = n_thorough if tier == "thorough" else n_quick
    for _ in range(N):
        fam = g.rng.choice(families) if families else None
        cases.append(C.gen_case(g, fam, allow, scaling))
    for case in cases:
        rec = C.run(case, keep=(prop == "C15"))
        msg = SINGLE[prop](case, rec)
        key = c06_key(case, rec, msg) if prop == "C06" else keyof(msg).replace("C15:", "").replace("C16:", "")
        if msg and prop in ("C15", "C16"):
            key = msg.split(":")[1]
        results.append((case, key, msg, summary(case, rec)))
    report(rep, prop, name, results)


def run_reuse_C12(rep, tier, seed):
    """C12 on a second solve with the same Solver object (a recorder registered after the first solve must be told about
    every step of the second), and in single precision (model times are binary64 sums of the step sizes there too)"""
    g = Gen(seed + 1212)
    results = []
    for k in range(24 if tier == "thorough" else 8):
        case = C.gen_case(g, "convex_qp", {"iteration_limit": 40, "collect_path": True}, scaling=(k % 2 == 0))
        if k % 2 == 1:
            case["cfg"]["precision"] = "Single"
        if k % 4 == 2:
            case["cfg"]["iteration_limit"] = 0          # the run ends where it starts
        ref = C.run(case, keep=True)
        msg = C.oracle_C12(case, ref)
        results.append((dict(case, variant="first"), keyof(msg), msg, "first/%s" % (ref.get("status") or ref.get("kind"))))
        if ref.get("_solver") is not None and ref.get("kind") == "status":
            again = C.run(case, solver_obj=ref["_solver"])
            msg = C.oracle_C12(case, again)
            if msg:
                msg = "second solve on the same Solver object: " + msg
            results.append((dict(case, variant="second"), keyof(msg), msg, "second/%s" % (again.get("status") or again.get("kind"))))
    report(rep, "C12", "reuse_and_single", results)


def run_exact_near_optimum(rep, tier, seed):
    """C12 with the exact controller and a loose Newton tolerance: trials that start with a residual already within the
    tolerance (near the optimum) are trials like any other"""
    g = Gen(seed + 1213)
    results = []
    for k in range(24 if tier == "thorough" else 8):
        case = C.gen_case(g, "convex_qp", {"iteration_limit": 60, "collect_path": True, "step_control_type": "Exact",
                                           "newton_tol": g.rng.choice([1e-2, 1e-1, 1.0]), "lamb_init": g.rng.choice([1.0, 1e3, 1e6])},
                          scaling=False)
        rec = C.run(case)
        msg = C.oracle_C12(case, rec)
        results.append((case, keyof(msg), msg, "exact/%s" % (rec.get("status") or rec.get("kind"))))
    report(rep, "C12", "exact_near_optimum", results)


def run_default_start(rep, tier, seed):
    """C05 when the caller gives no start: the default start is the projection of 0 onto the box, not 0"""
    g = Gen(seed + 55)
    results = []
    for k in range(40 if tier == "thorough" else 10):
        case = C.gen_case(g, "convex_qp", {"iteration_limit": 30}, scaling=False)
        if k % 2 == 1:
            spec = Spec.from_json(case["spec"])        # ... also under a (custom power-of-two) scaling
            case["sc"] = {"kind": "custom", "vw": g.weights(spec.n, 3), "cw": g.weights(spec.m, 3), "ow": g.rng.randint(-2, 2)}
        case["x0"], case["y0"] = None, None
        rec = C.run(case)
        msg = C.oracle_C05(case, rec)
        results.append((case, keyof(msg), msg, "default_start/%s" % (rec.get("status") or rec.get("kind"))))
    report(rep, "C05", "default_start", results)


def run_input_forms(rep, tier, seed):
    """C06 on the forms of input the interface accepts besides the canonical one: enum options given by member name,
    a scalar y0.  The solve must end the way the canonical form does (same status, same point, same trial steps)."""
    g = Gen(seed + 77)
    results = []
    for k in range(32 if tier == "thorough" else 8):
        case = C.gen_case(g, "convex_qp", {"iteration_limit": 25})
        spec = Spec.from_json(case["spec"])
        case["y0"] = [g.rng.choice([0.0, 0.5, -1.0])] * spec.m
        ref = C.run(case)
        for forms in ({"enum_names": True}, {"y0_scalar": True}):
            c2 = copy_case(case)
            c2["forms"] = forms
            rec = C.run(c2)
            msg = C.oracle_C06(c2, rec)
            if msg is None and ref.get("kind") == "status":
                d = C.same_run(ref, rec)
                if d:
                    msg = "forms: %s given in another accepted form changes the solve: %s" % (sorted(forms)[0], d)
            results.append((c2, keyof(msg), msg, "forms/%s/%s" % (sorted(forms)[0], rec.get("status") or rec.get("kind"))))
    report(rep, "C06", "input_forms", results)


def run_integration(rep, tier, seed):
    """C01 also speaks about the flow-integration solver: its Optimal results are checked by the same KKT oracle.
    (The integration solver is outside the theorems; runs that crash in its own consistency assertions or exceed the
    time box are skipped and counted.)"""
    import signal
    from .timebox import TimeBox

    from .timebox import alarm_handler as handler

    g = Gen(seed + 101)
    results = []
    skipped = collections.Counter()
    N = 90 if tier == "thorough" else 30
    old = signal.signal(signal.SIGALRM, handler)
    try:
        for k, case0 in enumerate(load_corpus("C01_integration") + [None] * N):
            case = case0 or C.gen_case(g, "convex_qp", None, scaling=False)
            case["integration"] = True
            if case0 is None:
                case["cfg"] = {"iteration_limit": 100, "rho": g.rng.choice([1e-2, 1.0]) if k < 14 else g.rng.choice([1e-2, 1.0, 100.0])}
            signal.alarm(6)
            try:
                rec = C.run(case)
            except TimeBox:
                skipped["time_box"] += 1
                continue
            finally:
                signal.setitimer(signal.ITIMER_REAL, 0)
            if rec.get("kind") != "status":
                skipped[rec.get("kind")] += 1
                continue
            msg = C.oracle_C01(case, rec)
            results.append((case, keyof(msg), msg, "integration/%s" % rec.get("status")))
    finally:
        signal.signal(signal.SIGALRM, old)
    report(rep, "C01", "integration_solver", results)
    rep.cov["oracle"]["integration_solver"]["skipped"] = dict(skipped)


def run_integration_C02(rep, tier, seed):
    """C02's status clauses on the flow-integration solver (outside the theorems): Unbounded only at a point that is
    feasible to tolerance with the objective at or below the limit; LocallyInfeasible only at an infeasible point."""
    import signal
    from .timebox import TimeBox

    from .timebox import alarm_handler as handler

    g = Gen(seed + 202)
    results = []
    skipped = collections.Counter()
    N = 40 if tier == "thorough" else 8
    old = signal.signal(signal.SIGALRM, handler)
    try:
        for k in range(N):
            fam = ["unbounded_cons", "unbounded_cons", "unbounded", "infeasible"][k % 4]
            case = C.gen_case(g, fam, None, scaling=False)
            case["integration"] = True
            case["x0"] = [0.0] * len(case["x0"]) if fam == "unbounded_cons" else case["x0"]
            case["y0"] = [0.0] * len(case["y0"])
            case["cfg"] = {"iteration_limit": 60, "rho": g.rng.choice([1e-2, 1.0])}
            if fam == "unbounded_cons":
                case["cfg"]["obj_lower_limit"] = case["spec"]["cl"][0] / 2.0
            signal.alarm(8)
            try:
                rec = C.run(case)
            except TimeBox:
                skipped["time_box"] += 1
                continue
            finally:
                signal.setitimer(signal.ITIMER_REAL, 0)
            if rec.get("kind") != "status":
                skipped[rec.get("kind")] += 1
                continue
            msg = C.oracle_C02(case, rec, counters=False)
            results.append((case, keyof(msg), msg, "integration/%s/%s" % (fam, rec.get("status"))))
    finally:
        signal.signal(signal.SIGALRM, old)
    report(rep, "C02", "integration_solver", results)
    rep.cov["oracle"]["integration_solver"]["skipped"] = dict(skipped)


def replay(prop, path):
    with open(path) as fh:
        d = json.load(fh)
    r = d.get("replay", {})
    print(json.dumps(d, indent=1, default=str)[:3000])
    if r.get("kind") != "campaign":
        return 0
    name = r["campaign"]
    case = r["case"]
    fn = REPLAYERS.get((prop, name)) or REPLAYERS.get((prop, None))
    if fn is None:
        return 0
    msg = fn(case)
    print("replayed on the current tree:", msg or "property holds on this input")
    return 1 if msg else 0


# ------------------------------------------------------------------------------------------------ C07: faults
def gen_fault_cases(g, tier):
    r = g.rng
    cases = []
    N = 90 if tier == "thorough" else 24
    for i in range(N):
        base = C.gen_case(g, r.choice(["convex_qp", "convex_qp", "nonlinear"]),
                          {"iteration_limit": 80, "penalty_update": ["Constant", "DualNorm"],
                           "linear_solver_type": ["LU", "LU", "GMRES"]})
        if base["cfg"]["linear_solver_type"] == "MINRES":
            base["cfg"]["linear_solver_type"] = "LU"
        ref = C.run(base)
        ne = ref["evals_by_name"]
        kind = r.choice(["eval", "eval", "linear", "region", "start"])
        case = dict(base)
        if kind == "eval":
            nm = r.choice([k for k in ne if ne[k] > 1] or ["obj"])
            case["faults"] = {"eval": {"name": nm, "k": r.randint(3, max(3, ne.get(nm, 3)))}}
        elif kind == "start":
            if case["sc"]["kind"] not in ("none", "custom"):      # automatic scalings evaluate in the constructor first
                case["sc"] = {"kind": "none"}
            nm = r.choice(["obj", "obj_grad", "cons", "cons_jac", "lag_hess"])
            if base["spec"]["cl"] == [] and nm in ("cons", "cons_jac"):
                nm = "obj"
            case["faults"] = {"eval": {"name": nm, "k": 1}}
        elif kind == "linear":
            nt = max(1, len(ref["trials"]))
            case["faults"] = {"linear": {r.choice(["fact", "solve"]): r.randint(1, nt + 1)}}
        else:
            x0 = base["x0"][0]
            sgn = r.choice([-1, 1])
            case["faults"] = {"region": {"name": r.choice(["obj", "obj_grad", "lag_hess"]), "var": 0, "sign": sgn,
                                         "thr": x0 + sgn * r.choice([0.25, 0.5, 1.0])}}
        case["variant"] = kind
        cases.append(case)
    # targeted: a failing factorisation / back-solve for every step solver, with and without the condition estimate
    # (whose own back-solves follow the step's solve)
    for ss in ("Standard", "Extended", "Symmetric", "Asymmetric"):
        for what in (("fact", r.randint(1, 3)), ("solve", r.randint(1, 2)), ("solve", r.randint(2, 9))):
            base = C.gen_case(g, "convex_qp", {"iteration_limit": 30, "penalty_update": "DualNorm", "linear_solver_type": "LU",
                                               "step_solver_type": ss, "report_rcond": what[0] == "solve" and what[1] >= 2,
                                               "newton_type": ["Simplified", "Full", "ActiveSet"]}, scaling=False)
            base["faults"] = {"linear": {what[0]: what[1]}}
            base["variant"] = "linear"
            cases.append(base)
    # targeted: the SECOND Newton solve of a trial fails (the ratio controllers take two Newton steps per trial)
    for sct in ("DistanceRatio", "DistanceRatio", "ResiduumRatio"):
        base = C.gen_case(g, "convex_qp", {"iteration_limit": 30, "penalty_update": "DualNorm", "linear_solver_type": "LU",
                                           "step_control_type": sct, "report_rcond": False}, scaling=False)
        base["faults"] = {"linear": {"solve": r.choice([2, 2, 4])}}
        base["variant"] = "linear"
        cases.append(base)
    # targeted: each callback failing at the starting point (the Hessian's only evaluation there is the problem statistics)
    for nm in ("obj", "obj_grad", "cons", "cons_jac", "lag_hess", "lag_hess"):
        # (convex_qp: the Hessian certainly has stored entries; nonlinear: the constraint callbacks do)
        base = C.gen_case(g, "convex_qp" if nm in ("lag_hess", "obj", "obj_grad") else "nonlinear", {"iteration_limit": 20}, scaling=False)
        if nm in ("cons", "cons_jac"):
            # rows of every kind, an inequality row (a slack, whose start value is computed from c(x0)) among them
            sp_ = C.convex_qp(g, n=2, m=2, kinds=["lower", "range", "upper"])
            sp_.A = [[[0.0, 0.0], [0.0, 2.0]], [[0.0, 0.0], [0.0, 0.0]]]
            base["spec"] = sp_.to_json()
            base["x0"] = g.point_in_box(sp_.lb, sp_.ub)
            base["y0"] = [0.0, 0.0]
        base["faults"] = {"eval": {"name": nm, "k": 1}}
        base["variant"] = "start"
        cases.append(base)
    # ... also with the derivative check switched on (it runs after the start has been validated)
    for nm in ("obj", "obj_grad"):
        base = C.gen_case(g, "convex_qp", {"iteration_limit": 20, "deriv_check": "CheckAll"}, scaling=False)
        base["faults"] = {"eval": {"name": nm, "k": 1}}
        base["variant"] = "start"
        cases.append(base)
    # ... and the Hessian at the start of a problem WITHOUT constraints (the statistics take another path there)
    for _ in range(2):
        base = C.gen_case(g, "convex_qp", {"iteration_limit": 20}, scaling=False)
        sp_ = C.convex_qp(g, m=0)
        base["spec"] = sp_.to_json()
        base["x0"] = g.point_in_box(sp_.lb, sp_.ub)
        base["y0"] = []
        base["faults"] = {"eval": {"name": "lag_hess", "k": 1}}
        base["variant"] = "start"
        cases.append(base)
    return cases


def oracle_C07(case, rec):
    k = rec.get("kind")
    f = case.get("faults") or {}
    if k == "crash":
        return "crash: %s escaped solve() under an injected fault: %s [%s]" % (rec.get("exc"), rec.get("msg"), rec.get("frame"))
    if k == "construct_error":
        return None
    if case.get("variant") == "start":
        nm = f["eval"]["name"]
        if rec.get("faults_applied") == 0:
            return None           # nothing could be poisoned (e.g. a Jacobian / Hessian without stored entries)
        # the first evaluation of each callback happens at the starting point (or at the scaling point before it)
        if k not in ("init_error",) and case["sc"]["kind"] in ("none", "custom"):
            if not (nm == "lag_hess" and k in ("status", "lambda_error") and False):
                return "start: a failure of %s at the starting point ended as %s, not as the initial-point error" % (nm, k)
        return None
    if k == "init_error" and case["sc"]["kind"] in ("none", "custom") and not f.get("region") and f.get("eval", {}).get("k", 0) >= 3:
        return "start: a failure after the starting point was reported as the initial-point error"
    if k == "status":
        for nm in ("x", "y", "d"):
            if not np.all(np.isfinite(np.array(rec[nm], dtype=float))):
                return "nonfinite: result.%s is not finite after an injected fault" % nm
        rg = f.get("region")
        if rg and rg["name"] != "lag_hess":       # check_eval covers objective, gradient, constraints, Jacobian
            x = rec["x"][rg.get("var", 0)]
            if x * rg["sign"] > rg["thr"] * rg["sign"] and case["sc"]["kind"] in ("none", "custom"):
                return "accepted_bad_point: the returned x lies in the region where %s cannot be evaluated" % rg["name"]
            for t in rec["trials"]:
                pass
        if rec["status"] == "Optimal" and not rg:
            m = C.oracle_C01(case, rec)
            if m:
                return "optimal_despite_faults: " + m
    for i, t in enumerate(rec.get("trials", [])):
        if not t["acc"] and t["lamb"] <= 1.0 / t["dt"]:
            return "fail_doubles: trial %d not accepted but lambda did not increase" % i
    for i in rec.get("linear_fault_trials", []):
        # the factorisation / back-solve of one of this trial's Newton steps raised: whatever else the trial computed, its
        # result is not a step (back-solves of the condition estimator are exempt: they are not part of the step)
        if i < len(rec.get("trials", [])) and rec["trials"][i]["acc"] and not case["cfg"].get("report_rcond"):
            return "accepted_failed_trial: trial %d was accepted although a linear solve of it failed" % i
    return None


def run_C07(rep, tier, seed):
    g = Gen(seed + 7)
    results = []
    for case in load_corpus("C07") + gen_fault_cases(g, tier):
        rec = C.run(case)
        msg = oracle_C07(case, rec)
        results.append((case, keyof(msg), msg, "%s/%s" % (case.get("variant"), rec.get("status") or rec.get("kind"))))
    report(rep, "C07", "faults", results)


# ------------------------------------------------------------------------------------------------ C08: prefixes
def run_C08(rep, tier, seed):
    g = Gen(seed + 8)
    r = g.rng
    results = []
    N = 10 if tier == "thorough" else 3
    for i in range(N):
        base = C.gen_case(g, r.choice(["convex_qp", "nonlinear"]),
                          {"iteration_limit": 40, "step_control_type": ["Exact", "DistanceRatio", "Exact"],
                           "penalty_update": ["DualNorm", "ObjectiveFilter", "Constant"], "collect_path": True})
        base["virtual_clock"] = True
        ref = C.run(base)
        if ref.get("kind") != "status":
            continue
        nat = ref["iters"]
        ks = list(range(0, nat + 1)) if tier == "thorough" or nat <= 12 else sorted(set([0, 1, 2, nat - 1, nat] + [r.randint(0, nat) for _ in range(6)]))
        for k in ks:
            case = copy_case(base)
            case["cfg"]["iteration_limit"] = k
            case["variant"] = "limit=%d" % k
            rec = C.run(case)
            msg = prefix_oracle(ref, rec, k, None)
            results.append((case, keyof(msg), msg, "limit/%s" % (rec.get("status") or rec.get("kind"))))
        reads = ref["reads"]
        js = list(range(2, reads)) if tier == "thorough" else sorted(set([2, 3, 4, reads - 2, reads - 1] + [r.randint(2, reads - 1) for _ in range(10)]))
        for j in js:
            case = copy_case(base)
            case["cfg"]["time_limit"] = 1.0
            case["deadline_at"] = j
            case["variant"] = "deadline_at_read=%d" % j
            rec = C.run(case)
            msg = prefix_oracle(ref, rec, None, j)
            key = keyof(msg)
            if msg and rec.get("kind") == "lambda_error":
                key = "deadline_lambda_error"
            results.append((case, key, msg, "deadline/%s" % (rec.get("status") or rec.get("kind"))))
    for c in load_corpus("C08"):
        ref = C.run(dict(c["base"], virtual_clock=True))
        case = copy_case(c["base"])
        case["cfg"]["time_limit"] = 1.0
        case["deadline_at"] = c["deadline_at"]
        case["variant"] = "corpus deadline_at_read=%d" % c["deadline_at"]
        rec = C.run(case)
        msg = prefix_oracle(ref, rec, None, c["deadline_at"])
        key = "deadline_lambda_error" if msg and rec.get("kind") == "lambda_error" else keyof(msg)
        results.append((case, key, msg, "deadline/%s" % (rec.get("status") or rec.get("kind"))))
    report(rep, "C08", "prefix", results)


def copy_case(c):
    return json.loads(json.dumps(c))


def prefix_oracle(ref, rec, k, j):
    """the limited run's trial steps are a prefix of the reference run's, and its result is the state the reference
    run had there"""
    if rec.get("kind") == "crash":
        return "crash: %s [%s]" % (rec.get("msg"), rec.get("frame"))
    if rec.get("kind") == "lambda_error" and j is not None:
        return "deadline_lambda_error: the deadline expired inside a trial, the doubled lambda reached lamb_max and solve raised instead of returning TimeLimit"
    if rec.get("kind") != "status":
        return "outcome: limited run ended as %s (%s)" % (rec.get("kind"), rec.get("msg"))
    tr, tl = ref["trials"], rec["trials"]
    full = [(t["z"], t["rho"], t["dt"], t["zn"], t["lamb"], t["acc"]) for t in tr]
    lim = [(t["z"], t["rho"], t["dt"], t["zn"], t["lamb"], t["acc"]) for t in tl]
    if k is not None:
        if rec["iters"] != min(k, ref["iters"]):
            return "iterations: limit %d gave %d iterations (natural length %d)" % (k, rec["iters"], ref["iters"])
        want = "IterationLimit" if k <= ref["iters"] and not (k == ref["iters"] and False) else ref["status"]
        if k < ref["iters"] and rec["status"] != "IterationLimit":
            return "status: limit %d < natural length but status %s" % (k, rec["status"])
        if lim != full[:len(lim)]:
            return "prefix: the trial steps of the run limited to %d iterations are not a prefix of the unlimited run's" % k
        n = len(lim)
    else:
        if rec["status"] not in ("TimeLimit", ref["status"]):
            return "status: deadline at read %d gave status %s" % (j, rec["status"])
        # an abandoned trial (deadline inside the Newton loop) shows up as one extra, not accepted, unchanged trial
        n = len(lim)
        if n and lim[:n] != full[:n]:
            last = tl[-1]
            if not (lim[:n - 1] == full[:n - 1] and not last["acc"] and last["zn"] == last["z"]):
                return "prefix: the trial steps up to the deadline (read %d) differ from the reference run's" % j
            n -= 1
    # state after n trials of the reference run
    cur = tr[0]["z"] if tr else None
    nacc = 0
    for i in range(n):
        nxt = tr[i + 1]["i"] if i + 1 < len(tr) else None
        if (nxt is not None and nxt != tr[i]["i"]) or (nxt is None and tr[i]["acc"] and ref["nacc"] == nacc + 1):
            cur = tr[i]["zn"]
            nacc += 1
    if rec["nacc"] != nacc:
        return "counters: stopped run reports %d accepted steps, the reference run had %d at that point" % (rec["nacc"], nacc)
    if tl or tr:
        fin = rec["path"][-1] if rec.get("path") else None
        if fin is not None and cur is not None and fin != cur:
            return "leak: the stopped run's final point is not the last iterate accepted before the stop"
        if rec.get("path") is not None and ref.get("path") is not None and rec["path"] != ref["path"][:len(rec["path"])]:
            return "path: the stopped run's path is not a prefix of the reference path"
    return None


# ------------------------------------------------------------------------------------------------ C09: observers
def run_C09(rep, tier, seed):
    g = Gen(seed + 9)
    r = g.rng
    results = []
    N = 40 if tier == "thorough" else 10
    # targeted bases: the Hessian cannot be evaluated at the start (its only evaluation there is the problem statistics);
    # a back-solve of the condition estimator fails (every step solver); both must play out the same whatever is observed
    targeted = []
    tb = C.gen_case(g, "nonlinear", {"iteration_limit": 20, "report_rcond": False, "collect_path": False}, scaling=False)
    tb["faults"] = {"eval": {"name": "lag_hess", "k": 1}}
    targeted.append(tb)
    for ss in ("Standard", "Extended", "Symmetric", "Asymmetric"):
        tb = C.gen_case(g, "convex_qp", {"iteration_limit": 25, "report_rcond": False, "collect_path": False,
                                         "step_solver_type": ss, "linear_solver_type": "LU"}, scaling=False)
        tb["faults"] = {"linear": {"estimator_solve": r.randint(1, 6)}}
        targeted.append(tb)
    # a Newton matrix whose condition number is beyond 1/eps: the estimate is tiny, the step is as good as ever
    tb = C.gen_case(g, "ill_conditioned", {"iteration_limit": 40, "report_rcond": False, "collect_path": False,
                                           "step_solver_type": ["Standard", "Extended", "Symmetric", "Asymmetric"],
                                           "linear_solver_type": "LU", "penalty_update": "Constant"}, scaling=False)
    tb["x0"] = [0.0, 0.0]
    targeted.append(tb)
    for tb in targeted:
        tb["obs"] = {"log_level": "ERROR", "display_interval": 1e9, "callbacks": False, "collect_path": False, "report_rcond": False}
        tb["targeted"] = True
    for case0 in load_corpus("C09") + targeted + [None] * N:
        base = case0 or C.gen_case(g, None, {"iteration_limit": 60, "report_rcond": False, "collect_path": False})
        base.setdefault("obs", {"log_level": "ERROR", "display_interval": INF, "callbacks": False, "collect_path": False, "report_rcond": False})
        if case0 is None:
            base["obs"] = {"log_level": "ERROR", "display_interval": 1e9, "callbacks": False, "collect_path": False, "report_rcond": False}
            if r.random() < 0.4:
                # an objective that cannot be evaluated beyond a threshold (a function of the point only, so that twins see
                # the same failures): trial points in the region are rejected, silently, whatever is displayed
                j = r.randrange(len(base["x0"]))
                sgn = r.choice([-1.0, 1.0])
                base["faults"] = {"region": {"name": r.choice(["obj", "*", "*"]), "var": j, "sign": sgn,
                                             "thr": base["x0"][j] + sgn * r.choice([0.25, 1.0, 4.0])}}
        ref = C.run(base)
        variants = [{"log_level": "DEBUG", "display_interval": 0.0}, {"log_level": "INFO", "display_interval": 0.0, "callbacks": True},
                    {"log_level": "WARNING", "display_interval": 0.0, "collect_path": True},
                    {"log_level": "DEBUG", "display_interval": 1e9, "report_rcond": True, "callbacks": True},
                    {"log_level": "ERROR", "display_interval": 0.0, "report_rcond": True, "collect_path": True}]
        for v in (variants if tier == "thorough" or case0 is not None else r.sample(variants, 3)):
            case = copy_case(base)
            case["obs"] = dict(base["obs"], **v)
            case["variant"] = json.dumps(v, sort_keys=True)
            rec = C.run(case)
            msg = C.same_run(ref, rec)
            if msg:
                msg = "perturbed: observers %s changed the computation: %s" % (case["variant"], msg)
            key = keyof(msg)
            if msg and rec.get("kind") == "crash":
                key = "crash_%s_%s" % (rec.get("exc"), (rec.get("frame") or "").split(":")[-1])
            results.append((case, key, msg, "%s/%s" % (case["family"], rec.get("status") or rec.get("kind"))))
    # a displayed row of a trial the CONTROLLER rejected (not a failed one) must not evaluate anything at the trial
    # point: objective not evaluable beyond a threshold (derivatives fine), large first steps; quiet run vs every row shown
    for i in range(90 if tier == "thorough" else 30):
        tb = C.gen_case(g, r.choice(["convex_qp", "convex_qp", "nonlinear"]),
                        {"iteration_limit": 40, "report_rcond": False, "collect_path": False,
                         "lamb_init": r.choice([1e-3, 1e-2, 1e-1]), "step_control_type": ["DistanceRatio", "ResiduumRatio"]},
                        scaling=False)
        j = r.randrange(len(tb["x0"]))
        sgn = r.choice([-1.0, 1.0])
        tb["faults"] = {"region": {"name": "obj", "var": j, "sign": sgn, "thr": tb["x0"][j] + sgn * r.choice([0.25, 1.0])}}
        tb["obs"] = {"log_level": "ERROR", "display_interval": 1e9, "callbacks": False, "collect_path": False, "report_rcond": False}
        ref = C.run(tb)
        case = copy_case(tb)
        case["obs"] = dict(tb["obs"], display_interval=0.0, log_level="INFO")
        case["variant"] = "rows_of_rejected_trials"
        rec = C.run(case)
        msg = C.same_run(ref, rec)
        if msg:
            msg = "perturbed: displaying every row changed the computation: %s" % msg
        key = keyof(msg)
        if msg and rec.get("kind") == "crash":
            key = "crash_%s_%s" % (rec.get("exc"), (rec.get("frame") or "").split(":")[-1])
        results.append((case, key, msg, "rejected_rows/%s" % (rec.get("status") or rec.get("kind"))))
    report(rep, "C09", "observer_twins", results)


# ------------------------------------------------------------------------------------------------ C10: histories
def run_C10(rep, tier, seed):
    from pygradflow.solver import Solver
    g = Gen(seed + 10)
    r = g.rng
    results = []
    N = 30 if tier == "thorough" else 8
    for i in range(N):
        allow = {"iteration_limit": 50}
        case = C.gen_case(g, None, allow)
        if r.random() < 0.5:
            case["cfg"]["penalty_update"] = r.choice(["ObjectiveFilter", "LagrangianFilter", "DualNorm"])
        if i % 3 == 0:
            case["cfg"].update(penalty_update="DualNorm", rho=1e-8)      # a policy with state of its own, and room to grow
        ref = C.run(case, keep=True)
        solver = ref["_solver"]
        if ref.get("params_mutated"):
            msg = "params: solve() wrote into the Params object it was given (fields %s): the next solve with it is a different computation" \
                  % ",".join(ref["params_mutated"])
            results.append((dict(case, variant="params"), keyof(msg), msg, "params/%s" % (ref.get("status") or ref.get("kind"))))
        # (a) the same solver object again
        again = C.run(case, solver_obj=solver)
        msg = C.same_run(ref, again, what=("kind", "status", "x", "y", "d", "iters", "nacc", "msg"))
        if msg:
            msg = "reuse: a second solve on the same solver object differs: " + msg
        results.append((dict(case, variant="same_solver_twice"), keyof(msg), msg, "reuse/%s" % (ref.get("status") or ref.get("kind"))))
        # (b) a fresh solver after other solves (other problems / params, incl. failing ones) in the same process
        for _ in range(r.randint(1, 3)):
            other = C.gen_case(g, None, {"iteration_limit": 15})
            if r.random() < 0.3:
                other["faults"] = {"eval": {"name": "obj", "k": 3}}
            C.run(other)
        fresh = C.run(case)
        msg = C.same_run(ref, fresh)
        if msg:
            msg = "history: a fresh solver after other solves differs: " + msg
        results.append((dict(case, variant="fresh_after_others"), keyof(msg), msg, "history/%s" % (ref.get("status") or ref.get("kind"))))
        # (c) perform_iteration on the same solver first, then solve
        try:
            solver2 = C.run(case, keep=True)["_solver"]
            solver2.perform_iteration(np.array(case["x0"]), np.array(case["y0"]))
            after = C.run(case, solver_obj=solver2)
            msg = C.same_run(ref, after, what=("kind", "status", "x", "y", "d", "iters", "nacc", "msg"))
            if msg:
                msg = "reuse: solve after perform_iteration on the same solver differs: " + msg
        except Exception as e:
            msg = None
        results.append((dict(case, variant="after_perform_iteration"), keyof(msg), msg, "reuse2/%s" % (ref.get("status") or ref.get("kind"))))
    # (d) a Params object that was used by an earlier solver and then edited by its owner must act like a fresh
    #     Params with the same field values (nothing derived from the old values may survive in it)
    from pygradflow import params as PM
    import logging
    from pygradflow.log import logger
    for i in range(N // 2):
        case = C.gen_case(g, "convex_qp", {"iteration_limit": 30}, scaling=False)
        spec = Spec.from_json(case["spec"])
        edits = {"precision": PM.Precision.Single, "rho": 0.5, "newton_type": PM.NewtonType.Full,
                 "step_solver_type": PM.StepSolverType.Standard, "linear_solver_type": PM.LinearSolverType.LU}
        lvl = logger.level
        logger.setLevel(logging.ERROR)
        try:
            def solve(params):
                prob = C.QuadProblem(spec, fmt=case["prob"]["fmt"])
                try:
                    res = Solver(prob, params).solve(np.array(case["x0"], dtype=float), np.array(case["y0"], dtype=float))
                    return (res.status.name, [float(v) for v in res.x], [float(v) for v in res.y], int(res.iterations))
                except Exception as e:
                    return ("raised", type(e).__name__, str(e)[:80])
            used, _ = C.make_params(case["cfg"], None, spec, case["x0"], case["y0"])
            solve(used)
            for k, v in edits.items():
                setattr(used, k, v)
            a = solve(used)
            fresh, _ = C.make_params(case["cfg"], None, spec, case["x0"], case["y0"])
            for k, v in edits.items():
                setattr(fresh, k, v)
            b = solve(fresh)
        finally:
            logger.setLevel(lvl)
        msg = None
        if a != b:
            msg = "params_reuse: a Params object used by an earlier solve and then edited gives %r, a fresh one with the same fields %r" % (a, b)
        results.append((dict(case, variant="edited_params"), keyof(msg), msg, "edited_params/%s" % a[0]))
    # (e) a problem object that an earlier Solver scaled automatically at another point carries nothing over
    for i in range(N // 2):
        case = C.gen_case(g, "convex_qp", {"iteration_limit": 30}, scaling=False)
        spec = Spec.from_json(case["spec"])
        if spec.m == 0:
            continue
        for i_ in range(spec.m):                   # curved rows: Jacobian and Hessian depend on the point
            spec.A[i_][0][0] = 1.0
        case["spec"] = spec.to_json()
        kind = ["KKT", "GradJac", "KKT", "Nominal"][i % 4]
        x0 = np.array(case["x0"], dtype=float)
        y0 = np.array(case["y0"], dtype=float)
        other = x0 * 1024.0 + 512.0               # far away: other magnitudes, other scaling
        lvl = logger.level
        logger.setLevel(logging.ERROR)
        try:
            def solve_with(prob, point):
                params, _ = C.make_params(case["cfg"], {"kind": kind}, spec, list(point), list(y0 * 1024.0 + 512.0 if point is other else y0))
                try:
                    s_ = Solver(prob, params)
                    res = s_.solve(x0, y0)
                    sc_ = s_.transform.scaling
                    return (res.status.name, [float(v) for v in res.x], int(res.iterations),
                            None if sc_ is None else [int(v) for v in sc_.var_weights] + [int(v) for v in sc_.cons_weights])
                except Exception as e:
                    return ("raised", type(e).__name__, str(e)[:80])
            shared = C.QuadProblem(spec, fmt=case["prob"]["fmt"])
            solve_with(shared, other)
            a = solve_with(shared, x0)
            b = solve_with(C.QuadProblem(spec, fmt=case["prob"]["fmt"]), x0)
        finally:
            logger.setLevel(lvl)
        msg = None
        if a != b:
            msg = "problem_reuse: a problem object used before by a solver with another %s scaling point gives %r, a fresh one %r" % (kind, a, b)
        results.append((dict(case, variant="scaled_elsewhere_before"), keyof(msg), msg, "problem_reuse/%s" % a[0]))
    report(rep, "C10", "histories", results)


# ------------------------------------------------------------------------------------------------ C11: caller-owned data
def snapshot(prob, x0, y0, scal):
    snap = {"x0": x0.tobytes(), "y0": y0.tobytes(), "lb": prob.var_lb.tobytes(), "ub": prob.var_ub.tobytes(),
            "cl": prob.cons_lb.tobytes(), "cu": prob.cons_ub.tobytes()}
    if scal is not None:
        snap["vw"] = scal.var_weights.tobytes()
        snap["cw"] = scal.cons_weights.tobytes()
    return snap


def memo_values(prob):
    out = {}
    for k, v in prob._memo.items():
        key = repr(k[0]) + repr(k[1:])[:40] + str(hash(k))
        if hasattr(v, "toarray"):
            out[key] = (v.format, v.toarray().tobytes(), v.data.tobytes())
        else:
            out[key] = np.asarray(v).tobytes()
    return out


def run_C11(rep, tier, seed):
    from pygradflow.solver import Solver
    g = Gen(seed + 11)
    r = g.rng
    results = []
    N = 40 if tier == "thorough" else 12
    # the layers that copy (scaling, slack reformulation) shield the caller's objects: one direct case (no scaling,
    # equality rows only) per step solver x matrix format, with the very same J / H object returned on every call
    direct = []
    for ss in ("Standard", "Extended", "Symmetric", "Asymmetric"):
        for fmt in ("coo", "csr", "csc"):
            spec = C.convex_qp(g, m=r.randint(0, 2), kinds=["eq", "eq0"])
            x0 = g.point_in_box(spec.lb, spec.ub)
            cfg = C.gen_config(g, {"iteration_limit": 25, "step_solver_type": ss, "linear_solver_type": "LU"})
            direct.append({"family": "convex_qp", "spec": spec.to_json(), "sc": {"kind": "none"}, "cfg": cfg, "x0": x0,
                           "y0": [0.0] * spec.m, "prob": {"fmt": fmt, "policy": "cached"}, "direct": True})
    for case0 in load_corpus("C11") + direct + [None] * N:
        case = case0 or C.gen_case(g, r.choice(["convex_qp", "convex_qp", "nonlinear"]), {"iteration_limit": 40})
        if case0 is None:
            case["prob"] = {"fmt": r.choice(["coo", "csr", "csc"]), "policy": r.choice(["memo", "memo", "cached"])}
            if case["prob"]["policy"] == "cached" and case["family"] != "convex_qp":
                case["prob"]["policy"] = "memo"
        fresh_case = copy_case(case)
        fresh_case["prob"]["policy"] = "fresh"
        ref = C.run(fresh_case)
        # reference values of the memoised callback results: evaluate a twin problem at the same points, untouched
        rec = C.run(case, keep=True)
        prob = rec["_prob"]
        msg = C.same_run(ref, rec)
        if rec.get("params_mutated"):
            msg = "inputs_modified: solve() wrote into the caller's Params (fields %s)" % ",".join(rec["params_mutated"])
        elif msg:
            msg = "cached_differs: a problem returning %s objects (%s) gives a different result than one returning fresh copies: %s" \
                  % (case["prob"]["policy"], case["prob"]["fmt"], msg)
        if not msg:
            # every memoised object must still hold the value the callback computes for its point
            twin = C.QuadProblem(Spec.from_json(case["spec"]), fmt=case["prob"]["fmt"], policy="fresh")
            for k, v in prob._memo.items():
                if case["prob"]["policy"] == "cached":
                    continue
                name = k[0]
                x = np.frombuffer(k[1], dtype=float)
                y = None if k[2] is None else np.frombuffer(k[2], dtype=float)
                want = {"g": lambda: twin.obj_grad(x), "c": lambda: twin.cons(x), "J": lambda: twin.cons_jac(x),
                        "H": lambda: twin.lag_hess(x, y)}[name]()
                a = v.toarray() if hasattr(v, "toarray") else np.asarray(v)
                b = want.toarray() if hasattr(want, "toarray") else np.asarray(want)
                if a.shape != b.shape or a.tobytes() != b.tobytes():
                    msg = "modified: the %s object returned by the callback at %r was modified by the solve" % (name, x.tolist())
                    break
        results.append((case, keyof(msg), msg, "%s/%s/%s" % (case["prob"]["policy"], case["prob"]["fmt"], rec.get("status") or rec.get("kind"))))
    # caller-owned inputs: x0, y0, bounds, scaling weights
    for i in range(N // 2):
        case = C.gen_case(g, None, {"iteration_limit": 30})
        spec = Spec.from_json(case["spec"])
        prob = C.QuadProblem(spec, fmt=case["prob"]["fmt"])
        x0 = np.array(case["x0"], dtype=float)
        y0 = np.array(case["y0"], dtype=float)
        params, scal = C.make_params(case["cfg"], case["sc"], spec, case["x0"], case["y0"])
        before = snapshot(prob, x0, y0, scal)
        import logging
        from pygradflow.log import logger
        lvl = logger.level
        logger.setLevel(logging.ERROR)
        try:
            try:
                Solver(prob, params).solve(x0, y0)
            except Exception:
                pass
        finally:
            logger.setLevel(lvl)
        after = snapshot(prob, x0, y0, scal)
        bad = [k for k in before if before[k] != after[k]]
        msg = ("inputs_modified: solve changed the caller's %s" % ",".join(bad)) if bad else None
        if not msg and (not x0.flags.writeable or not y0.flags.writeable):
            msg = "inputs_modified: solve left the caller's x0 / y0 read-only"
        results.append((dict(case, variant="inputs"), keyof(msg), msg, "inputs/%s" % case["family"]))
    report(rep, "C11", "caller_owned", results)


REPLAYERS = {}


def _single_replayer(prop):
    def f(case):
        rec = C.run(case, keep=(prop == "C15"))
        return SINGLE[prop](case, rec)
    return f


for _p in SINGLE:
    REPLAYERS[(_p, None)] = _single_replayer(_p)
REPLAYERS[("C07", "faults")] = lambda case: oracle_C07(case, C.run(case))
