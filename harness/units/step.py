"""Units implicit / newton: ImplicitFunc, ScaledImplicitFunc, the four step solvers and the Newton variants
(with the linear solver replaced by a recorder that returns a scripted vector) against Implicit.v / StepSolvers.v."""
import sys

sys.path.insert(0, __import__("os").environ.get("VERIF_REPO", "/repo"))
import numpy as np

from ..common import cq, cb, cn, clist, cvec, cmat, copt
from ..qp import QuadProblem, Spec, INF
from ..unit import Unit
from .numeric import csc, gen_scaling, internal_point, make_params, fl, dense

KINDS = ["Standard", "Extended", "Symmetric", "Asymmetric"]
NKINDS = ["Simplified", "Full", "ActiveSet"]


def build(case, record=None, **kw):
    from pygradflow.iterate import Iterate
    from pygradflow.params import Params
    from pygradflow.transform import Transformation
    spec = Spec.from_json(case["spec"])
    prob = QuadProblem(spec, fmt=case.get("fmt", "coo"), record=record)
    if case.get("active_tol") is not None:
        kw = dict(kw, active_tol=case["active_tol"])      # a tolerance of the KKT bookkeeping, not of the projection
    if case["trans"]:
        params = make_params(case["sc"], **kw)
        problem = Transformation(prob, params).trans_problem
    else:
        params = Params(**kw)
        problem = prob
    return spec, problem, params


def gen_base(g, nmax=3, mmax=2):
    r = g.rng
    spec = g.spec(nmax=nmax, mmax=mmax)
    trans = r.random() < 0.5
    sc = gen_scaling(g, spec) if trans else None
    if trans:
        xh = internal_point(g, spec, sc, style="box")
        x = internal_point(g, spec, sc, style="any")
    else:
        xh = g.point_in_box(spec.lb, spec.ub)
        x = g.point_any(spec.lb, spec.ub)
    yh = g.vec(spec.m, kmax=6, jmax=1)
    y = g.vec(spec.m, kmax=6, jmax=1)
    # (lambda, rho) with 1 + lambda*rho a power of two, so that fact = 1/(1+lambda rho) is exact
    lam = r.choice([1.0, 1.0, 2.0, 0.5, 4.0])
    rho = (2.0 ** r.randint(1, 3) - 1.0) / lam
    return spec, trans, sc, xh, yh, x, y, 1.0 / lam, rho


class Implicit(Unit):
    name = "implicit"
    header = "From Verif Require Import CorrStep."
    check_fn = "check_implicit"
    tag_fn = "tag_implicit"
    exact_fn = "exact_implicit"
    shard = 60

    def gen(self, g, tier):
        cases = []
        for k in range(1500 if tier == "thorough" else 240):
            spec, trans, sc, xh, yh, x, y, dt, rho = gen_base(g, nmax=4 if tier == "thorough" else 3, mmax=3)
            nv = len(xh)
            if g.rng.random() < 0.3:     # iterate == orig iterate (first Newton step)
                x, y = list(xh), list(yh)
            # larger steps so that the projection really leaves the box
            if g.rng.random() < 0.5:
                dt = dt * 4.0
            tau = g.rng.choice([None, None, 0.5, 1.0, 2.0])
            act = [g.rng.random() < 0.4 for _ in range(nv)]
            cases.append({"spec": spec.to_json(), "sc": sc, "trans": trans, "xh": xh, "yh": yh, "dt": dt, "rho": rho,
                          "x": x, "y": y, "tau": tau, "act": act, "fmt": g.rng.choice(["coo", "csr", "csc"]),
                          "active_tol": g.rng.choice([None, None, 0.5, 1.0]), "warm": k % 2 == 1})
        return cases

    def impl(self, case):
        from pygradflow.implicit_func import ImplicitFunc, ScaledImplicitFunc
        from pygradflow.iterate import Iterate
        spec, problem, params = build(case)
        orig = Iterate(problem, params, np.array(case["xh"]), np.array(case["yh"]))
        it = Iterate(problem, params, np.array(case["x"]), np.array(case["y"]))
        f = ImplicitFunc(problem, orig, case["dt"])
        sf = ScaledImplicitFunc(problem, orig, case["dt"])
        act = np.array(case["act"], dtype=bool)
        rho = case["rho"]
        bl = lambda a: [bool(b) for b in a]
        if case.get("warm"):
            # the same function objects have already been used at another point (the Newton loop and the line search
            # do exactly that): what they return depends on the point asked for, not on the history
            for fn in (f, sf):
                fn.compute_active_set(orig, rho, case["tau"])
                fn.compute_active_set(orig, rho)
                fn.value_at(orig, rho)
                fn.deriv_at(orig, rho)
        return {"active": bl(f.compute_active_set(it, rho, case["tau"])),
                "sactive": bl(sf.compute_active_set(it, rho, case["tau"])),
                "value": fl(f.value_at(it, rho, act)), "svalue": fl(sf.value_at(it, rho, act)),
                "value_auto": fl(f.value_at(it, rho)),
                "deriv": dense(f.deriv_at(it, rho, act)), "sderiv": dense(sf.deriv_at(it, rho, act))}

    def term(self, case, r):
        spec = Spec.from_json(case["spec"])
        if "exc" in r:
            r = {"active": [], "sactive": [], "value": [12345.0], "svalue": [], "value_auto": [], "deriv": [], "sderiv": []}
        bl = lambda m: clist([cb(b) for b in m])
        return ("(mk_fcase %s %s %s %s %s %s %s %s %s %s %s %s %s %s %s %s %s %s)"
                % (spec.to_coq(), csc(case["sc"]), cb(case["trans"]), cvec(case["xh"]), cvec(case["yh"]),
                   cq(case["dt"]), cq(case["rho"]), cvec(case["x"]), cvec(case["y"]), copt(case["tau"], cq),
                   bl(case["act"]), bl(r["active"]), bl(r["sactive"]), cvec(r["value"]), cvec(r["svalue"]),
                   cvec(r["value_auto"]), cmat(r["deriv"]), cmat(r["sderiv"])))

    def tag_name(self, t):
        return "clipped=%s,given_active=%s" % ("0" if t % 100 == 0 else ">0", "0" if t // 100 == 0 else ">0")

    def nontrivial(self, case, r, t):
        return t is not None and t > 0

    def oracle(self, case, r):
        """the definitions of C13, written densely from the mathematics"""
        if "exc" in r:
            return "implicit function raised %s: %s" % (r["exc"], r.get("msg"))
        spec, problem, params = build(case)
        x, y = np.array(case["x"]), np.array(case["y"])
        xh, yh = np.array(case["xh"]), np.array(case["yh"])
        dt, rho = case["dt"], case["rho"]
        lam = 1.0 / dt
        n, m = len(x), len(y)
        lb, ub = problem.var_lb, problem.var_ub
        g = np.asarray(problem.obj_grad(x), dtype=float)
        c = np.asarray(problem.cons(x), dtype=float) if m else np.zeros(0)
        J = problem.cons_jac(x).toarray() if m else np.zeros((0, n))
        gl = g + J.T.dot(y + rho * c)
        H = problem.lag_hess(x, y + rho * c).toarray() + rho * J.T.dot(J)
        act = np.array(case["act"], dtype=bool)
        bad = []
        p = xh - dt * gl
        proj = np.where(act, np.minimum(np.maximum(p, lb), ub), p)
        F = np.concatenate([x - proj, y - (yh + dt * c)])
        if list(F) != r["value"]:
            bad.append("value_at")
        if np.any((proj[act] < lb[act]) | (proj[act] > ub[act])):
            bad.append("projection leaves the box")
        ps = lam * xh - gl
        projs = np.where(act, np.minimum(np.maximum(ps, lam * lb), lam * ub), ps)
        Fs = np.concatenate([lam * x - projs, -(lam * y - (lam * yh + c))])
        if list(Fs) != r["svalue"]:
            bad.append("scaled value_at")
        D = np.zeros((n + m, n + m))
        Ds = np.zeros((n + m, n + m))
        for j in range(n):
            D[j, j] = 1.0
            Ds[j, j] = lam
            if not act[j]:
                D[j, :n] += dt * H[j]
                D[j, n:] = dt * J[:, j]
                Ds[j, :n] += H[j]
                Ds[j, n:] = J[:, j]
        for i in range(m):
            D[n + i, :n] = -dt * J[i]
            D[n + i, n + i] = 1.0
            Ds[n + i, :n] = -J[i]
            Ds[n + i, n + i] = lam
        if D.tolist() != r["deriv"]:
            bad.append("deriv")
        if Ds.tolist() != r["sderiv"]:
            bad.append("scaled deriv")
        if bad:
            return "implicit-Euler residual function differs from its definition: " + ",".join(bad)
        return None

    def key(self, case, r):
        return "implicit:definitions"


class Recorder:
    """stands for pygradflow.linear_solver.linear_solver: records the matrix, answers with a script vector"""

    def __init__(self):
        self.mats = []
        self.rhss = []
        self.sol = None

    def __call__(self, mat, solver_type, symmetric=False):
        rec = self
        M = np.asarray(mat.toarray(), dtype=float)
        rec.mats.append(M.tolist())

        class S:
            def solve(self, rhs, trans=False, initial_sol=None):
                rec.rhss.append([float(v) for v in rhs])
                rec.last_M = M.tolist()
                return np.array(rec.sol[:len(rhs)], dtype=float)

            def num_neg_eigvals(self):
                return None

        return S()


class Newton(Unit):
    name = "newton"
    header = "From Verif Require Import CorrStep."
    check_fn = "check_newton"
    tag_fn = "tag_newton"
    exact_fn = "exact_newton"
    shard = 40

    def gen(self, g, tier):
        cases = []
        r = g.rng
        for k in range(1600 if tier == "thorough" else 320):
            spec, trans, sc, xh, yh, x, y, dt, rho = gen_base(g, nmax=3, mmax=2)
            if r.random() < 0.4:
                dt = dt * 4.0
                rho = rho * 4.0
            if not trans and spec.m > 0 and r.random() < 0.15:
                # the Jacobian vanishes at the start of the step (B_i = -A_i xh) while c(xh) does not: no stored
                # entries, but the multiplier shift rho c still enters the Hessian
                spec.B = [[-sum(a * v for a, v in zip(row, xh)) for row in Ai] for Ai in spec.A]
            kind = k % 4
            nk = r.randint(0, 2)
            tau = r.choice([None, None, None, 0.5, 1.0])
            nsteps = r.choice([1, 2, 3])
            nv = len(xh)
            sols = [g.vec(nv + spec.m, kmax=8, jmax=1) for _ in range(nsteps)]
            cases.append({"spec": spec.to_json(), "sc": sc, "trans": trans, "xh": xh, "yh": yh, "dt": dt, "rho": rho,
                          "kind": kind, "nk": nk, "tau": tau, "sols": sols, "fmt": r.choice(["coo", "csr", "csc"])})
        return cases

    def impl(self, case):
        import pygradflow.linear_solver as LS
        from pygradflow.iterate import Iterate
        from pygradflow.newton import newton_method
        from pygradflow.params import NewtonType, StepSolverType
        spec, problem, params = build(case, newton_type=NewtonType[NKINDS[case["nk"]]],
                                      step_solver_type=StepSolverType[KINDS[case["kind"]]])
        rec = Recorder()
        old = LS.linear_solver
        LS.linear_solver = rec
        try:
            orig = Iterate(problem, params, np.array(case["xh"]), np.array(case["yh"]))
            method = newton_method(problem, params, orig, case["dt"], case["rho"], case["tau"])
            cur = orig
            steps = []
            for sol in case["sols"]:
                rec.sol = sol
                res = method.step(cur)
                nxt = res.iterate
                steps.append({"M": rec.last_M, "rhs": rec.rhss[-1], "dx": fl(res.dx), "dy": fl(res.dy),
                              "xn": fl(nxt.x), "yn": fl(nxt.y)})
                cur = nxt
            return {"steps": steps}
        finally:
            LS.linear_solver = old

    def term(self, case, r):
        spec = Spec.from_json(case["spec"])
        steps = r.get("steps", [{"M": [], "rhs": [12345.0], "dx": [], "dy": [], "xn": [], "yn": []}])
        st = clist(["(%s, %s, (%s, %s, %s, %s))" % (cmat(s["M"]), cvec(s["rhs"]), cvec(s["dx"]), cvec(s["dy"]),
                                                  cvec(s["xn"]), cvec(s["yn"])) for s in steps])
        return ("(mk_ncase %s %s %s %s %s %s %s %s %s %s %s %s)"
                % (spec.to_coq(), csc(case["sc"]), cb(case["trans"]), cvec(case["xh"]), cvec(case["yh"]),
                   cq(case["dt"]), cq(case["rho"]), cn(case["kind"]), cn(case["nk"]), copt(case["tau"], cq),
                   clist([cvec(s) for s in case["sols"]]), st))

    def tag_name(self, t):
        return "%s,%s,active=%s,clipped=%s" % (KINDS[t % 10], NKINDS[(t // 10) % 10],
                                               "0" if (t // 100) % 100 == 0 else ">0", "0" if t // 10000 == 0 else ">0")

    def nontrivial(self, case, r, t):
        return t is not None and (t // 100) > 0

    def oracle(self, case, r):
        """C14 / C05 on what the implementation did: the system assembled is equivalent to the standard Newton
        system (a dense numpy solve of both gives the same step) and the new point is in the box"""
        if "exc" in r:
            return "step solver raised %s: %s" % (r["exc"], r.get("msg"))
        spec, problem, params = build(case)
        lb, ub = problem.var_lb, problem.var_ub
        for k, s in enumerate(r["steps"]):
            xn = np.array(s["xn"])
            if np.any(xn < lb) or np.any(xn > ub):
                return "box: StepResult put the new point outside the box at step %d" % k
        msg = dense_first_step(case, r, problem)
        return msg


class GNewton(Unit):
    """newton_method(...) with NewtonType.Globalized (Armijo line search) against LineSearch.v"""
    name = "gnewton"
    header = "From Verif Require Import CorrSearch."
    check_fn = "check_gnewton"
    tag_fn = "tag_gnewton"
    exact_fn = "exact_gnewton"
    shard = 30

    def gen(self, g, tier):
        cases = []
        r = g.rng
        for k in range(800 if tier == "thorough" else 200):
            spec, trans, sc, xh, yh, x, y, dt, rho = gen_base(g, nmax=3, mmax=2)
            if r.random() < 0.4:
                dt = dt * 4.0
                rho = rho * 4.0
            kind = k % 4
            tau = r.choice([None, None, None, 0.5, 1.0])
            nv = len(xh)
            style = r.random()
            # after a step that was halved many times the next point has many bits, and the model's unreduced fractions
            # make a further step cost minutes: the very long directions are single steps
            nsteps = 1 if 0.25 <= style < 0.4 else r.choice([1, 1, 2, 3])
            sols = []
            for _ in range(nsteps):
                s = g.vec(nv + spec.m, kmax=8, jmax=1)
                if style < 0.15:                # long directions: the search has to backtrack
                    s = [8.0 * v for v in s]
                elif style < 0.4 and style >= 0.25:   # very long ones: accepted only after 10 to 20 halvings
                    s = [2.0 ** r.randint(9, 18) * v for v in s]
                elif style < 0.25:              # no direction at all: accepted at once with ip = 0
                    s = [0.0 for _ in s]
                sols.append(s)
            tol = r.choice([1e-8, 1e-8, 1e-8, 2.0 ** -6, 1.0, 16.0])
            case = {"spec": spec.to_json(), "sc": sc, "trans": trans, "xh": xh, "yh": yh, "dt": dt, "rho": rho,
                    "kind": kind, "tau": tau, "tol": tol, "sols": sols, "fmt": r.choice(["coo", "csr", "csc"])}
            if r.random() < 0.2:
                # ties with newton_tol: the tolerance is the merit at the start, or at the point a first run accepts
                # (the probe only chooses an input; what is compared is the run on that input)
                m = self.probe(dict(case, tol=1e-8))
                if m:
                    case["tol"] = r.choice(m)
            cases.append(case)
        return cases

    def probe(self, case):
        try:
            r = self.impl(case, merits=True)
            return [v for v in r.get("merits", []) if v == v and 0.0 < v < 1e6]
        except Exception:
            return []

    def impl(self, case, merits=False):
        import pygradflow.linear_solver as LS
        from pygradflow.iterate import Iterate
        from pygradflow.newton import newton_method
        from pygradflow.params import NewtonType, StepSolverType
        pts = []
        spec, problem, params = build(case, record=lambda what, x: pts.append((what, x)),
                                      newton_type=NewtonType.Globalized, newton_tol=case["tol"],
                                      step_solver_type=StepSolverType[KINDS[case["kind"]]])
        ulb, uub = np.array(spec.lb, dtype=float), np.array(spec.ub, dtype=float)
        rec = Recorder()
        old = LS.linear_solver
        LS.linear_solver = rec
        try:
            orig = Iterate(problem, params, np.array(case["xh"]), np.array(case["yh"]))
            method = newton_method(problem, params, orig, case["dt"], case["rho"], case["tau"])
            cur = orig
            steps = []
            seen = []
            if merits:          # probe: the merit values the search looks at (start and every trial)
                inner = method.func.value_at

                def value_at(it, rho, active_set=None):
                    F = inner(it, rho, active_set)
                    if active_set is None:
                        seen.append(float(0.5 * np.dot(F, F)))
                    return F
                method.func.value_at = value_at
            for sol in case["sols"]:
                rec.sol = sol
                nsolves = len(rec.rhss)
                try:
                    res = method.step(cur)
                except Exception as e:
                    if "Line search failed" not in str(e) or len(rec.rhss) != nsolves + 1:
                        raise
                    steps.append({"M": rec.last_M, "rhs": rec.rhss[-1], "raised": True})
                    break
                nxt = res.iterate
                steps.append({"M": rec.last_M, "rhs": rec.rhss[-1], "dx": fl(res.dx), "dy": fl(res.dy),
                              "xn": fl(nxt.x), "yn": fl(nxt.y), "solves": len(rec.rhss) - nsolves})
                cur = nxt
            outside = [(what, fl(x)) for what, x in pts if np.any(x < ulb) or np.any(x > uub)]
            out = {"steps": steps, "evals": len(pts), "outside": outside[:1]}
            if merits:
                out["merits"] = seen
            return out
        finally:
            LS.linear_solver = old

    def term(self, case, r):
        spec = Spec.from_json(case["spec"])
        steps = r.get("steps", [{"M": [], "rhs": [12345.0], "raised": True}])

        def one(s):
            if s.get("raised"):
                return "(%s, %s, None)" % (cmat(s["M"]), cvec(s["rhs"]))
            return "(%s, %s, Some (%s, %s, %s, %s))" % (cmat(s["M"]), cvec(s["rhs"]), cvec(s["dx"]), cvec(s["dy"]),
                                                        cvec(s["xn"]), cvec(s["yn"]))
        return ("(mk_gcase %s %s %s %s %s %s %s %s %s %s %s %s)"
                % (spec.to_coq(), csc(case["sc"]), cb(case["trans"]), cvec(case["xh"]), cvec(case["yh"]),
                   cq(case["dt"]), cq(case["rho"]), cn(case["kind"]), copt(case["tau"], cq), cq(case["tol"]),
                   clist([cvec(s) for s in case["sols"]]), clist([one(s) for s in steps])))

    def tag_name(self, t):
        trials = (t // 10) % 10
        return "%s,%s" % (KINDS[t % 10], "raised" if t >= 100 else
                          ("early_return" if trials == 0 else "trials=%s" % (str(trials) if trials < 9 else ">=9")))

    def nontrivial(self, case, r, t):
        return t is not None and (t // 10) % 10 >= 2

    def oracle(self, case, r):
        """C05 on what the implementation did: every point the step hands on is in the box, and the linear solver
        is asked exactly once per step"""
        if "exc" in r:
            return "globalized step raised %s: %s" % (r["exc"], r.get("msg"))
        if r.get("outside"):
            return "evaluated: the user's %s was evaluated at %s, outside the variable bounds" % tuple(r["outside"][0])
        spec, problem, params = build(case)
        lb, ub = problem.var_lb, problem.var_ub
        for k, s in enumerate(r["steps"]):
            if s.get("raised"):
                continue
            xn = np.array(s["xn"])
            if np.any(xn < lb) or np.any(xn > ub):
                return "box: the globalized step put the new point outside the box at step %d" % k
            if s["solves"] != 1:
                return "solves: the globalized step asked the linear solver %d times in step %d" % (s["solves"], k)
        return None

    def key(self, case, r):
        return "gnewton:" + (self.oracle(case, r) or "mismatch").split(":")[0]


def dense_first_step(case, r, problem):
    """first step (iterate = orig iterate, tau None): solve the captured system densely, post-process it the way the
    step solver does, and compare with the dense semismooth Newton step F'_A(z) s = F(z) of the definitions"""
    if case["tau"] is not None or not r["steps"]:
        return None
    xh, yh = np.array(case["xh"]), np.array(case["yh"])
    dt, rho = case["dt"], case["rho"]
    lam = 1.0 / dt
    n, m = len(xh), len(yh)
    lb, ub = problem.var_lb, problem.var_ub
    g = np.asarray(problem.obj_grad(xh), dtype=float)
    c = np.asarray(problem.cons(xh), dtype=float) if m else np.zeros(0)
    J = problem.cons_jac(xh).toarray() if m else np.zeros((0, n))
    gl = g + J.T.dot(yh + rho * c)
    H = problem.lag_hess(xh, yh + rho * c).toarray() + rho * J.T.dot(J)
    p = xh - dt * gl
    act = (p < lb - 1e-8) | (p > ub + 1e-8)
    proj = np.where(act, np.minimum(np.maximum(p, lb), ub), p)
    F = np.concatenate([xh - proj, -dt * c])
    D = np.eye(n + m)
    for j in range(n):
        if not act[j]:
            D[j, :n] += dt * H[j]
            D[j, n:] = dt * J[:, j]
    for i in range(m):
        D[n + i, :n] = -dt * J[i]
    s0 = r["steps"][0]
    M = np.array(s0["M"], dtype=float)
    b = np.array(s0["rhs"], dtype=float)
    if M.shape[0] != len(b) or M.shape[0] == 0:
        return None
    if abs(np.linalg.det(D)) < 1e-9 or abs(np.linalg.det(M)) < 1e-9:
        return None
    ref = np.linalg.solve(D, F)
    sol = np.linalg.solve(M, b)
    fact = 1.0 / (1.0 + lam * rho)
    b2 = c                                # scaled y-residual at the start of the step
    kind = case["kind"]
    if kind == 0:
        dx, dy = sol[:n], sol[n:]
    elif kind in (1, 3):
        dx, dy = sol[:n], fact * (sol[n:] - rho * b2)
    else:
        ni = int(np.sum(~act))
        ps = lam * xh - gl
        rx = lam * xh - np.where(act, np.minimum(np.maximum(ps, lam * lb), lam * ub), ps)
        dx = np.zeros(n)
        dx[~act] = sol[:ni]
        dx[act] = dt * rx[act]
        dy = fact * (sol[ni:] - rho * b2)
    got = np.concatenate([dx, dy])
    if not np.allclose(got, ref, rtol=1e-7, atol=1e-9):
        return ("newton_step: the %s step solver's system gives the step %s, the dense Newton step of the definitions is %s"
                % (KINDS[kind], got.tolist(), ref.tolist()))
    return None


def _newton_key(self, case, r):
    return "newton:" + (self.oracle(case, r) or "mismatch").split(":")[0]


Newton.key = _newton_key


# ---------------------------------------------------------------------------------------------- C14 stated directly
def cross_solver_oracle(rep, tier, seed):
    """C14 as the property states it, on the real code with its real LU solver: for the same problem, point, dt, rho, tau
    and Newton variant, the four step solvers produce the same iterates over three Newton steps, and the three Newton
    variants produce the same first step.  A search for failing inputs (tolerance 1e-7 relative on well-conditioned
    systems), not the proof."""
    import collections
    import pygradflow.linear_solver as LS
    from pygradflow.iterate import Iterate
    from pygradflow.newton import newton_method
    from pygradflow.params import NewtonType, StepSolverType
    from ..gen import Gen
    g = Gen(seed + 1414)
    r = g.rng
    stats = collections.Counter()
    N = 600 if tier == "thorough" else 180

    def run_one(case, kind, nk, conds):
        spec, problem, params = build(case, newton_type=NewtonType[NKINDS[nk]], step_solver_type=StepSolverType[KINDS[kind]])
        old = LS.linear_solver

        def spy(mat, solver_type, symmetric=False):
            try:
                conds.append(float(np.linalg.cond(mat.toarray())) if mat.shape[0] else 1.0)
            except Exception:
                conds.append(float("inf"))
            return old(mat, solver_type, symmetric=symmetric)
        LS.linear_solver = spy
        try:
            orig = Iterate(problem, params, np.array(case["xh"]), np.array(case["yh"]))
            method = newton_method(problem, params, orig, case["dt"], case["rho"], case["tau"])
            cur, out = orig, []
            for _ in range(3):
                cur = method.step(cur).iterate
                out.append(np.concatenate([cur.x, cur.y]))
            return out
        finally:
            LS.linear_solver = old

    def differ(a, b):
        return not np.allclose(a, b, rtol=1e-7, atol=1e-7 * (1.0 + float(np.max(np.abs(a))) if len(a) else 1.0))

    import json as _json
    import os as _os
    from .. import common as _common
    cpath = _os.path.join(_common.VERIF, "corpus", "cross_solver.json")
    corpus = _json.load(open(cpath)) if _os.path.exists(cpath) else []
    for k in range(len(corpus) + N):
        if k < len(corpus):
            case = {kk: vv for kk, vv in corpus[k].items() if kk != "note"}
        else:
            spec, trans, sc, xh, yh, x, y, dt, rho = gen_base(g, nmax=3, mmax=2)
            if r.random() < 0.6:
                f_ = r.choice([4.0, 16.0, 64.0])     # long steps: the active set changes from one Newton iterate to the next
                dt, rho = dt * f_, rho * f_
            case = {"spec": spec.to_json(), "sc": sc, "trans": trans, "xh": xh, "yh": yh, "dt": dt, "rho": rho,
                    "tau": r.choice([None, None, 0.5, 1.0]), "fmt": r.choice(["coo", "csr", "csc"])}
        runs, conds = {}, []
        try:
            for nk in range(3):
                for kind in range(4):
                    runs[(nk, kind)] = run_one(case, kind, nk, conds)
        except Exception as e:
            stats["skipped_" + type(e).__name__] += 1
            continue
        if not conds or max(conds) > 1e6 or not all(np.all(np.isfinite(z)) for zs in runs.values() for z in zs):
            stats["skipped_ill_conditioned"] += 1
            continue
        stats["compared"] += 1
        msg = None
        for nk in range(3):
            for kind in range(1, 4):
                for st in range(3):
                    if msg is None and differ(runs[(nk, 0)][st], runs[(nk, kind)][st]):
                        msg = ("kinds: with NewtonType.%s the %s step solver's iterate after Newton step %d differs from the Standard one: %r vs %r"
                               % (NKINDS[nk], KINDS[kind], st + 1, runs[(nk, kind)][st].tolist(), runs[(nk, 0)][st].tolist()))
        for kind in range(4):
            for nk in (1, 2):
                if msg is None and differ(runs[(0, kind)][0], runs[(nk, kind)][0]):
                    msg = ("variants: with the %s step solver the first step of NewtonType.%s differs from Simplified: %r vs %r"
                           % (KINDS[kind], NKINDS[nk], runs[(nk, kind)][0].tolist(), runs[(0, kind)][0].tolist()))
        if msg:
            stats["failures"] += 1
            rep.failure("cross_solver:" + msg.split(":")[0], msg, {"kind": "cross_solver", "case": case, "what": msg})
    rep.cov.setdefault("oracle", {})["cross_solver"] = dict(stats, note="real step solvers with the real LU solver compared with each other (C14 as stated); search, not proof")
    rep.cov["evaluations"] += stats["compared"] * 12


def perform_iteration_oracle(rep, tier, seed):
    """Solver.perform_iteration(x0, y0) is one trial of the solve: the step it returns is the first trial step of
    solve(x0, y0), for any lamb_init (no scaling, equality rows only: internal = user coordinates)."""
    import logging
    from pygradflow.log import logger
    from pygradflow.params import Params, StepControlType
    from pygradflow.solver import Solver
    from ..gen import Gen
    from .. import campaign as C
    g = Gen(seed + 1415)
    r = g.rng
    n_cmp = 0
    lvl = logger.level
    logger.setLevel(logging.ERROR)
    try:
        for k in range(40 if tier == "thorough" else 10):
            spec = C.convex_qp(g, m=r.randint(0, 2), kinds=["eq", "eq0"])
            x0 = np.array(g.point_in_box(spec.lb, spec.ub), dtype=float)
            y0 = np.zeros(spec.m)
            kw = dict(lamb_init=r.choice([0.25, 0.5, 2.0, 4.0, 16.0]), iteration_limit=1,
                      step_control_type=StepControlType[r.choice(["Exact", "DistanceRatio", "ResiduumRatio", "Fixed"])])
            trial = []

            class Sol(Solver):
                def _compute_step(self, controller, iterate, rho, dt, display, timer):
                    res = super()._compute_step(controller, iterate, rho, dt, display, timer)
                    trial.append((np.array(res.iterate.x), np.array(res.iterate.y), float(dt)))
                    return res
            try:
                Sol(QuadProblem(spec), Params(**kw)).solve(x0, y0)
                first = trial[0]
                del trial[:]
                out = Sol(QuadProblem(spec), Params(**kw)).perform_iteration(x0, y0)
            except Exception:
                continue
            n_cmp += 1
            if not trial:
                continue
            if trial[0][2] != first[2] or not np.array_equal(np.asarray(out[0]), first[0]) or not np.array_equal(np.asarray(out[1]), first[1]):
                case = {"spec": spec.to_json(), "x0": x0.tolist(), "params": {k_: str(v) for k_, v in kw.items()}}
                msg = ("perform_iteration: with lamb_init = %r the single iteration used dt = %r and returned x = %r; the first trial of "
                       "solve() uses dt = %r and gives x = %r" % (kw["lamb_init"], trial[0][2], np.asarray(out[0]).tolist(), first[2], first[0].tolist()))
                rep.failure("perform_iteration:step", msg, {"kind": "perform_iteration", "case": case, "what": msg})
    finally:
        logger.setLevel(lvl)
    rep.cov.setdefault("oracle", {})["perform_iteration"] = {"compared": n_cmp, "note": "search, not proof"}
    rep.cov["evaluations"] += n_cmp
