"""Units evaluator (ValidatingEvaluator on finite / non-finite / misshapen callback results) and compute_xn
(StepResult._compute_xn on arbitrary binary64 inputs)."""
import sys
import types

sys.path.insert(0, __import__("os").environ.get("VERIF_REPO", "/repo"))
import numpy as np
import scipy.sparse as sps

from ..common import cq, cb, cn, clist, cvec, cbnds, copt
from ..unit import Unit

NAMES = ["obj", "obj_grad", "cons", "cons_jac", "lag_hess"]
BAD = [float("nan"), float("inf"), float("-inf")]


class Evaluator(Unit):
    name = "evaluator"
    header = "From Verif Require Import Eval."
    check_fn = "check_evaluator"
    tag_fn = "tag_evaluator"
    shard = 400

    def gen(self, g, tier):
        r = g.rng
        cases = []
        for k in range(1500 if tier == "thorough" else 400):
            comp = k % 5
            n = r.randint(1, 3)
            m = r.randint(0, 2)
            shape_ok = r.random() < 0.85
            cnt = {0: 1, 1: n, 2: m, 3: m * n, 4: n * n}[comp]
            vals = [g.dy(kmax=8, jmax=1) for _ in range(cnt)]
            if comp >= 3 and k % 2 == 1:
                vals = [0.0 if r.random() < 0.35 else v for v in vals]
            tri = comp == 4 and n >= 2 and k % 20 == 9
            if tri:
                # a Hessian stored as one triangle only (lower part exactly zero and not stored, upper part non-zero)
                vals = [(0.0 if i > j else (v if v != 0.0 else 1.0)) for i in range(n) for j in range(n) for v in [vals[i * n + j]]]
            if r.random() < 0.5 and cnt:
                for _ in range(r.randint(1, 2)):
                    vals[r.randrange(cnt)] = r.choice(BAD)
            cases.append({"comp": comp, "n": n, "m": m, "shape_ok": shape_ok, "vals": [v if np.isfinite(v) else repr(v) for v in vals],
                          "warm": len(cases) % 3 == 1,
                          # stored pattern of the matrices: every entry, or exact zeros left out at random (the same
                          # matrix; for a Hessian the stored pattern is then in general not symmetric)
                          "drop": ([i > j for i in range(n) for j in range(n)] if tri else
                                   [r.random() < 0.5 for _ in range(cnt)] if (comp >= 3 and k % 2 == 1) else None)})
        return cases

    def impl(self, case):
        from pygradflow.eval import EvalError, ValidatingEvaluator
        from pygradflow.params import Params
        n, m, comp = case["n"], case["m"], case["comp"]
        vals = np.array([float(v) for v in case["vals"]], dtype=float)
        bad_shape = not case["shape_ok"]
        def mat(rows, cols):
            M = vals.reshape(rows, cols) if vals.size else np.zeros((rows, cols))
            rr, cc, dd = np.repeat(np.arange(rows), cols), np.tile(np.arange(cols), rows), M.ravel()
            if case.get("drop") and vals.size:
                keep = np.array([not (d and v == 0.0) for d, v in zip(case["drop"], dd)], dtype=bool)
                rr, cc, dd = rr[keep], cc[keep], dd[keep]
            S = sps.coo_matrix((dd, (rr, cc)), shape=(rows, cols))
            if bad_shape:
                S = sps.coo_matrix((S.data, (S.row, S.col)), shape=(rows + 1, cols))
            return S
        prob = types.SimpleNamespace(
            num_vars=n, num_cons=m,
            obj=lambda x: float(vals[0]),
            obj_grad=lambda x: np.append(vals, 0.0) if bad_shape else vals.copy(),
            cons=lambda x: np.append(vals, 0.0) if bad_shape else vals.copy(),
            cons_jac=lambda x: mat(m, n), lag_hess=lambda x, y: mat(n, n))
        ev = ValidatingEvaluator(prob, Params())
        x = np.zeros(n)
        if case.get("warm"):
            # the same evaluator has already returned good values of every callback: every call is checked all the same
            good = types.SimpleNamespace(
                num_vars=n, num_cons=m, obj=lambda x: 1.0, obj_grad=lambda x: np.ones(n), cons=lambda x: np.ones(m),
                cons_jac=lambda x: sps.coo_matrix(np.ones((m, n))), lag_hess=lambda x, y: sps.coo_matrix(np.eye(n)))
            ev.problem = good
            ev.obj(x), ev.obj_grad(x), ev.lag_hess(x, np.zeros(m))
            if m > 0:
                ev.cons(x), ev.cons_jac(x)
            ev.problem = prob
        try:
            if comp == 0:
                out = [float(ev.obj(x))]
            elif comp == 1:
                out = [float(v) for v in ev.obj_grad(x)]
            elif comp == 2:
                out = [float(v) for v in ev.cons(x)]
            elif comp == 3:
                out = [float(v) for v in np.asarray(ev.cons_jac(x).toarray()).ravel()]
            else:
                out = [float(v) for v in np.asarray(ev.lag_hess(x, np.zeros(m)).toarray()).ravel()]
            return {"out": out}
        except EvalError:
            return {"out": None}

    def term(self, case, r):
        vals = clist(["None" if isinstance(v, str) else "(Some %s)" % cq(v) for v in case["vals"]])
        out = r.get("out") if "exc" not in r else [12345.0]
        return "(%s, %s, %s, %s, %s)" % (cn(case["comp"]), cn(case["m"]), cb(case["shape_ok"]), vals, copt(out, cvec))

    def tag_name(self, t):
        return "%s,%s" % (NAMES[t % 10], "raises" if t >= 10 else "passes")

    def nontrivial(self, case, r, t):
        return t is not None and t >= 10

    def oracle(self, case, r):
        if "exc" in r:
            return "crash: evaluator raised %s: %s" % (r["exc"], r.get("msg"))
        nonfinite = any(isinstance(v, str) for v in case["vals"])
        skipped = case["comp"] in (2, 3) and case["m"] == 0
        if nonfinite and not skipped and r["out"] is not None:
            return "nonfinite_passed: a non-finite %s value passed the validating evaluator" % NAMES[case["comp"]]
        return None

    def key(self, case, r):
        return "evaluator:" + (self.oracle(case, r) or "mismatch").split(":")[0]


class ComputeXn(Unit):
    name = "compute_xn"
    header = "From Verif Require Import CorrStep."
    check_fn = "check_xn"
    tag_fn = "tag_xn"
    shard = 500

    def gen(self, g, tier):
        r = g.rng
        cases = []
        for k in range(3000 if tier == "thorough" else 600):
            n = r.randint(1, 4)
            style = r.choice(["mixed", "mixed", "lower_only", "upper_only", "free"])
            lb, ub, x, dx = [], [], [], []
            for _ in range(n):
                a = r.choice([0.1, 1.0 / 3.0, -0.3, 0.7, 1e-3, 2.5, -1e6, 1e-9, 0.0, r.uniform(-5, 5)])
                w = r.choice([0.0, 0.2, 1.0 / 7.0, 3.0, 1e-7])
                kind = {"lower_only": "lower", "upper_only": "upper", "free": "free"}.get(style) or r.choice(["lower", "upper", "box", "fixed", "free"])
                l = a if kind in ("lower", "box", "fixed") else float("-inf")
                u = a + (w if kind == "box" else 0.0) if kind in ("box", "fixed") else (a if kind == "upper" else float("inf"))
                lo = l if l > -1e300 else (u - 2 if u < 1e300 else -2.0)
                hi = u if u < 1e300 else lo + 2
                xi = r.choice([lo, hi, lo + (hi - lo) * r.random()])
                step = r.choice([0.0, 1e-17, 0.05, 0.3, 1.0, 3.7, 1e3, xi - lo, xi - hi, (xi - lo) * (1 + 1e-16), r.uniform(-4, 4)])
                lb.append(l); ub.append(u); x.append(xi); dx.append(step)
            cases.append({"x": x, "dx": dx, "lb": lb, "ub": ub})
        return cases

    def impl(self, case):
        from pygradflow.step.solver.step_solver import StepResult
        prob = types.SimpleNamespace(var_lb=np.array(case["lb"]), var_ub=np.array(case["ub"]))
        it = types.SimpleNamespace(x=np.array(case["x"]), y=np.zeros(0), problem=prob)
        res = StepResult(it, np.array(case["dx"]), np.zeros(0), None)
        return {"xn": [float(v) for v in res.xn], "dx": [float(v) for v in res.dx]}

    def term(self, case, r):
        xn = r.get("xn", []) if "exc" not in r else []
        return "(%s, %s, %s, %s, %s)" % (cvec(case["x"]), cvec(case["dx"]), cbnds(case["lb"]), cbnds(case["ub"]), cvec(xn))

    def tag_name(self, t):
        return "clipped=%s" % ("0" if t == 0 else ">0")

    def nontrivial(self, case, r, t):
        return bool(t)

    def oracle(self, case, r):
        if "exc" in r:
            return "crash: StepResult raised %s: %s" % (r["exc"], r.get("msg"))
        xn = np.array(r["xn"])
        if np.any(xn < np.array(case["lb"])) or np.any(xn > np.array(case["ub"])):
            return "box: StepResult.xn = %r lies outside [%r, %r] (x = %r, dx = %r)" % (r["xn"], case["lb"], case["ub"], case["x"], case["dx"])
        return None

    def key(self, case, r):
        return "compute_xn:" + (self.oracle(case, r) or "mismatch").split(":")[0]
