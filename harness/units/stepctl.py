"""Unit stepctl: the real step controllers' compute_step with a scripted Newton stream, scripted residual norms,
scripted PI-controller output, evaluation faults at chosen iterates and a virtual clock, against StepCtl.v."""
import sys
import types

sys.path.insert(0, __import__("os").environ.get("VERIF_REPO", "/repo"))
import numpy as np

from ..common import cq, cb, cn, clist
from ..unit import Unit
from .loop import FakeTime

KINDS = ["Exact", "Fixed", "DistanceRatio", "ResiduumRatio"]


class FakeIterate:
    def __init__(self, ident, res, bad):
        self.ident, self.res, self.bad = ident, res, bad
        self.x = np.zeros(1)
        self.y = np.zeros(0)

    def check_eval(self):
        from pygradflow.eval import EvalError
        if self.bad:
            raise EvalError("scripted", self.x)


def run_ctl(case):
    import logging
    import pygradflow.timer as T
    import pygradflow.step.exact_control as EC
    import pygradflow.step.distance_ratio_control as DC
    import pygradflow.step.residuum_ratio_control as RC
    from pygradflow.log import logger
    from pygradflow.params import Params, Precision, StepControlType
    from pygradflow.step.step_control import step_controller
    from pygradflow.timer import Timer

    p = case["prm"]
    params = Params(newton_tol=p["newton_tol"], lamb_init=p["lamb_init"], lamb_min=p["lamb_min"], lamb_red=p["lamb_red"],
                    lamb_inc=p["lamb_inc"], theta_max=p["theta_max"], step_control_type=StepControlType[KINDS[case["kind"]]],
                    time_limit=case["time_limit"], iteration_limit=case.get("iter_limit"),
                    precision=Precision.Single if case.get("single") else Precision.Double)

    class StubFunc:
        def __init__(self, problem, iterate, dt):
            pass

        def value_at(self, iterate, rho, active_set=None):
            if case.get("multi"):
                k5 = iterate.res / 5.0
                return np.array([3.0 * k5, 0.0, 4.0 * k5])
            return np.array([iterate.res])

    orig = FakeIterate(0, case["res0"], False)
    steps = []
    for s in case["stream"]:
        it = FakeIterate(s["id"], s["res"], s["id"] in case["evalbad"])
        steps.append(types.SimpleNamespace(iterate=it, diff=s["diff"], active_set=None, rcond=None))

    olds = (T.time, EC.ImplicitFunc, DC.ImplicitFunc, RC.ImplicitFunc)
    ft = FakeTime(case["clock"])
    T.time = ft
    EC.ImplicitFunc = DC.ImplicitFunc = RC.ImplicitFunc = StubFunc
    lvl = logger.level
    logger.setLevel(logging.ERROR)
    try:
        problem = types.SimpleNamespace(num_vars=1, num_cons=0)
        ctl = step_controller(problem, params)
        dts = []
        ctl.newton_steps = lambda it, rho, dt: (dts.append(float(dt)), iter(steps))[1]
        if hasattr(ctl, "controller"):
            ctl.controller = types.SimpleNamespace(update=lambda theta: case["pi"], error_sum=0.0, reset=lambda: None)
        timer = Timer(params.time_limit)          # one clock read
        res = ctl.compute_step(orig, 1.0, 1.0 / case["lamb"], False, timer)
        return {"id": res.iterate.ident, "lamb": float(res.lamb), "acc": bool(res.accepted), "dts": dts}
    finally:
        T.time, EC.ImplicitFunc, DC.ImplicitFunc, RC.ImplicitFunc = olds
        logger.setLevel(lvl)


class StepCtl(Unit):
    name = "stepctl"
    header = "From Verif Require Import CorrCtl."
    check_fn = "check_stepctl"
    tag_fn = "tag_stepctl"
    shard = 250

    def gen(self, g, tier):
        r = g.rng
        cases = []
        for k in range(2000 if tier == "thorough" else 400):
            kind = k % 4
            tol = 2.0 ** r.choice([-6, -3, 0, -30])       # 2^-30: far below float32 resolution at 1
            prm = {"newton_tol": tol, "lamb_init": 2.0 ** r.randint(-2, 2), "lamb_min": 2.0 ** r.choice([-12, -4, -1]),
                   "lamb_red": r.choice([0.5, 0.25]), "lamb_inc": r.choice([2.0, 4.0]), "theta_max": r.choice([0.5, 0.75, 1.0, 2.0])}
            lamb = 2.0 ** r.randint(-5, 5)
            res0 = 2.0 ** r.randint(-2, 6)
            single = r.random() < 0.25                                   # Precision.Single must not change any decision
            if k % 16 == 0:
                # residuals between newton_tol and float32 resolution: converged means <= newton_tol in every precision
                single, tol, res0 = True, 2.0 ** -30, 2.0 ** -r.randint(14, 18)
                prm["newton_tol"] = tol
            L = r.randint(10, 12)
            stream = []
            cur = res0
            for i in range(L):
                c = r.random()
                if c < 0.15:
                    res = tol * r.choice([1.0, 0.5, 0.25])              # converged (incl. the tie res == tol)
                elif c < 0.65:
                    res = cur * r.choice([0.5, 0.25, 0.125])            # contracting (incl. the tie rate == 1/2)
                else:
                    res = cur * r.choice([0.75, 1.0, 2.0])              # too slow
                diff = 0.0 if r.random() < 0.1 else 2.0 ** r.randint(-4, 4) * r.choice([1.0, 1.0, 3.0])
                if i == 0:
                    diff = 0.0 if r.random() < 0.1 else 2.0 ** r.randint(-4, 4)   # power of two: theta exact
                stream.append({"id": i + 1, "diff": diff, "res": res})
                cur = res
            if k % 16 == 8:
                # the exact controller's ten inner iterations all contract by exactly one half and never reach the
                # tolerance: not converged, so not accepted
                prm["newton_tol"] = tol = 2.0 ** -40
                cur = res0
                for s_ in stream:
                    cur = cur * 0.5
                    s_["res"] = cur
            multi = k % 8 == 4
            if multi:
                # residual VECTORS (3, 4) * res / 5: the 2-norm is res, the largest component 0.8 res.  Every value is
                # 5 * 2^j so that res / 5 is exact; a residual of 1.25 newton_tol is not converged although its largest
                # component equals the tolerance
                prm["newton_tol"] = tol = 5.0 * tol
                res0 = 5.0 * res0
                for s_ in stream:
                    s_["res"] = 5.0 * s_["res"]
                    if r.random() < 0.3:
                        s_["res"] = 1.25 * tol
            evalbad = [i + 1 for i in range(L) if r.random() < 0.1]
            # clock: the timer start, then one read per deadline test; the deadline may pass at some test
            tl = float("inf") if r.random() < 0.5 else float(r.randint(0, 6))
            t = 0.0
            clock = [t]
            for _ in range(14):
                t += r.choice([0.0, 0.5, 1.0, 2.0])
                clock.append(t)
            cases.append({"kind": kind, "prm": prm, "lamb": lamb, "res0": res0, "pi": 2.0 ** r.randint(-2, 2), "stream": stream,
                          "evalbad": evalbad, "time_limit": tl, "clock": clock,
                          "single": single, "iter_limit": r.choice([None, None, 1, 2, 3, 5]),    # the outer budget is not the controller's
                          "multi": multi})
        return cases

    def impl(self, case):
        return run_ctl(case)

    def passed(self, case):
        tl = case["time_limit"]
        start = case["clock"][0]
        return [(tl - (t - start)) <= 0.0 for t in case["clock"][1:]]

    def term(self, case, r):
        p = case["prm"]
        prm = "(mk_cparams %s %s %s %s %s %s)" % (cq(p["newton_tol"]), cq(p["lamb_init"]), cq(p["lamb_min"]), cq(p["lamb_red"]),
                                                 cq(p["lamb_inc"]), cq(p["theta_max"]))
        st = clist(["(mk_nstep %s %s %s)" % (cn(s["id"]), cq(s["diff"]), cq(s["res"])) for s in case["stream"]])
        if "exc" in r:
            r = {"id": 999, "lamb": 0.0, "acc": False}
        return ("(mk_ccase %s %s %s %s %s %s %s %s %s %s %s)"
                % (cn(case["kind"]), prm, cq(case["lamb"]), cq(case["res0"]), cq(case["pi"]),
                   clist([cb(b) for b in self.passed(case)]), st, clist([cn(i) for i in case["evalbad"]]),
                   cn(r["id"]), cq(r["lamb"]), cb(r["acc"])))

    def tag_name(self, t):
        return "%s,%s" % (KINDS[t % 10], {1: "accepted", 2: "rejected", 3: "failed_or_abandoned"}[t // 10])

    def nontrivial(self, case, r, t):
        return t is not None and t // 10 >= 2

    def oracle(self, case, r):
        """C15 on the controller's answer"""
        if "exc" in r:
            return "crash: compute_step raised %s: %s" % (r["exc"], r.get("msg"))
        lamb = case["lamb"]
        p = case["prm"]
        if any(d != 1.0 / lamb for d in r.get("dts", [])):
            return "dt_used: the controller was handed dt = %r but computed its Newton steps with dt = %r" % (1.0 / lamb, r["dts"])
        # (the exact controller's trial abandoned at a deadline test: unchanged iterate, unchanged lambda)
        abandoned = case["kind"] == 0 and any(self.passed(case)) and r["id"] == 0 and r["lamb"] == lamb
        if not r["acc"] and r["lamb"] <= lamb and not abandoned:
            return "reject_shrinks: not accepted but lambda %r -> %r does not increase" % (lamb, r["lamb"])
        if r["acc"]:
            st = {s["id"]: s for s in case["stream"]}[r["id"]]
            if r["id"] in case["evalbad"]:
                return "bad_point_accepted: a point whose evaluation fails was accepted"
            if case["kind"] == 0 and st["res"] > p["newton_tol"]:
                return "exact_accept: accepted with residual %r > newton_tol %r" % (st["res"], p["newton_tol"])
            if r["lamb"] <= 0:
                return "lambda_positive: lambda %r" % r["lamb"]
        if not r["acc"] and r["id"] != 0 and (r["id"] in case["evalbad"]) and False:
            return None
        return None

    def key(self, case, r):
        return "stepctl:" + (self.oracle(case, r) or "mismatch").split(":")[0]
