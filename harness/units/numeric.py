"""Units transform / iterate: the real Transformation / Iterate objects against Transform.v / Iterate.v."""
import sys

sys.path.insert(0, __import__("os").environ.get("VERIF_REPO", "/repo"))
import numpy as np

from ..common import cq, cb, cz, clist, cvec, cmat, cbnds
from ..qp import QuadProblem, Spec, INF
from ..unit import Unit


def csc(sc):
    if sc is None:
        return "None"
    return "(Some (mk_scaling %s %s %s))" % (clist([cz(v) for v in sc["vw"]]), clist([cz(v) for v in sc["cw"]]), cz(sc["ow"]))


def make_params(sc, **kw):
    from pygradflow.params import Params, ScalingType
    from pygradflow.scale import Scaling
    if sc is None:
        return Params(**kw)
    s = Scaling(np.array(sc["vw"], dtype=int), np.array(sc["cw"], dtype=int), int(sc["ow"]))
    return Params(scaling=s, scaling_type=ScalingType.Custom, **kw)


def make_transformation(spec, sc, fmt="coo", policy="fresh", **kw):
    from pygradflow.transform import Transformation
    prob = QuadProblem(spec, fmt=fmt, policy=policy, **kw)
    return prob, Transformation(prob, make_params(sc))


def gen_scaling(g, spec):
    if g.rng.random() < 0.3:
        return None
    return {"vw": g.weights(spec.n), "cw": g.weights(spec.m), "ow": g.rng.randint(-3, 3)}


def slack_rows(spec):
    return [i for i in range(spec.m) if spec.cl[i] != spec.cu[i]]


def internal_point(g, spec, sc, style="any"):
    """a point of the internal space whose user-space image is on the grid"""
    if style == "box":
        x = g.point_in_box(spec.lb, spec.ub)
    else:
        x = g.point_any(spec.lb, spec.ub)
    rows = slack_rows(spec)
    cl = [spec.cl[i] for i in rows]
    cu = [spec.cu[i] for i in rows]
    s = g.point_in_box(cl, cu) if style == "box" else g.point_any(cl, cu)
    vw = sc["vw"] if sc else [0] * spec.n
    cw = sc["cw"] if sc else [0] * spec.m
    xt = [float(np.ldexp(v, w)) for v, w in zip(x, vw)] + [float(np.ldexp(v, cw[i])) for v, i in zip(s, rows)]
    return xt


def fl(v):
    return [float(t) for t in np.asarray(v).ravel()]


def dense(M):
    return [[float(t) for t in row] for row in np.asarray(M.toarray() if hasattr(M, "toarray") else M)]


class Transform(Unit):
    name = "transform"
    header = "From Verif Require Import CorrNumeric."
    check_fn = "check_transform"
    tag_fn = "tag_transform"
    exact_fn = "exact_transform"
    shard = 60

    def gen(self, g, tier):
        cases = []
        N = 1500 if tier == "thorough" else 240
        for k in range(N):
            spec = g.spec(nmax=5 if tier == "thorough" else 4, mmax=4 if tier == "thorough" else 3)
            if k % 9 == 0:       # only equality rows / no rows / only slack rows
                spec = g.spec(m=0)
            if spec.m > 0 and k % 8 == 3:
                # a NARROW ranged row of large magnitude (l < u, relative width ~2^-22): it is a ranged row with a slack,
                # not an equality row — `l == u` decides, not closeness
                i = g.rng.randrange(spec.m)
                big = g.rng.choice([-1.0, 1.0]) * g.rng.choice([1, 3, 5]) * 2.0 ** g.rng.randint(10, 13)
                spec.cl[i], spec.cu[i] = big, big + 2.0 ** -10
                spec.c0[i] = spec.c0[i] + big
            omit = False
            if spec.m > 0 and k % 11 == 5:
                # rows l <= c(x) <= 0 (or 0 <= c(x) <= u) given with one side only: the missing side is zeros
                side = g.rng.choice(["cu", "cl"])
                for i in range(spec.m):
                    if side == "cu":
                        spec.cu[i] = 0.0
                        spec.cl[i] = g.rng.choice([-INF, -2.0, -0.5, 0.0])
                    else:
                        spec.cl[i] = 0.0
                        spec.cu[i] = g.rng.choice([INF, 2.0, 0.5, 0.0])
                omit = True
            if spec.m > 0 and k % 12 == 9:
                i = g.rng.randrange(spec.m)            # a free row (no bound at all) is a row with a free slack
                spec.cl[i], spec.cu[i] = -INF, INF
            sc = gen_scaling(g, spec)
            if sc is not None and k % 10 == 3:
                # only the rows are scaled: the multiplier still has to be un-scaled for the Hessian
                sc["vw"] = [0] * spec.n
                sc["ow"] = 0
                sc["cw"] = [g.rng.choice([-3, -2, -1, 1, 2, 3]) for _ in range(spec.m)]
            if sc is not None and k % 13 == 7:
                # a finite bound whose SCALED value is astronomically large is still a bound
                j = g.rng.randrange(spec.n)
                e = g.rng.randint(58, 66)
                if g.rng.random() < 0.5:
                    spec.ub[j] = 2.0 ** e
                    if spec.lb[j] > spec.ub[j]:
                        spec.lb[j] = -INF
                else:
                    spec.lb[j] = -(2.0 ** e)
                    if spec.ub[j] < spec.lb[j]:
                        spec.ub[j] = INF
                sc["vw"][j] = g.rng.randint(4, 8)
                huge_j = j
            else:
                huge_j = None
            xt = internal_point(g, spec, sc)
            yt = g.vec(spec.m, kmax=8, jmax=1)
            x0 = g.point_any(spec.lb, spec.ub)
            if huge_j is not None:
                # the points themselves stay small (products of 2^60-sized numbers are not binary64)
                small = 0.0 if spec.lb[huge_j] <= 0.0 <= spec.ub[huge_j] else (spec.lb[huge_j] if abs(spec.lb[huge_j]) < 2.0 ** 40 else spec.ub[huge_j])
                if abs(x0[huge_j]) >= 2.0 ** 40:
                    x0[huge_j] = small
                if abs(xt[huge_j]) >= 2.0 ** 40:
                    xt[huge_j] = small * 2.0 ** sc["vw"][huge_j]
            if k % 5 == 2:
                x0 = [float(round(v)) for v in x0]
            y0 = g.vec(spec.m, kmax=8, jmax=1)
            dt = g.vec(len(xt), kmax=8, jmax=1)
            policy = g.rng.choice(["fresh", "memo", "memo", "refill"])
            fmt = g.rng.choice(["coo", "csr", "csc"])
            if k % 7 == 4:
                fmt, policy = "alt", "fresh"      # another storage format on every call: the same matrix all the same
            cases.append({"spec": spec.to_json(), "sc": sc, "x": xt, "y": yt, "x0": x0, "y0": y0, "d": dt,
                          "fmt": fmt,
                          "explicit_zeros": g.rng.random() < 0.3 or policy == "refill",
                          "dup": g.rng.random() < 0.3 and policy != "refill",
                          "policy": policy, "twice": g.rng.random() < 0.6, "omit": omit, "x0_int": k % 5 == 2})
        return cases

    def impl(self, case):
        spec = Spec.from_json(case["spec"])
        prob, tr = make_transformation(spec, case["sc"], case["fmt"], policy=case.get("policy", "fresh"),
                                       explicit_zeros=case["explicit_zeros"], dup=case["dup"],
                                       omit_zero_bounds=case.get("omit", False))
        T = tr.trans_problem
        x = np.array(case["x"])
        y = np.array(case["y"])
        if case.get("policy") == "refill" or case.get("fmt") == "alt":
            # another point first: the callbacks then hand out the same objects again, refilled
            x1 = x + 1.0
            y1 = y - 1.0
            T.obj(x1), T.obj_grad(x1), T.lag_hess(x1, y1)
            if spec.m > 0:
                T.cons(x1), T.cons_jac(x1)
        if case.get("twice"):
            # the functions of the internal problem must not depend on what was evaluated before (a problem
            # that memoises its results per point hands out the same objects again)
            T.obj(x), T.obj_grad(x), T.lag_hess(x, y)
            if spec.m > 0:
                T.cons(x), T.cons_jac(x)
            tr.transform_sol(np.array(case["x0"]), np.array(case["y0"]))
        x0a, y0a = np.array(case["x0"]), np.array(case["y0"])
        if case.get("x0_int") and np.all(x0a == np.round(x0a)) and np.all(np.abs(x0a) < 2.0 ** 50):
            x0a = x0a.astype(int)          # a start given as integers is the same start
        (tx, ty) = tr.transform_sol(x0a, y0a)
        (rx, ry, rd) = tr.restore_sol(x, y, np.array(case["d"]))
        return {"obj": float(T.obj(x)), "grad": fl(T.obj_grad(x)),
                "cons": fl(T.cons(x)) if spec.m > 0 else [],
                "jac": dense(T.cons_jac(x)) if spec.m > 0 else [],
                "hess": dense(T.lag_hess(x, y)),
                "lb": fl(T.var_lb), "ub": fl(T.var_ub),
                "tx": fl(tx), "ty": fl(ty), "rx": fl(rx), "ry": fl(ry), "rd": fl(rd)}

    def term(self, case, r):
        spec = Spec.from_json(case["spec"])
        if "exc" in r:
            r = {"obj": 0.0, "grad": [], "cons": [], "jac": [], "hess": [], "lb": [], "ub": [], "tx": [], "ty": [],
                 "rx": [], "ry": [], "rd": [12345.0]}
        return ("(mk_tcase %s %s %s %s %s %s %s %s %s %s %s %s %s %s %s %s %s %s %s)"
                % (spec.to_coq(), csc(case["sc"]), cvec(case["x"]), cvec(case["y"]), cvec(case["x0"]),
                   cvec(case["y0"]), cvec(case["d"]), cq(r["obj"]), cvec(r["grad"]), cvec(r["cons"]),
                   cmat(r["jac"]), cmat(r["hess"]), cbnds(r["lb"]), cbnds(r["ub"]), cvec(r["tx"]), cvec(r["ty"]),
                   cvec(r["rx"]), cvec(r["ry"]), cvec(r["rd"])))

    def tag_name(self, t):
        return "slacks=%d,offset_rows=%d,scaled=%d" % (t % 10, (t // 10) % 10, t // 100)

    def nontrivial(self, case, r, t):
        return t is not None and t > 0

    def oracle(self, case, r):
        """independent numpy reference of the reformulation, compared bitwise (C04)"""
        if "exc" in r:
            return "transformation raised %s: %s" % (r["exc"], r.get("msg"))
        spec = Spec.from_json(case["spec"])
        sc = case["sc"] or {"vw": [0] * spec.n, "cw": [0] * spec.m, "ow": 0}
        vw, cw, ow = np.array(sc["vw"], dtype=int), np.array(sc["cw"], dtype=int), sc["ow"]
        ref = QuadProblem(spec)
        n, m = spec.n, spec.m
        rows = slack_rows(spec)
        xt = np.array(case["x"])
        yt = np.array(case["y"])
        xo = xt[:n] * 2.0 ** (-vw)
        s = xt[n:]
        want_obj = ref.obj(xo) * 2.0 ** ow
        want_grad = np.concatenate([ref.obj_grad(xo) * 2.0 ** (ow - vw), np.zeros(len(rows))])
        bad = []
        if want_obj != r["obj"]:
            bad.append("obj")
        if list(want_grad) != r["grad"]:
            bad.append("grad")
        if m > 0:
            c = ref.cons(xo) * 2.0 ** cw
            J = ref.cons_jac(xo).toarray() * (2.0 ** cw)[:, None] * (2.0 ** (-vw))[None, :]
            Jt = np.zeros((m, n + len(rows)))
            Jt[:, :n] = J
            for k, i in enumerate(rows):
                c[i] -= s[k]
                Jt[i, n + k] = -1.0
            for i in range(m):
                if i not in rows:
                    c[i] -= spec.cl[i] * 2.0 ** cw[i]
            if list(c) != r["cons"]:
                bad.append("cons")
            if Jt.tolist() != r["jac"]:
                bad.append("jac")
        yo = yt * 2.0 ** (cw - ow)
        H = ref.lag_hess(xo, yo).toarray() * 2.0 ** ow * (2.0 ** (-vw))[:, None] * (2.0 ** (-vw))[None, :]
        Ht = np.zeros((n + len(rows), n + len(rows)))
        Ht[:n, :n] = H
        if Ht.tolist() != r["hess"]:
            bad.append("hess")
        lb = list(np.array(spec.lb) * 2.0 ** vw) + [spec.cl[i] * 2.0 ** cw[i] for i in rows]
        ub = list(np.array(spec.ub) * 2.0 ** vw) + [spec.cu[i] * 2.0 ** cw[i] for i in rows]
        if lb != r["lb"] or ub != r["ub"]:
            bad.append("bounds")
        # start slacks are the projection of c(x0) onto [l,u]; mapping back is the identity
        x0 = np.array(case["x0"])
        y0 = np.array(case["y0"])
        tx = list(x0 * 2.0 ** vw)
        if rows:
            c0 = ref.cons(x0)
            tx += [float(np.clip(c0[i], spec.cl[i], spec.cu[i])) * 2.0 ** cw[i] for i in rows]
        if tx != r["tx"] or list(y0 * 2.0 ** (ow - cw)) != r["ty"]:
            bad.append("transform_sol")
        d = np.array(case["d"])
        if (list(xo) != r["rx"] or list(yt * 2.0 ** (cw - ow)) != r["ry"] or list(d[:n] * 2.0 ** (vw - ow)) != r["rd"]):
            bad.append("restore_sol")
        if bad:
            return "internal problem is not the exact reformulation: %s differ from the reference" % ",".join(bad)
        return None

    def key(self, case, r):
        return "transform:reformulation"


def make_iterate(case):
    from pygradflow.iterate import Iterate
    spec = Spec.from_json(case["spec"])
    params_kw = dict(active_tol=case["atol"])
    if case.get("ntol") is not None:
        params_kw["newton_tol"] = case["ntol"]      # a tolerance of the inner iteration: no residual depends on it
    if case["trans"]:
        from pygradflow.transform import Transformation
        prob = QuadProblem(spec, fmt=case["fmt"])
        params = make_params(case["sc"], **params_kw)
        problem = Transformation(prob, params).trans_problem
    else:
        from pygradflow.params import Params
        problem = QuadProblem(spec, fmt=case["fmt"])
        params = Params(**params_kw)
    return problem, params, Iterate(problem, params, np.array(case["x"]), np.array(case["y"]))


class IterateUnit(Unit):
    name = "iterate"
    header = "From Verif Require Import CorrNumeric."
    check_fn = "check_iterate"
    tag_fn = "tag_iterate"
    exact_fn = "exact_iterate"
    shard = 60

    def gen(self, g, tier):
        cases = []
        N = 1500 if tier == "thorough" else 240
        for k in range(N):
            spec = g.spec(nmax=5 if tier == "thorough" else 4, mmax=3)
            trans = g.rng.random() < 0.5
            sc = gen_scaling(g, spec) if trans else None
            atol = 2.0 ** -g.rng.choice([2, 3, 8])
            if trans:
                x = internal_point(g, spec, sc)
            else:
                x = g.point_any(spec.lb, spec.ub)
            # put some components exactly active_tol away from a bound (ties of the <= tests)
            lbs = spec.lb if not trans else None
            if not trans:
                for j in range(len(x)):
                    c = g.rng.random()
                    if c < 0.1 and spec.lb[j] > -INF:
                        x[j] = spec.lb[j] + g.rng.choice([atol, -atol, 2 * atol])
                    elif c < 0.2 and spec.ub[j] < INF:
                        x[j] = spec.ub[j] - g.rng.choice([atol, -atol, 2 * atol])
            y = g.vec(spec.m, kmax=8, jmax=1)
            sj = spec.to_json()
            if not trans and k % 6 == 2 and spec.m > 0:
                # rows whose value at the point is exactly zero (the penalty curvature rho J^T J does not care)
                probe = QuadProblem(spec)
                cv = probe.cons(np.array(x, dtype=float))
                sj["c0"] = [float(a - b) for a, b in zip(sj["c0"], cv)]
            if not trans and k % 6 == 5:
                # bounds of large magnitude with the point a hair inside / outside the activity tolerance: a test that is
                # relative to |bound| instead of absolute (np.isclose and the like) decides differently here.  Affine data
                # keeps every quantity exact.
                atol = 2.0 ** -8
                n = len(x)
                sj["P"] = [[0.0] * n for _ in range(n)]
                sj["A"] = [[[0.0] * n for _ in range(n)] for _ in range(len(y))]
                sj["B"] = [[0.0] * n for _ in range(len(y))]      # constant rows: squares of 2^17-sized values are not binary64
                for j in range(n):
                    big = g.rng.choice([-1.0, 1.0]) * g.rng.choice([1, 3, 5]) * 2.0 ** g.rng.randint(10, 14)
                    width = g.rng.choice([0.0, 0.5, 8.0])
                    side = g.rng.choice(["lb", "ub", "both"])
                    lo = big if side in ("lb", "both") else "-inf"
                    hi = big + width if side == "both" else (big if side == "ub" else "inf")
                    sj["lb"][j], sj["ub"][j] = lo, hi
                    ref = big if side != "ub" else big
                    d = g.rng.choice([0.0, atol, atol + 2.0 ** -10, atol - 2.0 ** -10, 2 * atol, 0.25])
                    x[j] = ref + d if side != "ub" else ref - d
                    if side == "both" and x[j] > hi:
                        x[j] = hi
            cases.append({"spec": sj, "sc": sc, "trans": trans, "atol": atol, "x": x, "y": y,
                          "rho": g.rng.choice([0.0, 0.5, 1.0, 2.0, 3.0]),
                          "ftol": g.rng.choice([0.0, 0.25, 1.0, 4.0]), "itol": g.rng.choice([0.0, 0.5, 2.0, 16.0]),
                          "fmt": g.rng.choice(["coo", "csr", "csc"]),
                          "ntol": [None, None, 1.0, 4.0][len(cases) % 4]})
        return cases

    def impl(self, case):
        problem, params, it = make_iterate(case)
        a = it.active_set
        rho = case["rho"]
        # ask with another penalty first: what is reported must not depend on earlier queries
        it.aug_lag(rho + 1.0), it.aug_lag_deriv_x(rho + 1.0), it.aug_lag_deriv_xx(rho + 1.0), it.aug_lag_deriv_xx(0.0)
        return {"obj": float(it.obj), "bdual": fl(it.bounds_dual), "stat": float(it.stat_res),
                "bviol": float(it.bound_violation), "cviol": float(it.cons_violation), "total": float(it.total_res),
                "linf": bool(it.locally_infeasible(case["ftol"], case["itol"])),
                "feas": bool(it.is_feasible(case["ftol"])),
                "al": float(it.aug_lag(rho)), "alx": fl(it.aug_lag_deriv_x(rho)),
                "alxx": dense(it.aug_lag_deriv_xx(rho)),
                "lower": [bool(b) for b in a.at_lower], "upper": [bool(b) for b in a.at_upper],
                "both": [bool(b) for b in a.at_both], "viol": [bool(b) for b in a.violated]}

    def term(self, case, r):
        spec = Spec.from_json(case["spec"])
        if "exc" in r:
            r = {"obj": 12345.0, "bdual": [], "stat": 0.0, "bviol": 0.0, "cviol": 0.0, "total": 0.0, "linf": False,
                 "feas": False, "al": 0.0, "alx": [], "alxx": [], "lower": [], "upper": [], "both": [], "viol": []}
        bl = lambda m: clist([cb(b) for b in m])
        return ("(mk_icase %s %s %s %s %s %s %s %s %s %s %s %s %s %s %s %s %s %s %s %s %s %s %s %s)"
                % (spec.to_coq(), csc(case["sc"]), cb(case["trans"]), cq(case["atol"]), cvec(case["x"]), cvec(case["y"]),
                   cq(case["rho"]), cq(case["ftol"]), cq(case["itol"]),
                   cq(r["obj"]), cvec(r["bdual"]), cq(r["stat"]), cq(r["bviol"]), cq(r["cviol"]), cq(r["total"]),
                   cb(r["linf"]), cb(r["feas"]), cq(r["al"]), cvec(r["alx"]), cmat(r["alxx"]),
                   bl(r["lower"]), bl(r["upper"]), bl(r["both"]), bl(r["viol"])))

    def tag_name(self, t):
        return "lower=%d,upper=%d,both=%d,violated=%d,loc_infeas=%d" % (t % 10, t // 10 % 10, t // 100 % 10, t // 1000 % 10, t // 10000)

    def nontrivial(self, case, r, t):
        return t is not None and t > 0

    def oracle(self, case, r):
        """independent dense reference of the definitions (C13), compared exactly on the grid"""
        if "exc" in r:
            return "Iterate evaluation raised %s: %s" % (r["exc"], r.get("msg"))
        problem, params, it = make_iterate(case)
        x = np.array(case["x"])
        y = np.array(case["y"])
        n = len(x)
        m = len(y)
        lb, ub = problem.var_lb, problem.var_ub
        g = np.asarray(problem.obj_grad(x), dtype=float)
        c = np.asarray(problem.cons(x), dtype=float) if m else np.zeros(0)
        J = problem.cons_jac(x).toarray() if m else np.zeros((0, n))
        atol = case["atol"]
        bad = []
        r0 = -(g + J.T.dot(y))
        d = np.zeros(n)
        for j in range(n):
            lo = abs(x[j] - lb[j]) <= atol
            up = abs(ub[j] - x[j]) <= atol
            if lo and up:
                d[j] = r0[j]
            elif lo:
                d[j] = min(r0[j], 0.0)
            elif up:
                d[j] = max(r0[j], 0.0)
        if list(d) != r["bdual"]:
            bad.append("bounds_dual")
        stat = float(np.max(np.abs(g + J.T.dot(y) + d))) if n else 0.0
        if stat != r["stat"]:
            bad.append("stat_res")
        cv = float(np.max(np.abs(c))) if m else 0.0
        bv = max(float(np.max(np.maximum(lb - x, 0.0))), float(np.max(np.maximum(x - ub, 0.0)))) if n else 0.0
        if cv != r["cviol"]:
            bad.append("cons_violation")
        if bv != r["bviol"]:
            bad.append("bound_violation")
        rho = case["rho"]
        al = float(problem.obj(x) + rho / 2.0 * c.dot(c) + c.dot(y))
        if al != r["al"]:
            bad.append("aug_lag")
        alx = g + J.T.dot(rho * c + y)
        if list(alx) != r["alx"]:
            bad.append("aug_lag_deriv_x")
        H = problem.lag_hess(x, y + rho * c).toarray() + rho * J.T.dot(J)
        if H.tolist() != r["alxx"]:
            bad.append("aug_lag_deriv_xx")
        # C02: the tests behind LocallyInfeasible / Unbounded
        feas = (cv <= case["ftol"]) and (bv <= case["ftol"])
        if feas != r["feas"]:
            bad.append("is_feasible")
        if cv <= case["ftol"]:
            linf = False
        else:
            q = J.T.dot(c)
            for j in range(n):
                lo = abs(x[j] - lb[j]) <= atol
                up = abs(ub[j] - x[j]) <= atol
                if lo and not up:
                    q[j] = min(q[j], 0.0)
                elif up and not lo:
                    q[j] = max(q[j], 0.0)
            linf = bool((np.max(np.abs(q)) if n else 0.0) <= case["itol"])
        if linf != r["linf"]:
            bad.append("locally_infeasible")
        if bad:
            return "Iterate quantities differ from the dense reference of their definitions: " + ",".join(bad)
        return None

    def key(self, case, r):
        return "iterate:definitions"
