"""Unit compute_tau: NewtonController.compute_tau (the parameter of the active-set rules) against ActiveTau.v, on
gradients that are zero, tiny or +-2^k (so that the breakpoints (x - lb)/g are exact)."""
import sys
import types

sys.path.insert(0, __import__("os").environ.get("VERIF_REPO", "/repo"))
import numpy as np

from ..common import cq, cn, cvec, cbnds
from ..qp import INF
from ..unit import Unit

KINDS = ["Standard", "Explicit", "SmallestActiveSet", "LargestActiveSet"]


class ComputeTau(Unit):
    name = "compute_tau"
    header = "From Verif Require Import ActiveTau."
    check_fn = "check_compute_tau"
    tag_fn = "tag_compute_tau"
    shard = 300

    def gen(self, g, tier):
        r = g.rng
        cases = []
        for k in range(1500 if tier == "thorough" else 300):
            n = r.randint(1, 4)
            lb, ub, x, gr = [], [], [], []
            for j in range(n):
                c = r.random()
                lo = -INF if c < 0.3 else float(r.randint(-4, 2))
                hi = INF if r.random() < 0.3 else (lo if lo > -INF else 0.0) + r.choice([0.0, 0.5, 1.0, 4.0])
                base = lo if lo > -INF else (hi if hi < INF else 0.0)
                # in the box, often exactly on a bound (breakpoint 0)
                xv = base + r.choice([0.0, 0.0, 0.25, 1.0])
                if hi < INF:
                    xv = min(xv, hi)
                if lo > -INF:
                    xv = max(xv, lo)
                lb.append(lo); ub.append(hi); x.append(xv)
                gr.append(r.choice([0.0, 2.0 ** -30, -2.0 ** -30, 1.0, -1.0, 2.0, -2.0, 0.5, -0.25, 4.0]))
            cases.append({"kind": k % 4, "tau": r.choice([0.5, 1.0, 2.0]), "x": x, "g": gr, "lb": lb, "ub": ub})
        return cases

    def impl(self, case):
        from pygradflow.params import ActiveSetType, Params
        from pygradflow.step.newton_control import NewtonController
        kw = {"active_set_type": ActiveSetType[KINDS[case["kind"]] if case["kind"] != 1 else "Explicit"]}
        if case["kind"] == 1:
            kw["active_set_tau"] = case["tau"]
        params = Params(**kw)
        problem = types.SimpleNamespace(var_lb=np.array(case["lb"], dtype=float), var_ub=np.array(case["ub"], dtype=float),
                                        num_vars=len(case["x"]), num_cons=0)

        class Ctl(NewtonController):
            def step(self, *a, **k):
                raise NotImplementedError
        ctl = Ctl(problem, params)
        ctl.lamb = 1.0
        g = np.array(case["g"], dtype=float)
        it = types.SimpleNamespace(x=np.array(case["x"], dtype=float), aug_lag_deriv_x=lambda rho: g)
        try:
            t = ctl.compute_tau(it, 1.0)
        except ValueError as e:
            return {"code": 3, "val": 0.0, "msg": str(e)[:80]}
        if t is None:
            return {"code": 0, "val": 0.0}
        t = float(t)
        if t == float("inf"):
            return {"code": 2, "val": 0.0}
        return {"code": 1, "val": t}

    def term(self, case, r):
        if "exc" in r:
            r = {"code": 9, "val": 0.0}
        return "(mk_taucase %s %s %s %s %s %s %s %s)" % (cn(case["kind"]), cq(case["tau"]), cvec(case["x"]), cvec(case["g"]),
                                                        cbnds(case["lb"]), cbnds(case["ub"]), cn(r["code"]), cq(r["val"]))

    def tag_name(self, t):
        return "%s,result=%s,infinite_breakpoint=%d" % (KINDS[t % 10], ["None", "finite", "inf", "ValueError"][(t // 10) % 10], t // 100)

    def nontrivial(self, case, r, t):
        return t is not None and t % 10 >= 2

    def oracle(self, case, r):
        """C06: computing tau never dies (np.min / np.max of an empty selection) on a problem with variables"""
        if "exc" in r:
            return "crash: compute_tau raised %s: %s" % (r["exc"], r.get("msg"))
        if r["code"] == 3:
            return "crash: compute_tau raised ValueError (%s) under ActiveSetType.%s" % (r.get("msg"), KINDS[case["kind"]])
        return None

    def key(self, case, r):
        return "compute_tau:" + ("crash" if self.oracle(case, r) else "mismatch")
