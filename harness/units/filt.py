"""Units filter_seq / filter_update: PenaltyFilter.filter_insert and .update driven directly."""
import itertools
import sys
import types

sys.path.insert(0, __import__("os").environ.get("VERIF_REPO", "/repo"))
from ..common import cq, cb, cn, clist, cpair
from ..unit import Unit


def _filter(rho=1.0):
    from pygradflow.params import Params
    from pygradflow.penalty import ObjectivePenaltyFilter
    return ObjectivePenaltyFilter(None, Params(rho=rho))


def dominated(a, b):
    return a[0] <= b[0] and a[1] <= b[1]


def pareto_oracle(points, snaps):
    """The property text, checked directly on what the implementation did."""
    prev = []
    for p, (entries, ok) in zip(points, snaps):
        p = tuple(p)
        entries = [tuple(e) for e in entries]
        should_refuse = any(dominated(e, p) for e in prev)
        if ok == should_refuse:
            return "insertion of %r %s although stored entries %r" % (p, "accepted" if ok else "refused", prev)
        if ok:
            want = [e for e in prev if not dominated(p, e)] + [p]
            if entries != want:
                return "accepting %r left entries %r, expected %r" % (p, entries, want)
        elif entries != prev:
            return "refusing %r changed the entries" % (p,)
        for i, a in enumerate(entries):
            for j, b in enumerate(entries):
                if i != j and dominated(a, b):
                    return "entries %r and %r are not mutually non-dominated" % (a, b)
        prev = entries
    return None


class FilterSeq(Unit):
    name = "filter_seq"
    header = "From Verif Require Import CorrPenalty."
    check_fn = "check_filter_seq"
    tag_fn = "tag_filter_seq"

    def gen(self, g, tier):
        cases = []
        if tier == "thorough":
            grid = [(a, b) for a in (0.0, 1.0, 2.0) for b in (0.0, 1.0, 2.0)]
            for L in range(0, 5):
                for seq in itertools.product(grid, repeat=L):
                    cases.append({"pts": [list(p) for p in seq]})
            nrand = 3000
        else:
            grid = [(a, b) for a in (0.0, 1.0) for b in (0.0, 1.0)]
            for L in range(0, 5):
                for seq in itertools.product(grid, repeat=L):
                    cases.append({"pts": [list(p) for p in seq]})
            nrand = 400
        r = g.rng
        for _ in range(nrand):
            L = r.randint(1, 40)
            style = r.random()
            pts = []
            for _ in range(L):
                if style < 0.4:      # small grid: many ties and duplicates
                    pts.append([float(r.randint(0, 4)), float(r.randint(0, 4))])
                elif style < 0.7:    # fine-grained floats (only comparisons are involved; small literals keep Coq's parser fast)
                    pts.append([r.randint(-2 ** 20, 2 ** 20) / 1024.0, r.randint(0, 2 ** 20) / 4096.0])
                else:                # roughly a front: a up, b down, with noise
                    k = r.randint(0, 30)
                    pts.append([float(k) + r.choice([0, 0, 0.5]), float(30 - k) + r.choice([0, 0, -0.5, 1.0])])
            cases.append({"pts": pts})
        # a long front (more mutually non-dominated points than any bounded memory would keep), then old members again
        for n in (70, 100):
            pts = [[float(i), float(n - i)] for i in range(n)]
            pts += [[0.0, float(n)], [1.0, float(n) + 1.0], [float(n // 2), float(n - n // 2)], [0.5, float(n) - 0.5]]
            cases.append({"pts": pts})
        # hair-thin fronts: mutually non-dominated points that differ by a few units of 2^-44 (far below any rounding
        # to decimals), then probes that are dominated / dominating by exactly one such unit
        for e in (-44, -40, -47):
            h = 2.0 ** e
            pts = [[1.0 + k * h, 1.0 - k * h] for k in (3, 0, 6, 1, 7, 2, 5, 4)]
            pts += [[1.0 + 2 * h, 1.0 - 1 * h], [1.0 + 1 * h, 1.0 - 2 * h], [1.0 + 3 * h, 1.0 - 3 * h], [1.0 + 8 * h, 1.0 - 9 * h],
                    [1.0 - h, 1.0 - 8 * h]]
            cases.append({"pts": pts})
        return cases

    def impl(self, case):
        f = _filter()
        snaps = []
        for a, b in case["pts"]:
            ok = f.filter_insert(a, b)
            snaps.append([[list(e) for e in f.entries], bool(ok)])
        return {"snaps": snaps}

    def term(self, case, result):
        pts = clist([cpair(cq(a), cq(b)) for a, b in case["pts"]])
        snaps = result.get("snaps", [])
        steps = clist([cpair(cb(ok), cn(len(es))) for es, ok in snaps])
        # full snapshots: every step for short histories, every 8th and the last for long ones
        idx = [i for i in range(len(snaps)) if len(snaps) <= 6 or i % 8 == 7 or i == len(snaps) - 1]
        full = clist([cpair(cn(i), clist([cpair(cq(a), cq(b)) for a, b in snaps[i][0]])) for i in idx])
        return "(%s, %s, %s)" % (pts, steps, full)

    def tag_name(self, tag):
        return "refused=%d,removing=%d" % (tag % 100, tag // 100)

    def nontrivial(self, case, result, tag):
        return tag is not None and tag > 0

    def oracle(self, case, result):
        if "exc" in result:
            return "filter_insert raised %s" % result["exc"]
        return pareto_oracle(case["pts"], result["snaps"])

    def key(self, case, result):
        return "filter_seq:pareto"


class FilterUpdate(Unit):
    name = "filter_update"
    header = "From Verif Require Import CorrPenalty."
    check_fn = "check_filter_update"
    tag_fn = "tag_filter_update"

    def gen(self, g, tier):
        r = g.rng
        cases = []
        for _ in range(1500 if tier == "thorough" else 250):
            L = r.randint(1, 18)      # at most 18 refusals: rho0 * 10^18 is still exact in binary64
            rho0 = r.choice([1.0, 0.5, 2.0, 0.125])
            es = [[float(r.randint(0, 5)), float(r.randint(0, 5)) / 2] for _ in range(L)]
            cases.append({"rho0": rho0, "entries": es})
        return cases

    def impl(self, case):
        f = _filter(case["rho0"])
        out = []
        for a, b in case["entries"]:
            it = types.SimpleNamespace(obj=a, cons_violation=b)
            res = f.update(None, it)
            out.append([float(res.next_rho), bool(res.accept), float(f.rho), len(f.entries)])
        return {"trace": out}

    def term(self, case, result):
        es = clist([cpair(cq(a), cq(b)) for a, b in case["entries"]])
        tr = clist(["(Some (%s, %s, %s, %s))" % (cq(r), cb(a), cq(s), cn(n)) for r, a, s, n in result.get("trace", [])])
        return "(%s, %s, %s)" % (cq(case["rho0"]), es, tr)

    def tag_name(self, tag):
        return "vetoes=%d" % tag

    def nontrivial(self, case, result, tag):
        return bool(tag)

    def oracle(self, case, result):
        if "exc" in result:
            return "PenaltyFilter.update raised %s" % result["exc"]
        rho = case["rho0"]
        prev_n = 0
        entries = []
        for (a, b), (nr, acc, frho, n) in zip(case["entries"], result["trace"]):
            refuse = any(dominated(e, (a, b)) for e in entries)
            if refuse:
                if acc or nr != rho * 10.0 or frho != rho * 10.0:
                    return "refused point (%r,%r): accept=%r next_rho=%r, expected veto and rho %r" % (a, b, acc, nr, rho * 10.0)
                rho = rho * 10.0
            else:
                if (not acc) or nr != rho or frho != rho:
                    return "accepted point (%r,%r): accept=%r next_rho=%r, expected acceptance and unchanged rho %r" % (a, b, acc, nr, rho)
                entries = [e for e in entries if not dominated((a, b), e)] + [(a, b)]
            if n != len(entries):
                return "filter has %d entries, expected %d" % (n, len(entries))
        return None

    def key(self, case, result):
        return "filter_update:policy"
