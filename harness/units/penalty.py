"""Unit penalty: the six penalty policies' update() driven with scripted iterate data (one variable, one
constraint, all data powers of two so that the float arithmetic of the policies is exact)."""
import sys
import types
from fractions import Fraction

sys.path.insert(0, __import__("os").environ.get("VERIF_REPO", "/repo"))
import numpy as np
import scipy.sparse as sps

from ..common import cq, cb, cn, clist, cpair, copt
from ..unit import Unit

POL = ["Constant", "DualNorm", "DualEquilibration", "ParetoDecrease", "ObjectiveFilter", "LagrangianFilter"]
CPOL = ["Constant", "DualNorm", "DualEquil", "Pareto", "ObjFilter", "LagFilter"]
C1E10 = Fraction(1e-10)


def p2(r, lo=-3, hi=3):
    return r.choice([-1.0, 1.0]) * 2.0 ** r.randint(lo, hi)


def stub(d, m0=False):
    y = np.array([] if m0 else [d["y"]])
    c = np.array([] if m0 else [d["c"]])
    J = sps.csr_matrix(np.zeros((0, 1))) if m0 else sps.csr_matrix(np.array([[d["j"]]]))
    g = np.array([d["g"]])
    it = types.SimpleNamespace(y=y, cons=c, obj=d["obj"], cons_jac=J, obj_grad=g,
                               cons_violation=(0.0 if m0 else abs(d["c"])))
    it.aug_lag_deriv_x = lambda rho: g + J.T.dot(rho * c + y)
    it.aug_lag_deriv_y = lambda: c
    return it


def pareto_bound(d):
    """min(obj_bound, cons_bound) of ParetoDecrease.update, in exact arithmetic (None: not finite)"""
    g, j, c, y = (Fraction(d[k]) for k in ("g", "j", "c", "y"))
    res = j * c
    obj_prod = g * res
    cdp = j * y
    obj_bound = None
    if abs(obj_prod) > C1E10:
        obj_bound = -(abs(g) + cdp * g) / obj_prod
    if res == 0:
        return None
    cons_bound = -(res * (g + cdp)) / abs(res)
    return cons_bound if obj_bound is None else min(obj_bound, cons_bound)


class Penalty(Unit):
    name = "penalty"
    header = "From Verif Require Import CorrPenalty."
    check_fn = "check_penalty"
    tag_fn = "tag_penalty"
    exact_fn = "exact_penalty"
    shard = 150

    def gen(self, g, tier):
        r = g.rng
        cases = []
        for k in range(1800 if tier == "thorough" else 360):
            pol = k % 6
            m0 = (pol in (0, 1)) and r.random() < 0.15
            rho0 = 2.0 ** r.randint(-4, 2)
            big = pol == 1 and r.random() < 0.2          # penalties beyond any fixed cap (1e10, ...)
            otol = r.choice([0.0, 2.0 ** -6, 0.5])
            itol = r.choice([0.0, 2.0 ** -6, 0.5])
            L = r.randint(1, 8)
            ds = []
            for _ in range(L):
                d = {"y": (p2(r, 36, 50) if big else p2(r, -4, 8)) if r.random() < 0.85 else 0.0, "c": p2(r, -4, 3) if r.random() < 0.9 else 0.0,
                     "j": p2(r, -2, 2), "g": (p2(r, -2, 2) if r.random() < 0.85 else 0.0), "obj": float(r.randint(-8, 8)) / 2}
                ds.append(d)
            if big:
                rho0 = 2.0 ** r.randint(34, 40)
            cases.append({"pol": pol, "m0": m0, "rho0": rho0, "otol": otol, "itol": itol, "ds": ds})
        return cases

    def impl(self, case):
        from pygradflow.params import Params, PenaltyUpdate
        from pygradflow.penalty import penalty_strategy
        params = Params(rho=case["rho0"], opt_tol=case["otol"], local_infeas_tol=case["itol"],
                        penalty_update=PenaltyUpdate[POL[case["pol"]]])
        problem = types.SimpleNamespace(num_cons=0 if case["m0"] else 1, var_bounded=False)
        st = penalty_strategy(problem, params)
        out = []
        first = stub(case["ds"][0], case["m0"])
        st.initial(first)
        try:
            for d in case["ds"]:
                it = stub(d, case["m0"])
                res = st.update(first, it)
                own = getattr(st, "rho", params.rho)
                out.append([float(res.next_rho), bool(res.accept), float(own), len(getattr(st, "entries", []))])
        except AssertionError:
            out.append(None)
        return {"trace": out}

    def pdata(self, case, d):
        m0 = case["m0"]
        y, c, j, g = d["y"], d["c"], d["j"], d["g"]
        b = pareto_bound(d) if case["pol"] == 3 else None
        lag = ("(fun rho : Q => ((%s + %s * (rho * %s + %s)) * (%s + %s * (rho * %s + %s)) + %s * %s, qabs %s))"
               % (cq(g), cq(j), cq(c), cq(y), cq(g), cq(j), cq(c), cq(y), cq(c), cq(c), cq(c)))
        return ("(Build_pdata %s %s %s %s %s %s %s %s)"
                % (cb(m0), cq(0.0 if m0 else abs(y)), cq(0.0 if m0 else abs(y * c)), cq(0.0 if m0 else 0.5 * c * c),
                   cq(0.0 if m0 else abs(j * c)), copt(b, cq), cpair(cq(d["obj"]), cq(0.0 if m0 else abs(c))), lag))

    def term(self, case, r):
        prm = "(Build_pparams %s %s %s)" % (cq(case["rho0"]), cq(case["otol"]), cq(case["itol"]))
        tr = clist(["None" if t is None else "(Some (%s, %s, %s, %s))" % (cq(t[0]), cb(t[1]), cq(t[2]), cn(t[3]))
                    for t in r.get("trace", [])])
        return "(%s, %s, %s, %s)" % (CPOL[case["pol"]], prm, clist([self.pdata(case, d) for d in case["ds"]]), tr)

    def tag_name(self, t):
        return "%s,raises=%s,vetoes=%s" % (POL[t % 10], "0" if (t // 10) % 100 == 0 else ">0", "0" if t // 1000 == 0 else ">0")

    def nontrivial(self, case, r, t):
        return t is not None and t >= 10

    def oracle(self, case, r):
        """C16 / C18 on what the implementation did"""
        if "exc" in r:
            return "penalty update raised %s: %s" % (r["exc"], r.get("msg"))
        rho = case["rho0"]
        for k, t in enumerate(r["trace"]):
            if t is None:
                return "assert: an internal assertion of penalty.py fired at update %d" % k
            nr, acc, own, n = t
            if own <= 0 or nr <= 0:
                return "positive: update %d produced rho %r" % (k, nr)
            if own < rho:
                return "monotone: update %d lowered the policy's rho from %r to %r" % (k, rho, own)
            if nr < rho and case["pol"] != 0:
                return "monotone: update %d announced rho %r below the previous %r" % (k, nr, rho)
            if case["pol"] == 0 and (nr != case["rho0"] or not acc):
                return "constant: the constant policy announced %r" % nr
            if case["pol"] == 1:
                d = case["ds"][k]
                if own > 10 * rho:
                    return "dualnorm: raised by more than a factor ten (%r -> %r)" % (rho, own)
                if own > max(rho, 0.0 if case["m0"] else abs(d["y"])):
                    return "dualnorm: rho %r exceeds max(rho, |y|_inf) = %r" % (own, max(rho, abs(d["y"])))
            rho = own
        return None

    def key(self, case, r):
        return "penalty:" + (self.oracle(case, r) or "mismatch").split(":")[0]
