"""Unit loop: the real Solver.solve (real _check_terminate, loop body, compute_step wrapper, penalty
policies, display timer, Timer, result assembly, restore_sol) driven by a scripted `step` of the step
controller and a virtual clock, against Loop.run on the same script (CorrLoop.v)."""
import sys

sys.path.insert(0, __import__("os").environ.get("VERIF_REPO", "/repo"))
import numpy as np

from ..common import cq, cb, cn, clist, cvec, copt
from ..qp import QuadProblem, Spec, INF
from ..unit import Unit
from .numeric import csc, gen_scaling, internal_point, make_params, fl

POLICIES = {"Constant": "Constant", "DualNorm": "DualNorm", "ObjectiveFilter": "ObjFilter",
            "LagrangianFilter": "LagFilter"}


class FakeTime:
    def __init__(self, values):
        self.values = list(values)
        self.k = 0

    def time(self):
        v = self.values[self.k] if self.k < len(self.values) else (self.values[-1] if self.values else 0.0)
        self.k += 1
        return v


def run_scripted(case, log_level=None, callbacks=True, collect=None, subclass_hook=None):
    """Runs Solver.solve with a scripted controller.step and a virtual clock; returns a JSON-able record."""
    import logging
    import pygradflow.solver as S
    import pygradflow.timer as T
    from pygradflow.iterate import Iterate
    from pygradflow.params import PenaltyUpdate
    from pygradflow.callbacks import CallbackType
    from pygradflow.step.step_control import StepController, StepControlResult
    from pygradflow.step.step_solver_error import StepSolverError
    from pygradflow.eval import EvalError
    from pygradflow.log import logger

    spec = Spec.from_json(case["spec"])
    prob = QuadProblem(spec, fmt=case.get("fmt", "coo"))
    kw = dict(active_tol=case["atol"], opt_tol=case["otol"], local_infeas_tol=case["itol"],
              iteration_limit=case["iter_limit"], time_limit=(INF if case["time_limit"] is None else case["time_limit"]),
              obj_lower_limit=case["obj_lower"], lamb_init=case["lamb_init"], lamb_max=case["lamb_max"],
              lamb_min=case.get("lamb_min", 1e-12),
              penalty_update=PenaltyUpdate[case["policy"]], rho=case["rho"],
              display_interval=(INF if case["interval"] is None else case["interval"]),
              collect_path=case["collect"] if collect is None else collect)
    params = make_params(case["sc"], **kw)
    script = case["script"]
    trials = []
    ann = []

    class Scripted(StepController):
        def __init__(self, problem, params):
            super().__init__(problem, params)
            self.i = 0

        def step(self, iterate, rho, dt, display, timer):
            k = self.i
            self.i += 1
            a = script[k] if k < len(script) else {"fail": True, "checks": 0}
            for _ in range(a["checks"]):
                if timer.reached_time_limit():
                    # as ExactController does: the trial is abandoned, iterate and step size stay as they are
                    return StepControlResult(iterate, 1.0 / dt, None, None, False)
            if a.get("fail"):
                if a.get("kind") == "eval":
                    raise EvalError("scripted", iterate.x)
                raise StepSolverError("scripted")
            it = Iterate(problem_ref[0], params, np.array(a["x"], dtype=float), np.array(a["y"], dtype=float), iterate.eval)
            return StepControlResult(it, a["lamb"], None, None, a["acc"])

    class Sol(S.Solver):
        def _compute_step(self, controller, iterate, rho, dt, display, timer):
            res = super()._compute_step(controller, iterate, rho, dt, display, timer)
            trials.append([float(rho), float(dt), bool(display), float(res.lamb), bool(res.accepted)])
            return res

    problem_ref = [None]
    ft = FakeTime(case["clock"])
    old_time, old_sc = T.time, S.step_controller
    old_level = logger.level
    T.time = ft
    S.step_controller = lambda problem, params: Scripted(problem, params)
    logger.setLevel(logging.ERROR if log_level is None else log_level)
    out = {}
    try:
        solver = Sol(prob, params)
        problem_ref[0] = solver.problem
        if callbacks:
            solver.callbacks.register(CallbackType.ComputedStep,
                                      lambda it, nx, acc: ann.append([fl(it.z), fl(nx.z), bool(acc)]))
        try:
            res = solver.solve(np.array(case["x0"], dtype=float), np.array(case["y0"], dtype=float))
            out = {"kind": {"Optimal": 0, "IterationLimit": 1, "TimeLimit": 2, "Unbounded": 3,
                            "LocallyInfeasible": 4}[res.status.name],
                   "iters": int(res.iterations), "nacc": int(res.num_accepted_steps),
                   "x": fl(res.x), "y": fl(res.y), "d": fl(res.d), "dist_factor": float(res.dist_factor),
                   "path": [fl(c) for c in np.asarray(res.path).T] if res.path is not None else [],
                   "times": fl(res.model_times) if res.model_times is not None else [],
                   "reads": ft.k - 1}
        except AssertionError as e:
            out = {"kind": 11, "msg": repr(e)[:200]}
        except Exception as e:
            if "exceeded maximum" in str(e):
                out = {"kind": 10, "msg": str(e)[:120]}
            else:
                import traceback
                out = {"kind": 12, "msg": "%s: %s" % (type(e).__name__, str(e)[:200]), "tb": traceback.format_exc()[-900:]}
    finally:
        T.time = old_time
        S.step_controller = old_sc
        logger.setLevel(old_level)
    out.setdefault("iters", 0)
    out.setdefault("nacc", 0)
    for k in ("x", "y", "d", "path", "times"):
        out.setdefault(k, [])
    out.setdefault("reads", 0)
    out["announced"] = ann
    out["trials"] = trials
    return out


def gen_case(g, tier):
    r = g.rng
    policy = r.choice(["Constant", "DualNorm", "DualNorm", "ObjectiveFilter", "LagrangianFilter"])
    mmax = 1 if policy == "LagrangianFilter" else 3       # ||c||_2 is exact for m <= 1 only
    spec = g.spec(nmax=3, mmax=mmax)
    sc = gen_scaling(g, spec)
    L = r.randint(1, 10)
    atol = 2.0 ** -r.choice([2, 3, 8])
    otol = r.choice([0.0, 0.0, 0.0, 0.25, 0.25, 1.0, 4.0, 16.0])
    itol = r.choice([0.0, 0.0, 0.0, 0.5, 2.0, 16.0, 64.0])
    lamb_init = 2.0 ** r.randint(-3, 3)
    lamb_max = 2.0 ** r.choice([4, 5, 6, 40])
    # the start: in the user's box
    x0 = g.point_in_box(spec.lb, spec.ub)
    y0 = g.vec(spec.m, kmax=8, jmax=1)
    script = []
    lam = lamb_init
    pool = []                 # iterates to revisit (so that "unchanged" / repeated points occur)
    for k in range(L):
        c = r.random()
        checks = r.choice([0, 0, 1, 2, 3])
        if c < 0.15:
            script.append({"fail": True, "kind": r.choice(["step", "eval"]), "checks": checks})
            continue
        x = internal_point(g, spec, sc, style="box")
        y = g.vec(spec.m, kmax=12, jmax=1)
        if pool and r.random() < 0.2:
            x, y = r.choice(pool)
        pool.append((x, y))
        acc = r.random() < 0.7
        f = r.choice([0.5, 0.5, 1.0, 2.0, 2.0, 4.0]) if acc else r.choice([2.0, 2.0, 4.0, 1.0])
        lam = lamb_init * 2.0 ** r.randint(-4, 4) if r.random() < 0.2 else lam * f
        lam = max(lam, 2.0 ** -20)
        script.append({"x": x, "y": y, "lamb": lam, "acc": acc, "checks": checks})
    il = r.choice([None, L, L, r.randint(0, L), r.randint(0, L)])
    if il is None:
        il = L
    # clock: non-decreasing dyadic reads; a deadline somewhere inside, after, or none
    nreads = 4 * L + 12
    t = float(r.randint(0, 64))
    clock = []
    for _ in range(nreads):
        t += r.choice([0.0, 0.0, 0.25, 0.5, 1.0, 2.0])
        clock.append(t)
    tl = None if r.random() < 0.5 else float(r.choice([0.0, 0.5, 1.0, 2.0, 4.0, 8.0, 8.0, 16.0, 16.0, 32.0]))
    interval = r.choice([None, None, 0.0, 0.5, 1.0, 4.0])
    rho = r.choice([1.0, 0.5, 2.0, 0.125, 4.0])
    if r.random() < 0.12:
        # a clock far from zero with a limit that is not a multiple of its resolution: `start + limit` is not a binary64
        # number, `limit - (now - start)` is; a Timer that precomputes the deadline stops at a different read
        unit = 2.0 ** -22
        t = 2.0 ** 30 + r.randint(0, 8) * unit
        clock = []
        for _ in range(nreads):
            t += r.choice([0, 0, 1, 1, 2, 4]) * unit
            clock.append(t)
        tl = r.choice([1.25, 2.5, 3.25, 5.25, 9.5]) * unit
        interval = None
    if r.random() < 0.12:
        # penalties far below any absolute tolerance: a raise from 2^-40 to 10 * 2^-40 is a raise
        rho = 2.0 ** -r.randint(30, 45)
    return {"spec": spec.to_json(), "sc": sc, "atol": atol, "otol": otol, "itol": itol, "iter_limit": il,
            "time_limit": tl, "obj_lower": r.choice([-1e10, -1e10, -1e10, -1e10, -8.0, 0.0, 64.0]),
            "lamb_init": lamb_init, "lamb_max": lamb_max, "policy": policy,
            "rho": rho, "lamb_min": r.choice([1e-12, 1e-12, 0.25, 1.0, 8.0]),     # the controllers' business, not the loop's
            "interval": interval, "collect": r.random() < 0.6, "script": script, "clock": clock,
            "x0": x0, "y0": y0, "fmt": r.choice(["coo", "csr", "csc"])}


def cans(a):
    if a.get("fail"):
        return "(SFail %s)" % cn(a["checks"])
    return "(SAns %s %s %s %s %s)" % (cvec(a["x"]), cvec(a["y"]), cq(a["lamb"]), cb(a["acc"]), cn(a["checks"]))


class Loop(Unit):
    name = "loop"
    header = "From Verif Require Import CorrLoop."
    check_fn = "check_loop"
    tag_fn = "tag_loop"
    shard = 40

    def gen(self, g, tier):
        return [gen_case(g, tier) for _ in range(1500 if tier == "thorough" else 240)]

    def impl(self, case):
        return run_scripted(case)

    def term(self, case, r):
        spec = Spec.from_json(case["spec"])
        ann = clist(["(%s, %s, %s)" % (cvec(a), cvec(b), cb(c)) for a, b, c in r["announced"]])
        tr = clist(["(%s, %s, %s, %s, %s)" % (cq(a), cq(b), cb(c), cq(l), cb(ac)) for a, b, c, l, ac in r["trials"]])
        return ("(mk_lcase %s %s %s %s %s %s %s %s %s %s %s %s %s %s %s %s %s %s %s %s %s %s %s %s %s %s %s %s %s)"
                % (spec.to_coq(), csc(case["sc"]), cq(case["atol"]), cq(case["otol"]), cq(case["itol"]),
                   copt(case["iter_limit"], cn), copt(case["time_limit"], cq), cq(case["obj_lower"]),
                   cq(case["lamb_init"]), cq(case["lamb_max"]), POLICIES[case["policy"]], cq(case["rho"]),
                   copt(case["interval"], cq), cb(case["collect"]),
                   clist([cans(a) for a in case["script"]]), cvec(case["clock"]),
                   cvec(case["x0"]), cvec(case["y0"]),
                   cn(r["kind"]), cn(r["iters"]), cn(r["nacc"]), cvec(r["x"]), cvec(r["y"]), cvec(r["d"]),
                   ann, tr, clist([cvec(p) for p in r["path"]]), cvec(r["times"]), cn(r["reads"])))

    def tag_name(self, t):
        k = t % 100
        nm = {0: "Optimal", 1: "IterationLimit", 2: "TimeLimit", 3: "Unbounded", 4: "LocallyInfeasible",
              10: "LambdaError", 11: "InternalAssert", 12: "OutOfFuel"}.get(k, str(k))
        return "%s,not_accepted=%s,accepted=%s" % (nm, "0" if (t // 100) % 100 == 0 else ">0", "0" if t // 10000 == 0 else ">0")

    def nontrivial(self, case, r, t):
        return t is not None and (t // 100) > 0

    def oracle(self, case, r):
        return loop_oracle(case, r)

    def key(self, case, r):
        return "loop:" + (loop_oracle(case, r) or "mismatch").split(":")[0]


def loop_oracle(case, r):
    """The loop-level clauses of C02/C08/C12/C15/C16, checked directly on what the implementation did."""
    if r["kind"] == 12:
        return "crash: solve() raised %s" % r.get("msg")
    if r["kind"] == 11:
        if case["rho"] > 0:
            return "crash: internal assertion %s" % r.get("msg")
        return None
    ann, trials = r["announced"], r["trials"]
    # C15: dt chain and lamb_max
    script = case["script"]
    lam = case["lamb_init"]
    for k, (rho, dt, disp, lret, aret) in enumerate(trials):
        if dt != 1.0 / lam:
            return "dt_chain: trial %d used dt %r but the previous trial returned lambda %r" % (k, dt, lam)
        if lam >= case["lamb_max"] and k > 0:
            return "lamb_max: trial %d computed although lambda %r >= lamb_max" % (k, lam)
        if k < len(ann):
            a = script[k] if k < len(script) else {"fail": True}
            zf, zt, acc = ann[k]
            if zf != zt and not acc and a.get("fail"):
                return "reject_keeps_point: failed trial %d changed the announced point" % k
        if not aret and k < len(ann) and ann[k][0] != ann[k][1] and (script[k] if k < len(script) else {"fail": 1}).get("fail"):
            return "reject_keeps_point: failed trial %d announced a different point" % k
        if not aret and lret <= lam and (script[k] if k < len(script) else {"fail": 1}).get("fail"):
            # a trial abandoned at a deadline test returns its lambda unchanged; it is then the last trial and the solve
            # ends with TimeLimit / IterationLimit
            abandoned = (lret == lam and case["time_limit"] is not None and k == len(trials) - 1
                         and r.get("kind") in (1, 2) and (script[k] if k < len(script) else {}).get("checks", 0) > 0)
            if not abandoned:
                return "fail_doubles: failed trial %d returned lambda %r, not larger than %r" % (k, lret, lam)
        lam = lret
    # C16: rho positive (if it started positive) and non-decreasing
    if case["rho"] > 0:
        prev = None
        for k, (rho, dt, disp, lret, aret) in enumerate(trials):
            if rho <= 0:
                return "rho_positive: trial %d used rho %r" % (k, rho)
            if prev is not None and rho < prev:
                return "rho_monotone: trial %d used rho %r after %r" % (k, rho, prev)
            if case["policy"] == "Constant" and rho != case["rho"]:
                return "rho_constant: trial %d used rho %r under the constant policy" % (k, rho)
            prev = rho
    if case["rho"] > 0 and case["policy"] == "DualNorm":
        # C16: never beyond max(rho0, largest |y|_inf of an iterate accepted so far), at most x10 per accepted step
        m_ = len(case["y0"])
        best = case["rho"]
        for k, (rho, dt, disp, lret, aret) in enumerate(trials):
            if rho > best:
                return "rho_dualnorm: trial %d used rho %r > max(rho0, |y|_inf of accepted iterates) = %r" % (k, rho, best)
            if k > 0 and rho > 10 * trials[k - 1][0]:
                return "rho_dualnorm: rho raised by more than a factor ten at trial %d" % k
            if k < len(ann) and ann[k][2] and m_ > 0:
                zt = ann[k][1]
                best = max(best, max(abs(v) for v in zt[len(zt) - m_:]))
    if r["kind"] == 2:
        # C02: TimeLimit only after the deadline has passed — some clock reading of this run must show it (the Timer is
        # created at the second read; exact rational arithmetic on the virtual clock)
        from fractions import Fraction
        tl = case["time_limit"]
        reads = r.get("reads") or 0
        if tl is None:
            return "time_limit: status TimeLimit without a time limit"
        if reads >= 2:
            start = Fraction(case["clock"][1])
            if all(Fraction(t) - start < Fraction(tl) for t in case["clock"][1:reads]):
                return ("time_limit: status TimeLimit although no clock reading of the run shows the limit reached "
                        "(largest elapsed time %r, limit %r)" % (float(max(Fraction(t) - start for t in case["clock"][1:reads])), tl))
    if r["kind"] in (0, 1, 2, 3, 4):
        # C12
        if r["iters"] != len(ann):
            return "counters: iterations %d but %d announced steps" % (r["iters"], len(ann))
        il = case["iter_limit"]
        if il is not None and r["iters"] > il:
            return "iteration_limit: %d iterations with limit %d" % (r["iters"], il)
        if (r["kind"] == 1) != (il is not None and r["iters"] == il) and r["kind"] == 1:
            return "iteration_limit: status IterationLimit with %d iterations, limit %r" % (r["iters"], il)
        if case["collect"] or r["path"]:
            if len(r["path"]) != r["nacc"] + 1:
                return "path: %d columns but %d accepted steps" % (len(r["path"]), r["nacc"])
            ts = r["times"]
            if len(ts) != len(r["path"]) or (ts and ts[0] != 0.0):
                return "path: model_times malformed"
        if r.get("dist_factor", 1.0) < 1.0:
            return "dist_factor: %r < 1" % r["dist_factor"]
        # C12 chain: each announced step starts at the current iterate; the iterate moves only to the
        # `next` of a step announced as accepted; the number of moves is the accepted-step count; the
        # result is the last point moved to; model times advance by the dt handed to the adopted trials
        spec = Spec.from_json(case["spec"])
        n, m = spec.n, spec.m
        sc = case["sc"] or {"vw": [0] * n, "cw": [0] * m, "ow": 0}
        import numpy as _np
        x0u = _np.array(case["x0"], dtype=float)
        cur = None
        moves = 0
        dts = []
        for k, (zf, zt, acc) in enumerate(ann):
            if cur is not None and zf != cur:
                return "chain: announced step %d starts at %r but the current iterate is %r" % (k, zf, cur)
            if cur is None and zf[:n] != list(_np.ldexp(x0u, _np.array(sc["vw"], dtype=int))):
                return "chain: the first announced step does not start at the transformed x0"
            cur = zf
            nxt = ann[k + 1][0] if k + 1 < len(ann) else None
            if nxt is None:
                # last step: adopted iff the result is its `next`
                # (both x and y are compared: a veto after an accepted zero step leaves nacc > moves)
                xu = list(_np.ldexp(_np.array(zt[:n]), -_np.array(sc["vw"], dtype=int)))
                yu = list(_np.ldexp(_np.array(zt[len(zt) - m:]), _np.array(sc["cw"], dtype=int) - sc["ow"])) if m else []
                moved = acc and zt != zf and xu == r["x"] and yu == r["y"] and r["nacc"] > moves
                if moved:
                    moves += 1
                    dts.append(trials[k][1])
                    cur = zt
            elif nxt != zf or (acc and nxt == zt and zt == zf and False):
                if nxt != zt:
                    return "chain: iterate jumped to a point that was never announced (step %d)" % k
                if not acc:
                    return "chain: step %d was announced as not accepted but the iterate moved" % k
                moves += 1
                dts.append(trials[k][1])
                cur = zt
        if cur is not None:
            xu = list(_np.ldexp(_np.array(cur[:n]), -_np.array(sc["vw"], dtype=int)))
            yu = list(_np.ldexp(_np.array(cur[len(cur) - m:]), _np.array(sc["cw"], dtype=int) - sc["ow"])) if m else []
            if xu != r["x"] or yu != r["y"]:
                return "final: the returned (x, y) is not the last accepted point"
        distinct_moves = moves
        if r["nacc"] < distinct_moves:
            return "counters: %d accepted steps reported but the iterate changed %d times" % (r["nacc"], distinct_moves)
        if r["times"] and len(dts) == r["nacc"]:
            ts = r["times"]
            for k, d in enumerate(dts):
                if ts[k + 1] - ts[k] != d:
                    return "model_times: step %d advanced the model time by %r, step size used was %r" % (k, ts[k + 1] - ts[k], d)
    return None
