"""Unit linsolve: the LU / GMRES / MINRES wrappers with the scipy backends replaced by scripted stubs (exact
comparison with LinSolve.v), plus sampling of the real backends against the backend contract (labelled as such)."""
import sys

sys.path.insert(0, __import__("os").environ.get("VERIF_REPO", "/repo"))
import numpy as np
import scipy.sparse as sps

from ..common import cq, cb, cn, cz, clist, cvec, cmat, copt
from ..unit import Unit

KINDS = ["LU", "GMRES", "MINRES"]


def run_wrapper(case, real=False):
    import scipy.sparse.linalg as SL
    from pygradflow.linear_solver import LinearSolverError, linear_solver
    from pygradflow.params import LinearSolverType
    n = len(case["rhs"])
    A = sps.coo_matrix(np.array(case["A"], dtype=float).reshape(n, n)).asformat(case["fmt"])
    rec = {"called": False, "bmat": [], "brhs": [], "bx0": None, "btrans": False, "odd": None}
    script = np.array(case["script"], dtype=float)

    class Factor:
        def __init__(self, M):
            self.M = M

        def solve(self, rhs, trans="N", **kw):
            rec.update(called=True, bmat=self.M, brhs=[float(v) for v in rhs], bx0=None, btrans=(trans == "T"))
            if kw or trans not in ("N", "T"):
                rec["odd"] = "factor.solve options %r %r" % (trans, kw)
            return script.copy()

    def splu(M, *a, **kw):
        if a or kw:
            rec["odd"] = "splu options %r %r" % (a, kw)
        if not case["splu_ok"]:
            raise RuntimeError("Factor is exactly singular")
        return Factor(np.asarray(M.toarray(), dtype=float).tolist())

    def iterative(name):
        def f(M, rhs, *a, **kw):
            x0 = kw.pop("x0", None)
            exp = {"maxiter": n, "atol": 1e-8} if name == "gmres" else {}
            if a or kw != exp:
                rec["odd"] = "%s options %r %r" % (name, a, kw)
            rec.update(called=True, bmat=np.asarray(M.toarray(), dtype=float).tolist(), brhs=[float(v) for v in rhs],
                       bx0=None if x0 is None else [float(v) for v in x0], btrans=False)
            return script.copy(), case["info"]
        return f

    old = (SL.splu, SL.gmres, SL.minres)
    if not real:
        SL.splu, SL.gmres, SL.minres = splu, iterative("gmres"), iterative("minres")
    try:
        if case.get("warm") and case["fmt"] in ("csr", "csc"):
            # another solver has just been built for a different matrix with the same format, shape and stored values
            # (the pattern differs): every solver object answers for the matrix it was given
            B = A.copy()
            B.indices = (n - 1 - B.indices).astype(B.indices.dtype)
            try:
                linear_solver(B, LinearSolverType[KINDS[case["kind"]]], symmetric=case["sym"]).solve(np.array(case["rhs"], dtype=float))
            except (LinearSolverError, AssertionError):
                pass
            rec.update(called=False, bmat=[], brhs=[], bx0=None, btrans=False, odd=None)
        try:
            s = linear_solver(A, LinearSolverType[KINDS[case["kind"]]], symmetric=case["sym"])
        except LinearSolverError:
            return dict(rec, outcome=1, sol=[])
        except AssertionError:
            return dict(rec, outcome=2, sol=[])
        x0 = case["x0"]
        init = None if x0 is None else (lambda: np.array(x0, dtype=float))
        if case.get("warm"):
            # the same solver object has already answered the opposite request: each solve is judged by its own flag
            try:
                s.solve(np.array(case["rhs"], dtype=float), trans=not case["trans"], initial_sol=init)
            except LinearSolverError:
                pass
            rec.update(called=False, bmat=[], brhs=[], bx0=None, btrans=False, odd=None)     # what is recorded is the measured solve
        try:
            v = s.solve(np.array(case["rhs"], dtype=float), trans=case["trans"], initial_sol=init)
            out = dict(rec, outcome=0, sol=[float(t) for t in v])
        except LinearSolverError:
            out = dict(rec, outcome=1, sol=[])
        if rec["odd"]:
            out["outcome"] = 9
        return out
    finally:
        SL.splu, SL.gmres, SL.minres = old


class LinSolve(Unit):
    name = "linsolve"
    header = "From Verif Require Import CorrLin."
    check_fn = "check_linsolve"
    tag_fn = "tag_linsolve"
    shard = 200

    def gen(self, g, tier):
        r = g.rng
        cases = []
        for k in range(1500 if tier == "thorough" else 300):
            n = r.randint(1, 4)
            A = [[g.dy(kmax=6, jmax=1) if r.random() < 0.7 else 0.0 for _ in range(n)] for _ in range(n)]
            sym = r.random() < 0.6
            if sym:
                for i in range(n):
                    for j in range(i):
                        A[i][j] = A[j][i]
            x0 = None
            rhs = g.vec(n, kmax=8, jmax=1)
            if r.random() < 0.12:
                rhs = [v * 2.0 ** -40 for v in rhs]        # a tiny right-hand side is a right-hand side
            c = r.random()
            if c < 0.25:       # an initial guess that solves the system exactly
                x0 = g.vec(n, kmax=4, jmax=1)
                M = np.array(A).T if (r.random() < 0.5) else np.array(A)
                rhs = [float(v) for v in M.dot(np.array(x0))]
            elif c < 0.5:
                x0 = g.vec(n, kmax=4, jmax=1)
            cases.append({"kind": k % 3, "A": A, "rhs": rhs, "trans": r.random() < 0.5, "x0": x0, "sym": sym, "warm": k % 2 == 1,
                          "splu_ok": r.random() < 0.8, "script": g.vec(n, kmax=8, jmax=2),
                          "info": r.choice([0, 0, 0, 1, n, -1, -3]), "fmt": r.choice(["coo", "csr", "csc"])})
        return cases

    def impl(self, case):
        return run_wrapper(case)

    def term(self, case, r):
        if "exc" in r:
            r = {"outcome": 8, "sol": [], "called": False, "bmat": [], "brhs": [], "bx0": None, "btrans": False}
        return ("(mk_lincase %s %s %s %s %s %s %s %s %s %s %s %s %s %s %s %s)"
                % (cn(case["kind"]), cmat(case["A"]), cvec(case["rhs"]), cb(case["trans"]), copt(case["x0"], cvec), cb(case["sym"]),
                   cb(case["splu_ok"]), cvec(case["script"]), cz(case["info"]),
                   cn(r["outcome"]), cvec(r["sol"]), cb(r["called"]), cmat(r["bmat"]), cvec(r["brhs"]), copt(r["bx0"], cvec), cb(r["btrans"])))

    def tag_name(self, t):
        return "%s,%s%s" % (KINDS[t % 10], {0: "ok", 1: "LinearSolverError", 2: "assert"}[(t // 10) % 10], ",early_return" if t >= 100 else "")

    def nontrivial(self, case, r, t):
        return t is not None and t >= 10

    def oracle(self, case, r):
        """C17 on the wrapper: never hand back a vector the backend flagged as unconverged; singular factorisation and
        non-converged iteration raise the dedicated error"""
        if "exc" in r:
            return "crash: linear solver wrapper raised %s: %s" % (r["exc"], r.get("msg"))
        if r["outcome"] == 9:
            return "backend_call: backend called with unexpected options (%s)" % r.get("odd")
        k = KINDS[case["kind"]]
        if k == "LU" and not case["splu_ok"] and r["outcome"] != 1:
            return "lu_fail_loud: singular factorisation did not raise LinearSolverError"
        if k in ("GMRES", "MINRES") and r["called"] and case["info"] != 0 and r["outcome"] == 0:
            return "unconverged: %s returned a vector although the backend reported info=%d" % (k, case["info"])
        if k in ("GMRES", "MINRES") and r["called"] and case["info"] == 0 and r["outcome"] != 0 and not (k == "MINRES" and not case["sym"]):
            return "spurious_error: %s raised although the backend converged" % k
        if k == "GMRES" and r["called"]:
            M = np.array(case["A"]).T if case["trans"] else np.array(case["A"])
            if np.array(r["bmat"]).tolist() != M.tolist():
                return "transpose: GMRES handed the wrong matrix to the backend for trans=%r" % case["trans"]
        if k == "LU" and r["called"] and r["btrans"] != case["trans"]:
            return "transpose: LU solved with trans=%r for a request trans=%r" % (r["btrans"], case["trans"])
        return None

    def key(self, case, r):
        return "linsolve:" + (self.oracle(case, r) or "mismatch").split(":")[0]


def backend_sampling(rep, g, tier):
    """Sampling of the REAL backends against the contract the model assumes of them (not a proof, labelled so)."""
    from pygradflow.linear_solver import LinearSolverError
    r = g.rng
    rng = np.random.default_rng(r.randint(0, 2 ** 31))
    N = 400 if tier == "thorough" else 80
    stats = {"systems": 0, "raised": 0, "max_backward_error_lu": 0.0, "max_rel_residual_iter": 0.0, "singular_raised": 0, "singular": 0}
    for t in range(N):
        n = int(rng.integers(2, 30))
        kind = t % 3
        style = r.choice(["kkt", "kkt", "unsym", "singular", "tiny_diag"])
        if kind == 2 and style == "unsym":
            style = "kkt"
        if style in ("kkt", "tiny_diag"):
            k = max(1, n // 3)
            H = rng.normal(size=(n - k, n - k)); H = H + H.T + (n - k) * np.eye(n - k)
            if style == "tiny_diag":
                H[0, 0] = 1e-12 * rng.normal()
                H[0, 1:] = H[1:, 0] = rng.normal(size=n - k - 1)
            Jm = rng.normal(size=(k, n - k))
            A = np.block([[H, Jm.T], [Jm, -1e-2 * np.eye(k)]])
        elif style == "unsym":
            A = rng.normal(size=(n, n)) + n * np.eye(n)
        else:
            A = rng.normal(size=(n, n)); A[:, -1] = 0.0; A[-1, :] = 0.0
        b = rng.normal(size=n)
        case = {"kind": kind, "A": A.tolist(), "rhs": b.tolist(), "trans": bool(rng.integers(0, 2)) and kind != 2,
                "x0": None if rng.random() < 0.6 else (np.linalg.lstsq(A, b, rcond=None)[0] + 1e-3 * rng.normal(size=n)).tolist(),
                "sym": style in ("kkt", "tiny_diag"), "splu_ok": True, "script": [], "info": 0, "fmt": r.choice(["coo", "csr", "csc"])}
        if kind == 2 and not case["sym"]:
            continue
        try:
            out = run_wrapper(case, real=True)
        except Exception as e:
            # anything but the dedicated LinearSolverError (which run_wrapper records as outcome 1) escaping a wrapper
            rep.failure("linsolve:foreign_exception",
                        "%s let %s escape instead of returning a solution or raising LinearSolverError: %s (style %s)"
                        % (KINDS[kind], type(e).__name__, str(e)[:100], style),
                        {"kind": "oracle", "unit": "linsolve_real", "case": case, "impl": {"exc": type(e).__name__}})
            continue
        stats["systems"] += 1
        M = A.T if case["trans"] else A
        if style == "singular":
            stats["singular"] += 1
            if out["outcome"] == 1:
                stats["singular_raised"] += 1
            elif kind == 0:
                # an all-zero row and column: the direct solver must fail loudly
                rep.failure("linsolve:singular_not_reported", "LU returned a vector for a structurally singular system instead of raising LinearSolverError",
                            {"kind": "oracle", "unit": "linsolve_real", "case": case, "impl": out})
                continue
            elif False:
                v = np.array(out["sol"])
                if not np.all(np.isfinite(v)):
                    rep.failure("linsolve:nonfinite", "LU returned a non-finite vector for a structurally singular system",
                                {"kind": "oracle", "unit": "linsolve_real", "case": case, "impl": out})
            continue
        if out["outcome"] == 1:
            stats["raised"] += 1
            continue
        v = np.array(out["sol"])
        if not np.all(np.isfinite(v)):
            rep.failure("linsolve:nonfinite", "%s returned a non-finite vector" % KINDS[kind],
                        {"kind": "oracle", "unit": "linsolve_real", "case": case, "impl": out})
            continue
        res = np.linalg.norm(b - M.dot(v))
        if kind == 0:
            be = res / (np.linalg.norm(M, 2) * np.linalg.norm(v) + np.linalg.norm(b))
            stats["max_backward_error_lu"] = max(stats["max_backward_error_lu"], float(be))
            if be > 1e-10:
                rep.failure("linsolve:backward_error", "LU backward error %.2e on a well-conditioned system (style %s)" % (be, style),
                            {"kind": "oracle", "unit": "linsolve_real", "case": case, "impl": out})
        else:
            # stated tolerances: GMRES ||r|| <= max(1e-5 ||b||, 1e-8); MINRES ||r|| <= 1e-5 (||A|| ||x|| + ||b||)
            if kind == 1:
                bound = max(1e-5 * np.linalg.norm(b), 1e-8)
            else:
                bound = 1e-5 * (np.linalg.norm(M, 2) * np.linalg.norm(v) + np.linalg.norm(b))
            rel = res / bound
            stats["max_rel_residual_iter"] = max(stats["max_rel_residual_iter"], float(rel))
            if rel > 100.0:
                rep.failure("linsolve:residual", "%s returned a vector whose residual is %.1e times its stated tolerance, without raising" % (KINDS[kind], rel),
                            {"kind": "oracle", "unit": "linsolve_real", "case": case, "impl": out})
    rep.cov["oracle"]["backend_contract_sampling (validation of the assumed backend contract, not a proof)"] = stats
    rep.cov["evaluations"] += stats["systems"]
