"""Unit flow: Flow.rhs and RestrictedFlow.residuum (the optimality measure behind the flow-integration solver's status
Optimal) against Flow.v."""
import sys

sys.path.insert(0, __import__("os").environ.get("VERIF_REPO", "/repo"))
import numpy as np

from ..common import cq, cvec
from ..qp import QuadProblem, Spec, INF
from ..unit import Unit
from .numeric import fl


class FlowUnit(Unit):
    name = "flow"
    header = "From Verif Require Import CorrFlow."
    check_fn = "check_flow"
    tag_fn = "tag_flow"
    exact_fn = "exact_flow"
    shard = 100

    def gen(self, g, tier):
        r = g.rng
        cases = []
        for k in range(1200 if tier == "thorough" else 240):
            spec = g.spec(nmax=3, mmax=2)
            x = g.point_in_box(spec.lb, spec.ub)
            for j in range(spec.n):          # components exactly on a bound: these are the ones the measure may drop
                c = r.random()
                if c < 0.3 and spec.lb[j] > -INF:
                    x[j] = spec.lb[j]
                elif c < 0.6 and spec.ub[j] < INF:
                    x[j] = spec.ub[j]
            y = g.vec(spec.m, kmax=8, jmax=1)
            sj = spec.to_json()
            if k % 3 == 0 and spec.m > 0:
                # small constraint values, so that the penalty term rho J^T c and the gradient compete in sign
                probe = QuadProblem(spec)
                cv = probe.cons(np.array(x, dtype=float))
                sj["c0"] = [float(a - b + r.choice([0.0, 2.0 ** -6, -2.0 ** -6])) for a, b in zip(sj["c0"], cv)]
            cases.append({"spec": sj, "x": x, "y": y, "rho": r.choice([0.0, 0.5, 1.0, 2.0, 16.0]),
                          "filter": [r.random() < 0.5 for _ in range(spec.n)], "fmt": r.choice(["coo", "csr", "csc"])})
        return cases

    def impl(self, case):
        from pygradflow.eval import create_evaluator
        from pygradflow.integration.flow import Flow
        from pygradflow.integration.restricted_flow import RestrictedFlow
        from pygradflow.params import Params
        spec = Spec.from_json(case["spec"])
        prob = QuadProblem(spec, fmt=case["fmt"])
        params = Params()
        flow = Flow(prob, params, create_evaluator(prob, params))
        z = np.concatenate([np.array(case["x"], dtype=float), np.array(case["y"], dtype=float)])
        # the filter says which variables the flow currently holds; optimality of the point does not depend on it
        rf = RestrictedFlow(flow, np.array(case["filter"], dtype=bool))
        return {"rhs": fl(flow.rhs(z, case["rho"])), "res": float(rf.residuum(z))}

    def term(self, case, r):
        spec = Spec.from_json(case["spec"])
        if "exc" in r:
            r = {"rhs": [12345.0], "res": 12345.0}
        return "(mk_flcase %s %s %s %s %s %s)" % (spec.to_coq(), cvec(case["x"]), cvec(case["y"]), cq(case["rho"]),
                                                  cvec(r["rhs"]), cq(r["res"]))

    def tag_name(self, t):
        return "dropped=%d,at_bound=%d" % (t % 10, t // 10)

    def nontrivial(self, case, r, t):
        return t is not None and t // 10 > 0

    def oracle(self, case, r):
        """C01 for the flow-integration solver, on what the implementation computed: where its optimality measure is
        within a tolerance, the KKT residual of the point (with the bound multipliers the solver itself reports) is too"""
        if "exc" in r:
            return "flow raised %s: %s" % (r["exc"], r.get("msg"))
        from pygradflow.iterate import Iterate
        from pygradflow.params import Params
        spec = Spec.from_json(case["spec"])
        prob = QuadProblem(spec, fmt=case["fmt"])
        it = Iterate(prob, Params(), np.array(case["x"], dtype=float), np.array(case["y"], dtype=float))
        # total_res is measured in the infinity norm, the optimality measure in the 2-norm: res >= total_res
        stat = float(np.linalg.norm(it.stat_res if np.ndim(it.stat_res) else [it.stat_res], np.inf))
        cv = float(np.linalg.norm(prob.cons(np.array(case["x"], dtype=float)), np.inf)) if spec.m else 0.0
        kkt = max(stat, cv)
        if kkt > r["res"] * (1.0 + 1e-9) + 1e-12:
            return ("optimal: the optimality measure of the flow-integration solver is %r at a point whose KKT residual "
                    "(stationarity with the reported bound multipliers, constraint violation) is %r" % (r["res"], kkt))
        return None

    def key(self, case, r):
        return "flow:" + (self.oracle(case, r) or "mismatch").split(":")[0]
