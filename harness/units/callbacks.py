"""Unit callbacks: random register / unregister / dispatch sequences on pygradflow.callbacks.Callbacks against
Callbacks.v (what each operation returns / raises / calls, in order)."""
import sys

sys.path.insert(0, __import__("os").environ.get("VERIF_REPO", "/repo"))

from ..common import cn, cb, clist
from ..unit import Unit


class CallbacksUnit(Unit):
    name = "callbacks"
    header = "From Verif Require Import Vec Callbacks."
    check_fn = "check_callbacks"
    tag_fn = "tag_callbacks"
    shard = 200

    def gen(self, g, tier):
        r = g.rng
        cases = []
        for k in range(1000 if tier == "thorough" else 200):
            ops, nreg = [], 0
            for _ in range(r.randint(1, 14)):
                c = r.random()
                if c < 0.4 or nreg == 0:
                    ops.append(["reg"])
                    nreg += 1
                elif c < 0.65:
                    ops.append(["unreg", r.randrange(nreg)])      # maybe one that is gone already
                else:
                    ops.append(["dispatch"])
            cases.append({"ops": ops})
        return cases

    def impl(self, case):
        from pygradflow.callbacks import Callbacks, CallbackType
        cbs = Callbacks()
        handles, outs, log = [], [], []
        for op in case["ops"]:
            if op[0] == "reg":
                k = len(handles)
                # (what a callback returns is its own business: some return a truthy value)
                handles.append(cbs.register(CallbackType.ComputedStep,
                                            (lambda k: lambda *a: (log.append(k), k % 2 == 0)[1])(k)))
                outs.append(["handle", k])
            elif op[0] == "unreg":
                try:
                    cbs.unregister(handles[op[1]])
                    outs.append(["unreg", True])
                except ValueError:
                    outs.append(["unreg", False])
            else:
                del log[:]
                cbs(CallbackType.ComputedStep, None, None, True)
                outs.append(["called", list(log)])
        return {"outs": outs}

    def term(self, case, r):
        def op(o):
            return {"reg": "CbRegister", "dispatch": "CbDispatch"}.get(o[0]) or "(CbUnregister %s)" % cn(o[1])

        def out(o):
            if o[0] == "handle":
                return "(OHandle %s)" % cn(o[1])
            if o[0] == "unreg":
                return "(OUnreg %s)" % cb(o[1])
            return "(OCalled %s)" % clist([cn(i) for i in o[1]])
        outs = r.get("outs", [["handle", 999]]) if "exc" not in r else [["handle", 999]]
        return "(mk_cbcase %s %s)" % (clist([op(o) for o in case["ops"]]), clist([out(o) for o in outs]))

    def tag_name(self, t):
        return "live_handles=%d,unregister_of_absent=%d" % (t % 10, t // 10)

    def nontrivial(self, case, r, t):
        return t is not None and t % 10 > 0

    def oracle(self, case, r):
        """C12: every dispatch calls exactly the handles registered and not unregistered so far, each once, in order"""
        if "exc" in r:
            return "callbacks: the registry raised %s: %s" % (r["exc"], r.get("msg"))
        live, n = [], 0
        for o, res in zip(case["ops"], r["outs"]):
            if o[0] == "reg":
                live.append(n)
                n += 1
            elif o[0] == "unreg":
                if o[1] in live:
                    live.remove(o[1])
            elif res[1] != live:
                return "callbacks: a dispatch called %r, the registered callbacks are %r" % (res[1], live)
        return None

    def key(self, case, r):
        return "callbacks:" + ("dispatch" if self.oracle(case, r) else "mismatch")
