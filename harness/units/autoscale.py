"""Unit autoscale: Scaling.from_nominal_values / from_grad_jac / from_equilibrated_kkt against AutoScale.v."""
import sys

sys.path.insert(0, __import__("os").environ.get("VERIF_REPO", "/repo"))
import numpy as np
import scipy.sparse as sps

from ..common import cq, cz, cn, clist, cvec, cmat
from ..unit import Unit


def mag(r, k0, spread=8):
    """+-odd * 2^k with k in a window around k0 (so that sums of a few such numbers are exact)"""
    return r.choice([-1.0, 1.0]) * r.choice([1, 1, 3, 5, 7]) * 2.0 ** (k0 + r.randint(-spread, spread))


class AutoScale(Unit):
    name = "autoscale"
    header = "From Verif Require Import CorrScale."
    check_fn = "check_autoscale"
    tag_fn = "tag_autoscale"
    shard = 150

    def gen(self, g, tier):
        r = g.rng
        cases = []
        for k in range(1500 if tier == "thorough" else 300):
            kind = k % 3
            n = r.randint(1, 4)
            m = r.randint(0, 3)
            k0 = r.choice([0, 0, -3, 3, -12, 12, -40, 40])
            dens = r.choice([0.4, 0.7, 1.0])
            def val():
                return mag(r, k0) if r.random() < dens else 0.0
            v1 = [val() for _ in range(n)]
            v2 = [val() for _ in range(m)]
            J = [[val() for _ in range(n)] for _ in range(m)]
            H = [[0.0] * n for _ in range(n)]
            for i in range(n):
                for j in range(i, n):
                    H[i][j] = H[j][i] = val()
            int_dtype = r.random() < 0.3
            if kind == 1 and k % 6 == 1 and m > 0:
                # small integer Jacobian entries under large gradient components: every prescaled entry is below one
                v1 = [r.choice([-1.0, 1.0]) * 2.0 ** r.randint(5, 8) for _ in range(n)]
                J = [[float(r.choice([0, 1, 1, 2, 3, -1, -2])) for _ in range(n)] for _ in range(m)]
                int_dtype = True
            cases.append({"kind": kind, "v1": v1, "v2": v2, "H": H, "J": J, "fmt": r.choice(["coo", "csr", "csc"]),
                          "int_dtype": int_dtype})
        # magnitudes far outside 2^+-62 (binary64 goes to 2^+-1000): the exponent is taken as it is, not clamped
        for sgn in (1, -1):
            v1 = [2.0 ** (-70 * sgn), 3.0 * 2.0 ** (80 * sgn), -(2.0 ** (100 * sgn)), 5.0 * 2.0 ** (-100 * sgn)]
            v2 = [2.0 ** (-90 * sgn), -(2.0 ** (75 * sgn))]
            J = [[2.0 ** (80 * sgn), 0.0, 2.0 ** (-65 * sgn), 0.0], [0.0, 3.0 * 2.0 ** (-120 * sgn), 0.0, 2.0 ** (64 * sgn)]]
            H = [[0.0] * 4 for _ in range(4)]
            for kind in (0, 1):
                cases.append({"kind": kind, "v1": v1, "v2": v2, "H": H, "J": J, "fmt": "coo", "int_dtype": False})
        return cases

    def impl(self, case):
        from pygradflow.scale import Scaling
        n, m = len(case["v1"]), len(case["J"])
        Jd = np.array(case["J"], dtype=float).reshape(m, n)
        if case.get("int_dtype") and np.all(Jd == np.round(Jd)) and np.all(np.abs(Jd) < 2 ** 40):
            Jd = Jd.astype(np.int64)       # integer-typed derivative data are the same numbers
        J = sps.coo_matrix(Jd).asformat(case["fmt"])
        H = sps.coo_matrix(np.array(case["H"], dtype=float).reshape(n, n)).asformat(case["fmt"])
        try:
            if case["kind"] == 0:
                s = Scaling.from_nominal_values(np.array(case["v1"]), np.array(case["v2"]))
            elif case["kind"] == 1:
                s = Scaling.from_grad_jac(np.array(case["v1"]), J)
            else:
                s = Scaling.from_equilibrated_kkt(H, J)
        except Exception as e:
            if "Equilibration failed" in str(e):
                return {"res": None}
            raise
        return {"res": [[int(v) for v in s.var_weights], [int(v) for v in s.cons_weights], int(s.obj_weight)]}

    def term(self, case, r):
        res = r.get("res", [[99], [], 0]) if "exc" not in r else [[99], [], 0]
        e = "None" if res is None else "(Some (%s, %s, %s))" % (clist([cz(v) for v in res[0]]), clist([cz(v) for v in res[1]]), cz(res[2]))
        return "(mk_acase %s %s %s %s %s %s)" % (cn(case["kind"]), cvec(case["v1"]), cvec(case["v2"]), cmat(case["H"]), cmat(case["J"]), e)

    def tag_name(self, t):
        return "%s,small_entries=%d,nonzero_weights=%d%s" % (["nominal", "gradjac", "kkt"][t % 10], (t // 10) % 10, (t // 100) % 10,
                                                            ",not_converged" if t >= 1000 else "")

    def nontrivial(self, case, r, t):
        return t is not None and t >= 100

    def oracle(self, case, r):
        """C20 on the implementation's output: scaled magnitudes in [1,2) (resp. column sums in [1,4))"""
        if "exc" in r:
            return "scaling computation raised %s: %s" % (r["exc"], r.get("msg"))
        if r["res"] is None:
            return None
        vw, cw, ow = np.array(r["res"][0], dtype=int), np.array(r["res"][1], dtype=int), r["res"][2]
        n, m = len(case["v1"]), len(case["J"])
        if case["kind"] == 0:
            for nm, vals, w in (("variable", case["v1"], vw), ("constraint", case["v2"], cw)):
                for v, k in zip(vals, w):
                    if v != 0.0 and not (1.0 <= abs(np.ldexp(v, int(k))) < 2.0):
                        return "nominal: %s value %r scaled to %r, not in [1,2)" % (nm, v, abs(np.ldexp(v, int(k))))
        elif case["kind"] == 1:
            g = np.array(case["v1"])
            for j in range(n):
                if g[j] != 0.0 and not (1.0 <= abs(np.ldexp(g[j], int(ow - vw[j]))) < 2.0):
                    return "gradjac: gradient component %r scaled to %r, not in [1,2)" % (g[j], abs(np.ldexp(g[j], int(ow - vw[j]))))
            J = np.array(case["J"], dtype=float).reshape(m, n)
            for i in range(m):
                row = np.abs(np.ldexp(J[i], cw[i] - vw))
                if np.any(J[i] != 0.0) and not (1.0 <= row.max() < 2.0):
                    return "gradjac: largest entry of Jacobian row %d scaled to %r, not in [1,2)" % (i, row.max())
        else:
            H = np.array(case["H"], dtype=float).reshape(n, n)
            J = np.array(case["J"], dtype=float).reshape(m, n)
            K = np.block([[H, J.T], [J, np.zeros((m, m))]])
            w = np.concatenate([-vw, cw])
            Ks = np.abs(np.ldexp(K, w[:, None] + w[None, :]))
            for j in range(n + m):
                sj = Ks[:, j].sum()
                if sj >= 1e-10 and not (1.0 <= sj < 4.0):
                    return "kkt: column %d of the scaled KKT matrix has absolute sum %r, not in [1,4)" % (j, sj)
        return None

    def key(self, case, r):
        return "autoscale:" + (self.oracle(case, r) or "mismatch").split(":")[0]


class CreateScaling(Unit):
    """scale.py create_scaling through the Solver constructor: which data each ScalingType feeds to the three
    constructors above (the scaling point itself for Nominal, not a clamped or shifted copy)"""
    name = "create_scaling"
    header = "From Verif Require Import CorrScale."
    check_fn = "check_create_scaling"
    tag_fn = "tag_create_scaling"
    shard = 100

    def gen(self, g, tier):
        r = g.rng
        cases = []
        for k in range(600 if tier == "thorough" else 120):
            spec = g.spec(nmax=3, mmax=2)
            n, m = spec.n, spec.m
            k0 = r.choice([0, 0, -3, -6, 3])
            xs = [r.choice([0.0, 1.0, -1.0, 3.0, 5.0, -7.0]) * 2.0 ** (k0 + r.randint(-2, 2)) for _ in range(n)]
            ys = [r.choice([0.0, 1.0, -1.0, 2.0]) for _ in range(m)]
            case = {"kind": k % 3, "spec": spec.to_json(), "xs": xs, "ys": ys, "fmt": r.choice(["coo", "csr", "csc"])}
            if k % 12 == 9:
                # Single precision, nominal values a hair below a power of two (binary64 numbers that round UP to the
                # power in binary32): the scaling is computed from the scaling point as given.  Affine rows keep c(xs) exact.
                case["kind"] = 0
                case["single"] = True
                def below(v):
                    import math
                    if v == 0.0:
                        return 1.0 - 2.0 ** -30
                    return v * (1.0 - 2.0 ** -30) if math.frexp(abs(v))[0] == 0.5 else v
                case["xs"] = [below(v) for v in xs]
                case["spec"]["A"] = [[[0.0] * n for _ in range(n)] for _ in range(m)]
            cases.append(case)
        return cases

    def impl(self, case):
        from pygradflow.params import Params, ScalingType
        from pygradflow.solver import Solver
        from ..qp import QuadProblem, Spec
        spec = Spec.from_json(case["spec"])
        prob = QuadProblem(spec, fmt=case["fmt"])
        if spec.m == 0:
            # an unconstrained problem need not define the constraint callbacks at all
            def undefined(*a, **k):
                raise NotImplementedError("this problem has no constraints")
            prob.cons = undefined
            prob.cons_jac = undefined
        st = [ScalingType.Nominal, ScalingType.GradJac, ScalingType.KKT][case["kind"]]
        kw = {}
        if case.get("single"):
            from pygradflow.params import Precision
            kw["precision"] = Precision.Single
        params = Params(scaling_type=st, scaling_primal=np.array(case["xs"], dtype=float), scaling_dual=np.array(case["ys"], dtype=float), **kw)
        try:
            s = Solver(prob, params).transform.scaling
        except Exception as e:
            if "Equilibration failed" in str(e):
                return {"res": None}
            raise
        return {"res": [[int(v) for v in s.var_weights], [int(v) for v in s.cons_weights], int(s.obj_weight)]}

    def term(self, case, r):
        from ..qp import Spec
        res = r.get("res", [[99], [], 0]) if "exc" not in r else [[99], [], 0]
        e = "None" if res is None else "(Some (%s, %s, %s))" % (clist([cz(v) for v in res[0]]), clist([cz(v) for v in res[1]]), cz(res[2]))
        return "(mk_cscase %s %s %s %s %s)" % (cn(case["kind"]), Spec.from_json(case["spec"]).to_coq(), cvec(case["xs"]), cvec(case["ys"]), e)

    def tag_name(self, t):
        return AutoScale.tag_name(self, t)

    def nontrivial(self, case, r, t):
        return t is not None and t >= 100

    def oracle(self, case, r):
        """C20's Nominal clause on the scaling the solver built: every non-zero nominal variable value has scaled magnitude in [1,2)"""
        if "exc" in r:
            return "create_scaling raised %s: %s" % (r["exc"], r.get("msg"))
        if r["res"] is None or case["kind"] != 0:
            return None
        for v, k in zip(case["xs"], r["res"][0]):
            if v != 0.0 and not (1.0 <= abs(np.ldexp(v, int(k))) < 2.0):
                return "nominal: variable value %r scaled to %r, not in [1,2)" % (v, abs(np.ldexp(v, int(k))))
        return None

    def key(self, case, r):
        return "create_scaling:" + (self.oracle(case, r) or "mismatch").split(":")[0]
