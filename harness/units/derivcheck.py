"""Unit derivcheck: Solver.solve(deriv_check=...) on quadratic problems with one derivative entry corrupted,
against DerivCheck.v; plus the twin run showing that a passing check does not alter the solve."""
import sys

sys.path.insert(0, __import__("os").environ.get("VERIF_REPO", "/repo"))
import numpy as np

from ..common import cq, cb, cn, clist, cvec, copt
from ..qp import QuadProblem, Spec
from ..unit import Unit
from .numeric import csc, gen_scaling, make_params


class Corrupted(QuadProblem):
    def __init__(self, spec, corrupt, **kw):
        super().__init__(spec, **kw)
        self.corrupt = corrupt          # None or (which, r, c, delta)
        self.benign = False             # the user's callbacks raise a harmless IEEE flag (an exp that underflows to 0)

    def _flag(self):
        if self.benign:
            np.exp(np.array([-1000.0]))

    def obj(self, x):
        self._flag()
        return super().obj(x)

    def cons(self, x):
        self._flag()
        return super().cons(x)

    def obj_grad(self, x):
        self._flag()
        g = np.array(super().obj_grad(x), dtype=float)
        if self.corrupt and self.corrupt[0] == 0:
            g[self.corrupt[2]] += self.corrupt[3]
        return g

    def cons_jac(self, x):
        J = super().cons_jac(x)
        if self.corrupt and self.corrupt[0] == 1:
            D = J.toarray()
            D[self.corrupt[1], self.corrupt[2]] += self.corrupt[3]
            return self._sparse(D)
        return J

    def lag_hess(self, x, y):
        H = super().lag_hess(x, y)
        if self.corrupt and self.corrupt[0] == 2:
            D = H.toarray()
            D[self.corrupt[1], self.corrupt[2]] += self.corrupt[3]
            return self._sparse(D)
        return H


def run_solve(case, check=True, **over):
    import logging
    from pygradflow.deriv_check import DerivError
    from pygradflow.log import logger
    from pygradflow.params import DerivCheck
    from pygradflow.solver import Solver
    spec = Spec.from_json(case["spec"])
    prob = Corrupted(spec, case["corrupt"], fmt=case["fmt"])
    prob.benign = bool(case.get("benign"))
    flag = DerivCheck.NoCheck
    if check:
        if case["first"]:
            flag |= DerivCheck.CheckFirst
        if case["second"]:
            flag |= DerivCheck.CheckSecond
    kw = dict(deriv_check=flag, deriv_pert=case["eps"], deriv_tol=case["atol"], iteration_limit=3)
    kw.update(over)
    params = make_params(case["sc"], **kw)
    lvl = logger.level
    logger.setLevel(logging.ERROR)
    try:
        solver = Solver(prob, params)
        try:
            res = solver.solve(np.array(case["x0"]), np.array(case["y0"]))
            return {"res": None, "x": [float(v) for v in res.x], "y": [float(v) for v in res.y], "status": res.status.name,
                    "iters": int(res.iterations)}
        except DerivError as e:
            return {"res": [[int(i) for i in e.invalid_indices], int(e.col_index)]}
        except Exception as e:
            if "exceeded maximum" in str(e):
                return {"res": None, "lambda_error": True}
            raise
    finally:
        logger.setLevel(lvl)


class DerivCheckUnit(Unit):
    name = "derivcheck"
    header = "From Verif Require Import CorrDeriv."
    check_fn = "check_derivcheck"
    tag_fn = "tag_derivcheck"
    shard = 60

    def gen(self, g, tier):
        r = g.rng
        cases = []
        for k in range(1200 if tier == "thorough" else 240):
            spec = g.spec(nmax=3, mmax=2)
            sc = gen_scaling(g, spec)
            x0 = g.point_in_box(spec.lb, spec.ub)
            y0 = g.vec(spec.m, kmax=4, jmax=1)
            which = r.choice([None, 0, 1, 2, 0, 1, 2]) if spec.m > 0 else r.choice([None, 0, 2, 0, 2])
            corrupt = None
            atol = r.choice([2.0 ** -4, 2.0 ** -2, 1.0, 2.0 ** -8])      # the last one is below sqrt(deriv_pert)
            if which is not None:
                rr = 0 if which == 0 else (r.randrange(spec.m) if which == 1 else r.randrange(spec.n))
                cc = r.randrange(spec.n)
                delta = r.choice([-1.0, 1.0]) * atol * r.choice([0.25, 0.5, 2.0, 4.0, 16.0])
                if which in (1, 2) and r.random() < 0.25:
                    # the wrong entry is a MISSING one: the only entry of its column is dropped from the provided
                    # derivative, which leaves the column structurally empty (affine rows / constant Hessian, so that the
                    # provided value is exactly zero at every point)
                    v = r.choice([-4.0, -2.0, 2.0, 4.0])
                    n_, m_ = spec.n, spec.m
                    spec.A = [[[0.0] * n_ for _ in range(n_)] for _ in range(m_)]
                    if which == 1:
                        for i in range(m_):
                            spec.B[i][cc] = 0.0
                        spec.B[rr][cc] = v
                    else:
                        rr = cc
                        for i in range(n_):
                            spec.P[i][cc] = spec.P[cc][i] = 0.0
                        spec.P[cc][cc] = v
                    delta = -v
                if which == 1 and spec.m >= 2 and r.random() < 0.6:
                    # another row with curvature in the same column: its (correct) entry differs from the difference
                    # quotient by the truncation error, which is within the tolerance: only the wrong row may be named
                    i2 = r.choice([i for i in range(spec.m) if i != rr])
                    spec.A[i2][cc][cc] = r.choice([-4.0, -2.0, 2.0, 4.0])
                    if r.random() < 0.4:
                        # ... of large magnitude, with a truncation error above atol alone but within atol + rtol * |entry|
                        spec.A[i2][cc][cc] = r.choice([-1.0, 1.0]) * 2.0 ** 8
                        spec.B[i2][cc] = r.choice([-1.0, 1.0]) * 2.0 ** 15
                        atol = 2.0 ** -4
                        delta = r.choice([-1.0, 1.0]) * atol * 16.0
                corrupt = [which, rr, cc, delta]
            cases.append({"spec": spec.to_json(), "sc": sc, "corrupt": corrupt, "x0": x0, "y0": y0,
                          "first": r.random() < 0.85, "second": r.random() < 0.85, "eps": 2.0 ** -10, "atol": atol,
                          "fmt": r.choice(["coo", "csr", "csc", "csc_dup"]), "benign": len(cases) % 3 == 2})
        return cases

    def impl(self, case):
        return run_solve(case)

    def term(self, case, r):
        spec = Spec.from_json(case["spec"])
        c = case["corrupt"] or [9, 0, 0, 0.0]
        res = r.get("res") if "exc" not in r else [[999], 999]
        e = "None" if res is None else "(Some (%s, %s))" % (clist([cn(i) for i in res[0]]), cn(res[1]))
        return ("(mk_dcase %s %s %s %s %s %s %s %s %s %s %s %s %s)"
                % (spec.to_coq(), csc(case["sc"]), cn(c[0]), cn(c[1]), cn(c[2]), cq(c[3]), cvec(case["x0"]), cvec(case["y0"]),
                   cb(case["first"]), cb(case["second"]), cq(case["eps"]), cq(case["atol"]), e))

    def tag_name(self, t):
        return "%s,corrupted=%s" % ("rejected" if t % 10 else "accepted", {0: "gradient", 1: "jacobian", 2: "hessian", 9: "nothing"}[t // 10])

    def nontrivial(self, case, r, t):
        return t is not None and t % 10 == 1

    def oracle(self, case, r):
        """C19 directly: correct derivatives pass; an entry wrong by clearly more than the tolerance is reported with
        exactly its row and column (user-space row/column = internal row/column for original variables); a passing
        check leaves the solve unchanged"""
        if "exc" in r:
            return "crash: derivative check raised %s: %s" % (r["exc"], r.get("msg"))
        c = case["corrupt"]
        spec = Spec.from_json(case["spec"])
        sc = case["sc"] or {"vw": [0] * spec.n, "cw": [0] * spec.m, "ow": 0}
        # "well-scaled": the truncation error of the difference quotient (eps/2 times the curvature the checker sees, i.e.
        # of the scaled problem) is well below the tolerance; otherwise a rejection of correct derivatives is legitimate
        trunc = 0.0
        for j in range(spec.n):
            trunc = max(trunc, 0.5 * case["eps"] * abs(spec.P[j][j]) * 2.0 ** (sc["ow"] - 2 * sc["vw"][j]))
            for i in range(spec.m):
                trunc = max(trunc, 0.5 * case["eps"] * abs(spec.A[i][j][j]) * 2.0 ** (sc["cw"][i] - 2 * sc["vw"][j]))
        well_scaled = trunc <= 0.25 * case["atol"]
        if c is None:
            if r["res"] is not None and well_scaled:
                return "false_positive: correct derivatives rejected at rows %r column %r" % (r["res"][0], r["res"][1])
        else:
            which, rr, cc, delta = c
            checked = case["first"] if which in (0, 1) else case["second"]
            # magnitude of the error as the checker sees it (scaled problem)
            if which == 0:
                e = abs(delta) * 2.0 ** (sc["ow"] - sc["vw"][cc])
            elif which == 1:
                e = abs(delta) * 2.0 ** (sc["cw"][rr] - sc["vw"][cc])
            else:
                e = abs(delta) * 2.0 ** (sc["ow"] - sc["vw"][rr] - sc["vw"][cc])
            if checked and e >= 4.0 * case["atol"] + 1.0:
                # far above tolerance (atol + rtol*|entry| + truncation): must be reported, at that entry
                if r["res"] is None:
                    return "missed: an entry wrong by %r (tolerance %r) was accepted" % (e, case["atol"])
                if well_scaled:
                    rows, col = r["res"]
                    want_row = 0 if which == 0 else rr
                    if col != cc or list(rows) != [want_row]:
                        return "wrong_location: the only wrong entry is (row %d, column %d) but the error names rows %r of column %r" \
                               % (want_row, cc, list(rows), col)
            if r["res"] is not None and not checked and (which in (0, 1)) == case["first"]:
                pass
        if r["res"] is None and not r.get("lambda_error"):
            twin = run_solve(case, check=False)
            if twin.get("x") != r.get("x") or twin.get("y") != r.get("y") or twin.get("status") != r.get("status"):
                return "alters_solve: the solve after a passing derivative check differs from the solve without check"
        return None

    def key(self, case, r):
        return "derivcheck:" + (self.oracle(case, r) or "mismatch").split(":")[0]


def wide_oracle(rep, tier, seed):
    """C19 beyond a couple of hundred variables: a wrong gradient / Jacobian entry in a late column is reported there."""
    import random
    from pygradflow.params import DerivCheck
    r = random.Random(seed + 19)
    n_cmp = 0
    for k in range(4 if tier == "thorough" else 2):
        n = r.choice([230, 260])
        col = r.randint(205, n - 1)
        which = k % 2
        P = [[0.0] * n for _ in range(n)]
        for i in range(n):
            P[i][i] = 1.0
        spec = Spec(P, [0.0] * n, 0.0, [[[0.0] * n for _ in range(n)]] if which else [], [[1.0] * n] if which else [],
                    [0.0] if which else [], [-1e300 if False else float("-inf")] * n, [float("inf")] * n,
                    [0.0] if which else [], [0.0] if which else [])
        case = {"spec": spec.to_json(), "sc": None, "corrupt": [which, 0, col, 8.0], "x0": [0.0] * n, "y0": [0.0] * spec.m,
                "first": True, "second": False, "eps": 2.0 ** -10, "atol": 2.0 ** -4, "fmt": "csr"}
        out = run_solve(case)
        n_cmp += 1
        if out.get("res") is None or out["res"][1] != col:
            msg = ("wide: entry (0, %d) of the %s of a %d-variable problem is wrong by 8, the derivative check reports %r"
                   % (col, "Jacobian" if which else "gradient", n, out.get("res")))
            rep.failure("derivcheck:wide", msg, {"kind": "wide", "case": {"n": n, "col": col, "which": which}, "what": msg})
    rep.cov.setdefault("oracle", {})["wide_problems"] = {"checked": n_cmp, "note": "search, not proof"}
    rep.cov["evaluations"] += n_cmp
