"""Unit pictl: pygradflow.controller.Controller (the PI controller LogController runs on log scale) against PICtl.v,
on dyadic gains / references / measurements (exact)."""
import sys

sys.path.insert(0, __import__("os").environ.get("VERIF_REPO", "/repo"))

from ..common import cq, clist, cvec
from ..unit import Unit


class PICtl(Unit):
    name = "pictl"
    header = "From Verif Require Import PICtl."
    check_fn = "check_pictl"
    tag_fn = "tag_pictl"
    shard = 300

    def gen(self, g, tier):
        r = g.rng
        cases = []
        for k in range(1000 if tier == "thorough" else 200):
            ops = []
            for _ in range(r.randint(1, 10)):
                if r.random() < 0.15:
                    ops.append(["reset"])
                else:
                    ops.append(["update", r.choice([-1.0, 1.0]) * r.randint(0, 24) / 8.0])
            cases.append({"KP": r.choice([0.0, 0.25, 0.5, 1.0, 2.0]), "KI": r.choice([0.0, 0.125, 0.5, 1.0]),
                          "ref": r.choice([-1.0, 0.0, 0.5, 2.0]), "ops": ops})
        return cases

    def impl(self, case):
        from pygradflow.controller import Controller, ControllerSettings
        c = Controller(ControllerSettings(K_P=case["KP"], K_I=case["KI"], lamb_init=1.0, lamb_red=0.5), case["ref"])
        outs = []
        for o in case["ops"]:
            if o[0] == "reset":
                c.reset()
            else:
                outs.append(float(c.update(o[1])))
        return {"outs": outs}

    def term(self, case, r):
        ops = clist(["PiReset" if o[0] == "reset" else "(PiUpdate %s)" % cq(o[1]) for o in case["ops"]])
        outs = r.get("outs", [12345.0]) if "exc" not in r else [12345.0]
        return "(mk_picase (mk_pi_cfg %s %s %s) %s %s)" % (cq(case["KP"]), cq(case["KI"]), cq(case["ref"]), ops, cvec(outs))

    def tag_name(self, t):
        return "updates=%d,with_reset=%d" % (t % 10, t // 10)

    def nontrivial(self, case, r, t):
        return t is not None and t % 10 >= 2
