"""Regenerates /verif/MANIFEST.json from one table (run: /venv/bin/python -m harness.manifest)."""
import json

BASE_NOTE = ("Trusted: Coq 8.16.1 kernel + VM (vm_compute, no native_compute); the hand-written Gallina model and its "
             "exact differential correspondence with /repo (harness/units); numpy/scipy primitive semantics. ")

CLAIMED = {
    "C18": dict(
        text="Theorems over every finite insertion history and any ordered carrier (antichain invariant, refusal iff "
             "dominated, exact removal set, refinement to 'representatives of the minimal elements of the history', "
             "policy wrapper), closed under the global context; model tied to PenaltyFilter by exact differential "
             "correspondence on enumerated and random histories on every run.",
        note=BASE_NOTE + "Float comparisons are assumed NaN-free (a total preorder).",
        technique="Coq proof: inductive invariant over insertion histories + refinement to abstract Pareto-front spec; "
                  "vm_compute differential correspondence",
        ref="4/C18"),
}

CLAIMED["C04"] = dict(
    text="Theorems for arbitrary callbacks, points, multipliers and integer weights: exact round trips of the "
         "power-of-two change of variables, restore_sol o transform_sol = id, box exactness, internal Lagrangian "
         "gradient = scaled user gradient (forces the dual / bound-dual exponents), slack columns carry -y_i, "
         "internal constraints row by row, start slacks = projection onto [l,u]; model tied to "
         "Transformation(...).trans_problem by exact correspondence on every run. Partial: exactness is over Q "
         "(IEEE exactness of ldexp absent overflow is not proved).",
    note=BASE_NOTE + "ldexp is modelled as multiplication by 2^k in Q; overflow/underflow not modelled.",
    technique="Coq proof: algebraic identities over Q lifted to lists (ring/field/lra) + vm_compute differential correspondence",
    ref="4/C04")

PENDING = {}

NOT_APPLICABLE = {
    "C03": "quantitative global-convergence (liveness + rate) claim about a floating-point heuristic: no theorem of "
           "that shape is within reach, and bounded runs may not stand in for one (DESIGN 4/C03)",
}


def build(all_ids):
    checks = []
    for pid in sorted(CLAIMED):
        c = CLAIMED[pid]
        checks.append({
            "property_id": pid,
            "quick_cmd": "./check %s --tier quick" % pid,
            "thorough_cmd": "./check %s --tier thorough" % pid,
            "evidence_file": "/verif/evidence/%s.json" % pid,
            "replay_cmd_template": "./check %s --replay {path}" % pid,
            "engine": "coq-proof+correspondence",
            "level_claimed": {"category": "proof", "text": c["text"], "design_ref": c["ref"]},
            "level_note": c["note"],
            "technique": c["technique"],
        })
    na = []
    for pid in all_ids:
        if pid in CLAIMED:
            continue
        reason = NOT_APPLICABLE.get(pid) or PENDING.get(pid) or "check not built yet in this round (see DESIGN 7)"
        na.append({"property_id": pid, "reason": reason})
    return {
        "version": 1,
        "setup_cmd": "./check --setup",
        "hooks": {
            "guard": "PYGRADFLOW_VERIF",
            "enable": "no hooks in /repo are needed: the harness subclasses / substitutes from outside; checks export PYGRADFLOW_VERIF=1 for uniformity",
            "baseline_off_cmd": "cd /repo && /venv/bin/python -m pytest -ra -q -p no:cacheprovider --timeout=900 --continue-on-collection-errors",
            "source_commits": [],
            "add_only": True,
        },
        "engines": [{
            "name": "coq-proof+correspondence",
            "path": "/verif/coq (models, proofs, property theorems) and /verif/harness (correspondence, fact extractor, search oracles)",
            "serves_properties": sorted(CLAIMED),
            "kind_free_text": "machine-checked proof in Coq 8.16.1 about hand-written executable models; models tied to /repo "
                              "on every run by exact differential correspondence (vm_compute) and regenerated structural facts",
        }],
        "checks": checks,
        "not_applicable": na,
        "notes": "See DESIGN.md. known_findings.json lists genuine defects (known / fixed).",
    }


def main():
    ids = [json.loads(l)["id"] for l in open("/verif/properties.jsonl")]
    with open("/verif/MANIFEST.json", "w") as fh:
        json.dump(build(ids), fh, indent=1)
    print("MANIFEST.json written: %d checks" % len(CLAIMED))


if __name__ == "__main__":
    main()
