"""Regenerates /verif/MANIFEST.json from one table (run: /venv/bin/python -m harness.manifest)."""
import json

BASE_NOTE = ("Trusted: Coq 8.16.1 kernel + VM (vm_compute, no native_compute); the hand-written Gallina model and its "
             "exact differential correspondence with /repo (harness/units); numpy/scipy primitive semantics. ")

CLAIMED = {
    "C18": dict(
        text="Theorems over every finite insertion history and any ordered carrier (antichain invariant, refusal iff "
             "dominated, exact removal set, refinement to 'representatives of the minimal elements of the history', "
             "policy wrapper), closed under the global context; model tied to PenaltyFilter by exact differential "
             "correspondence on enumerated and random histories on every run.",
        note=BASE_NOTE + "Float comparisons are assumed NaN-free (a total preorder).",
        technique="Coq proof: inductive invariant over insertion histories + refinement to abstract Pareto-front spec; "
                  "vm_compute differential correspondence",
        ref="4/C18"),
}

CLAIMED["C04"] = dict(
    text="Theorems for arbitrary callbacks, points, multipliers and integer weights: exact round trips of the "
         "power-of-two change of variables, restore_sol o transform_sol = id, box exactness, internal Lagrangian "
         "gradient = scaled user gradient (forces the dual / bound-dual exponents), slack columns carry -y_i, "
         "internal constraints row by row, start slacks = projection onto [l,u]; model tied to "
         "Transformation(...).trans_problem by exact correspondence on every run; the validating evaluator (Eval.v) hands on "
         "exactly what a callback returned, for every stored pattern (unit evaluator). Partial: exactness is over Q "
         "(IEEE exactness of ldexp absent overflow is not proved).",
    note=BASE_NOTE + "ldexp is modelled as multiplication by 2^k in Q; overflow/underflow not modelled.",
    technique="Coq proof: algebraic identities over Q lifted to lists (ring/field/lra) + vm_compute differential correspondence",
    ref="4/C04")


LOOP_NOTE = (BASE_NOTE + "The step computation (controller.step: Newton method, step solvers, linear solvers) is an arbitrary "
             "oracle of the loop model, so the theorems hold for every Newton variant / step solver / linear solver / "
             "controller; the clock is an arbitrary (for some lemmas: non-decreasing) function. Float comparisons are "
             "assumed NaN-free. ")
LOOP_TECH = ("Coq proof: invariants by induction over arbitrary step-oracle traces of the loop model (Loop.v) + vm_compute "
             "differential correspondence of the real Solver.solve driven by a scripted controller.step and a virtual clock")

CLAIMED["C02"] = dict(
    text="Theorems for every oracle trace, clock, limit and policy: each returned status is justified by the returned state "
         "(IterationLimit <-> iterations = limit, iterations never exceed the limit however the solve ends, TimeLimit only "
         "on a clock read at/after the deadline and the deadline stays passed for a monotone clock, Optimal / "
         "LocallyInfeasible / Unbounded only if the corresponding test holds at the returned iterate), tests in the "
         "documented order. Numeric content of the tests (locally_infeasible, is_feasible) is tied by the iterate "
         "correspondence unit. Partial: float rounding of the residuals is not modelled.",
    note=LOOP_NOTE, technique=LOOP_TECH, ref="4/C02")
CLAIMED["C07"] = dict(
    text="Theorems for every fault sequence (the oracle may fail at any set of positions): a failed or abandoned trial "
         "leaves iterate, path, counters of accepted steps, penalty and policy state unchanged, is announced as "
         "(current, current, not accepted), counts one iteration and doubles lambda (an abandoned one keeps lambda); the returned iterate is the start or "
         "the `next` of a step announced as accepted; the run ends with a status or the deliberate lambda error (no "
         "internal assertion of a penalty policy is reachable); Optimal still implies total_res <= opt_tol. Partial: "
         "which real exception reaches compute_step's handlers is checked by fault-injection correspondence, not proved.",
    note=LOOP_NOTE + "Handler coverage is a per-run obligation over the regenerated try/raise inventory (fact extractor trusted).",
    technique=LOOP_TECH + "; per-run obligations over regenerated structural facts; fault-injection campaign", ref="4/C07")
CLAIMED["C08"] = dict(
    text="Theorems: for EVERY budget k, limiting the run to k iterations returns exactly the state the unlimited run has at "
         "the top of the loop with counter k (iterate, counters, announced steps, trials, path, model times, lambda, rho), "
         "status IterationLimit; every k up to the natural length is such a point; histories only grow (prefix). Deadline "
         "at a top-of-loop read returns the state as is; a deadline inside a trial abandons it without any trace in "
         "iterate/path/counters/lambda, the body runs to its end and (monotone clock) the next test returns that very point "
         "with TimeLimit / IterationLimit (C08_abandoned_trial_then_stop; the former corner 2*lambda >= lamb_max, found by a "
         "computed counter-witness in the model and replayed on the code, was repaired in /repo: F10).",
    note=LOOP_NOTE, technique=LOOP_TECH, ref="4/C08")
CLAIMED["C09"] = dict(
    text="Theorem (lock-step simulation): two solves differing only in display interval and path collection, under two "
         "arbitrary clocks (any wall-clock pattern of displayed rows), with a display-independent step computation, end "
         "with the same status/error, iterate, lambda, penalty, counters, announced steps and per-trial data. Partial: "
         "that the real step computation and display code are display-independent and cannot raise is checked by twin-run "
         "correspondence (log levels, intervals, callbacks, collect_path, report_rcond), not proved.",
    note=LOOP_NOTE + "Observer branches are a per-run obligation over the regenerated inventory (fact extractor trusted).",
    technique=LOOP_TECH + "; per-run obligations over regenerated structural facts; observer twin runs", ref="4/C09")
CLAIMED["C12"] = dict(
    text="Theorems for every oracle trace (incl. penalty vetoes and failures): iterations = #announced = #trials; accepted "
         "steps = #adopted trials; announced steps form a chain from the transformed start and the iterate moves only to "
         "the `next` of a step announced accepted; final iterate = end of the chain; path = start + adopted points in "
         "order; model times = partial sums of the dt handed to the adopted trials; accumulated step norms >= direct "
         "distance for any distance obeying the triangle inequality (dist_factor >= 1 in exact arithmetic). The callback "
         "registry as a state machine: for every register / unregister / dispatch sequence a dispatch calls exactly the live "
         "handles, each once, in order; a handle stays live until unregistered itself.",
    note=LOOP_NOTE + "dist_factor: the float quotient is clamped by the fix: commit; the theorem is over Q for abstract norms.",
    technique=LOOP_TECH, ref="4/C12")
CLAIMED["C15"] = dict(
    text="Theorems for every oracle trace: the first trial uses dt = 1/lamb_init and each later one dt = 1/(lambda returned "
         "by the previous trial); every trial followed by another returned lambda < lamb_max, otherwise the solve ends "
         "with the dedicated error with iterate/path/counters untouched; a trial not finally adopted keeps the iterate; "
         "a failed trial returns 2*lambda > lambda. Controller level, for every Newton stream / PI output / deadline pattern: the "
         "exact controller accepts only below newton_tol; whatever is not accepted comes with a strictly larger lambda, the one "
         "named exception being the exact controller's trial abandoned at a deadline test (unchanged iterate and lambda; the "
         "solve then ends); lambda stays positive; tied by the stepctl correspondence unit (incl. Precision.Single).",
    note=LOOP_NOTE, technique=LOOP_TECH, ref="4/C15")
CLAIMED["C16"] = dict(
    text="Theorems: every policy only raises its own penalty and announces exactly it; constant policy never changes; "
         "dual-norm: <= 10x per update and <= max(rho, ||y||_inf); internal assertions of penalty.py unreachable for "
         "rho > 0; loop level for every oracle trace: penalties handed to successive trials are positive and "
         "non-decreasing, solver rho <= policy rho, constant policy keeps params.rho.",
    note=LOOP_NOTE + "Precondition params.rho > 0. ParetoDecrease's bound (norms, divisions) enters the model as data.",
    technique=LOOP_TECH, ref="4/C16")

CLAIMED["C01"] = dict(
    text="Theorems for an arbitrary problem (arbitrary callbacks, dimensions, bounds incl. infinite, every row kind) and "
         "arbitrary integer weights: if the internal (scaled + slack) iterate has total_res <= tol and lies in the internal "
         "box then the point returned by restore_sol satisfies the user's bounds exactly, l - tol*2^-w <= c(x) <= u + "
         "tol*2^-w row by row, |grad f + J^T y + d|_j <= tol*2^(v_j - o), y_i zero to tol*2^(w_i - o) away from the slack "
         "bounds and of the right sign at them, d_j zero away from bounds and of the documented sign at them; and the loop "
         "returns Optimal only with total_res <= opt_tol, for every oracle trace; C01_end_to_end composes both with the box "
         "invariant into one statement about what solve() hands back. Flow-integration solver: its optimality measure "
         "(RestrictedFlow.residuum, model Flow.v, unit flow) bounds total_res for every problem, point in the box and "
         "multiplier (C01_integration_residuum_bounds_total_res), so the theorems about total_res apply to its Optimal; the "
         "measure the pinned tree used does not (witness by vm_compute = defect F18, repaired in /repo by 3884e54). "
         "Partial: float rounding of the residual; the integration itself (solve_ivp, events, filter switching) and the "
         "integration solver's other statuses are outside the theorems and only searched by a campaign.",
    note=BASE_NOTE + "Exact arithmetic over Q; ldexp modelled as multiplication by 2^k; NaN-free comparisons.",
    technique="Coq proof: scalar KKT lemmas lifted through the slack embedding and the power-of-two scaling (lra/nra over Q) "
              "+ loop induction; vm_compute differential correspondence (transform, iterate, loop units)",
    ref="4/C01")
CLAIMED["C13"] = dict(
    text="The Gallina definitions of the augmented Lagrangian and its derivatives, violations, bound multipliers, "
         "stationarity residual, local infeasibility test, the implicit-Euler residual function (both classes), its active "
         "sets, projection and generalised Jacobian ARE the independent dense reference; they are tied to pygradflow by "
         "exact equality on every run (points inside/on/outside bounds, all masks, nonlinear constraints, rho > 0, tau "
         "variants). Theorems: projection lands in the box on marked components and is the identity elsewhere and on "
         "points inside; unmarked components are within 1e-8 of the box; scaled projection = lambda * projection; bound "
         "multiplier signs; stationarity residual vanishes exactly on the normal cone of the fattened box; total_res splits.",
    note=BASE_NOTE,
    technique="Coq proof (order lemmas over Q lifted to lists) + vm_compute differential correspondence (iterate, implicit units)",
    ref="4/C13")
CLAIMED["C14"] = dict(
    text="Theorems on the lists the code assembles, for an arbitrary problem (arbitrary callbacks), point, multiplier, "
         "derivative point, active set, dt > 0, rho > 0: any exact solution of the system the Standard / Extended / Symmetric / "
         "Asymmetric step solver builds, post-processed as the code does (dy = fact*(sy - rho*b2), re-expansion of the reduced "
         "solution), solves the standard Newton system F'_A(z) s = F(z) with Hessian H(x, y + rho c) + rho J^T J; if that matrix "
         "is injective any two solvers return the same step. Abstract layer: the same for every linear H0, J, J^T, and conversely; "
         "one step is exact when the residual is affine along it; Simplified/Full/ActiveSet variants take the same first step. "
         "The assembled systems (matrix, rhs, post-processing, clipping, when each Newton variant refreshes what) are tied to the "
         "code at the linear-solver interface by exact correspondence. The Globalized variant hands the step solvers the Full "
         "variant's system and, when the full step is accepted at once, the Full variant's point (LineSearch.v, unit gnewton). "
         "'Up to the linear solver's tolerance' is C17.",
    note=BASE_NOTE,
    technique="Coq proof (list-level block elimination / permutation / reduction lemmas, field algebra over Q) + vm_compute "
              "differential correspondence of the assembled systems with a scripted linear solver",
    ref="4/C14")

CLAIMED["C19"] = dict(
    text="Theorems for an arbitrary function and candidate derivative: an error names the first column with a failing "
         "entry and exactly that column's failing rows; derivatives whose entries pass the closeness test (in particular "
         "within deriv_tol of the difference quotient) are accepted; a single entry wrong by more than twice its closeness "
         "threshold is reported with its column and exactly its row, at every position. Model of deriv_check and "
         "Solver._deriv_check (objective, constraints, Hessian; on the internal scaled+slack problem) tied by exact "
         "correspondence through Solver.solve(deriv_check=...) on problems with one corrupted entry; twin runs show a "
         "passing check does not alter the solve. Partial: float cancellation error of the quotient is not modelled "
         "('well-scaled' = truncation error below tolerance).",
    note=BASE_NOTE, technique="Coq proof (induction over columns; closeness-test lemmas over Q) + vm_compute differential correspondence",
    ref="4/C19")
CLAIMED["C20"] = dict(
    text="Theorems for data of ANY magnitude (arbitrary rationals): the frexp exponent e satisfies 2^(e-1) <= |x| < 2^e and "
         "depends only on the value; |x| 2^(1-e) in [1,2); Nominal: scaled non-zero values in [1,2); GradJac: scaled "
         "non-zero gradient components in [1,2) and the largest scaled entry of every non-zero Jacobian row in [1,2); "
         "KKT: whenever scale_symmetric returns exponents D', every column of diag(2^D') |K| diag(2^D') has absolute sum in "
         "[1,4) (or < 1e-10), by the loop invariant that the matrix held is the input scaled by the accumulated exponents. "
         "Weights are integers by type. Model tied by exact correspondence on data spanning 2^-50..2^50. "
         "Partial: float sqrt rounding at exact powers of four is off the grid.",
    note=BASE_NOTE, technique="Coq proof (Z.log2 bounds lifted to Q; nra; loop invariant by induction on fuel) + vm_compute differential correspondence",
    ref="4/C20")

FACT_NOTE = (BASE_NOTE + "The per-run structural obligations are proofs relative to the fact extractor (harness/facts.py: a syntactic, "
             "flow-insensitive Python-ast inventory of /repo/pygradflow, fail-closed on unknown sites), which is in the trusted "
             "base; the flow-integration solver, the Optimizing/BoxReduced controllers and the Cholesky/MA57/MUMPS/SSIDS linear "
             "solvers are out of scope. ")
FACT_TECH = ("Coq proof: static theorems + per-run obligations `forallb classifier facts = true` (vm_compute) over the site "
             "inventory REGENERATED from /repo on every run; correspondence units; campaign of real solves as failing-input search")
CLAIMED["C05"] = dict(
    text="Theorems: StepResult puts the new point into [lb,ub] for EVERY dx (so for every Newton variant / step solver / linear "
         "solver / active-set rule) and leaves inside points untouched; scaled box = user's box exactly; start slacks in the "
         "slack box; loop invariant for every oracle trace (current iterate and every announced step keep any property all "
         "step results have); abstract argument over construction sites. Per run: every Iterate/StepResult construction site "
         "and every callback call site in /repo is of a known kind (start, clipped step, copy, clip; via an Iterate, "
         "forwarded, start slack, scaling point, derivative check) and none is built from an unclipped expression (the "
         "Globalized line search was one: F8, repaired in /repo). The Armijo search of the Globalized variant is modelled "
         "(LineSearch.v): every trial point is in the box for every direction and step length, the step handed on is the "
         "first accepted 2^-k (k < 30) and its point is the trial point that was tested, the step raises exactly when all 30 "
         "trials are rejected; tied by the gnewton unit (scripted linear solver, recorded evaluation points). "
         "compute_xn tied on arbitrary binary64 inputs. Partial: relative "
         "to the site inventory; Precision.Single not covered (F11).",
    note=FACT_NOTE, technique=FACT_TECH, ref="4/C05")
CLAIMED["C06"] = dict(
    text="Theorems: the loop model ends with a status or the deliberate lambda error for every oracle trace (penalty "
         "assertions unreachable for rho > 0; dt, rho, fact > 0). Per run: every raise in /repo is deliberate, converted by a "
         "handler, abstract or configuration validation; every assert is a shape/config check or a numeric assertion backed "
         "by a named theorem; the converting handlers exist where they must. compute_tau (active-set rules) never takes the minimum of an empty selection, its assertion holds, its result is positive. Partial: float overflow/NaN, Python type/index "
         "errors in glue and native-code failures are only searched for by the campaign (which found and fixed F15, F16 and "
         "records F11, F13).",
    note=FACT_NOTE, technique=FACT_TECH, ref="4/C06")
CLAIMED["C10"] = dict(
    text="Theorem: a solve that reads, of what persists, only components no solve writes gives a history-independent result. "
         "Per run: controller, penalty strategy, display and timer are created inside solve(); the solver object is written "
         "only in __init__ and (evaluator, penalty_strategy, rho: each stored before read) in solve; Transformation / "
         "evaluators / scaling / wrapper problems are written only by constructors (evaluation counters aside); no module-"
         "level mutable state beyond the whitelisted constants and warn-once flags; no mutable default arguments beyond "
         "Params(). Histories (reuse, interleaving, after perform_iteration) compared bytewise by the campaign. Partial: "
         "determinism of numpy/scipy kernels assumed.",
    note=FACT_NOTE, technique=FACT_TECH, ref="4/C10")
CLAIMED["C11"] = dict(
    text="Theorem: writes none of which targets a caller-owned object leave caller-owned values unchanged. Per run: every "
         "in-place operation in /repo (augmented assignment, subscript/attribute store, out=, copy=False) targets an object "
         "the package created itself (flow-insensitively: every binding of the name is fresh), a bookkeeping dictionary, or is "
         "on the reviewed list. Campaign: cached / memoised vs fresh-returning twins in COO/CSR/CSC under every scaling, "
         "byte snapshots of x0, y0, bounds, weights and of every memoised callback result. Partial: syntactic alias "
         "analysis; the writeable-flag flip of iterate._read_only on pass-through arrays is reviewed and accepted (values "
         "untouched).",
    note=FACT_NOTE, technique=FACT_TECH, ref="4/C11")
CLAIMED["C17"] = dict(
    text="Theorems about the wrapper logic for arbitrary backends: GMRES/MINRES return a vector only if the backend reported "
         "info = 0 for exactly the system asked for (transposed matrix for trans), or the initial guess already has residual "
         "< 1e-8; info != 0 raises LinearSolverError; MINRES requires the symmetric flag; a failed LU factorisation raises at "
         "construction; LU forwards trans and ignores the initial guess. Wrappers tied by exact correspondence with stubbed "
         "backends (matrix, rhs, x0, options handed over). Partial: numerical quality of SuperLU/GMRES/MINRES is an assumed "
         "backend contract, sampled on well-conditioned, KKT-like, tiny-pivot and singular systems.",
    note=BASE_NOTE, technique="Coq proof (case analysis of the wrapper model over backend oracles) + vm_compute differential correspondence",
    ref="4/C17")

PENDING = {}

NOT_APPLICABLE = {
    "C03": "quantitative global-convergence (liveness + rate) claim about a floating-point heuristic: no theorem of "
           "that shape is within reach, and bounded runs may not stand in for one (DESIGN 4/C03)",
}


def build(all_ids):
    checks = []
    for pid in sorted(CLAIMED):
        c = CLAIMED[pid]
        checks.append({
            "property_id": pid,
            "quick_cmd": "./check %s --tier quick" % pid,
            "thorough_cmd": "./check %s --tier thorough" % pid,
            "evidence_file": "/verif/evidence/%s.json" % pid,
            "replay_cmd_template": "./check %s --replay {path}" % pid,
            "engine": "coq-proof+correspondence",
            "level_claimed": {"category": "proof", "text": c["text"], "design_ref": c["ref"]},
            "level_note": c["note"],
            "technique": c["technique"],
        })
    na = []
    for pid in all_ids:
        if pid in CLAIMED:
            continue
        reason = NOT_APPLICABLE.get(pid) or PENDING.get(pid) or "check not built yet in this round (see DESIGN 7)"
        na.append({"property_id": pid, "reason": reason})
    return {
        "version": 1,
        "setup_cmd": "./check --setup",
        "hooks": {
            "guard": "PYGRADFLOW_VERIF",
            "enable": "no hooks in /repo are needed: the harness subclasses / substitutes from outside; checks export PYGRADFLOW_VERIF=1 for uniformity",
            "baseline_off_cmd": "cd /repo && /venv/bin/python -m pytest -ra -q -p no:cacheprovider --timeout=900 --continue-on-collection-errors",
            "source_commits": [],
            "add_only": True,
        },
        "engines": [{
            "name": "coq-proof+correspondence",
            "path": "/verif/coq (models, proofs, property theorems) and /verif/harness (correspondence, fact extractor, search oracles)",
            "serves_properties": sorted(CLAIMED),
            "kind_free_text": "machine-checked proof in Coq 8.16.1 about hand-written executable models; models tied to /repo "
                              "on every run by exact differential correspondence (vm_compute) and regenerated structural facts",
        }],
        "checks": checks,
        "not_applicable": na,
        "notes": "See DESIGN.md. known_findings.json lists genuine defects (known / fixed).",
    }


def main():
    ids = [json.loads(l)["id"] for l in open("/verif/properties.jsonl")]
    with open("/verif/MANIFEST.json", "w") as fh:
        json.dump(build(ids), fh, indent=1)
    print("MANIFEST.json written: %d checks" % len(CLAIMED))


if __name__ == "__main__":
    main()
