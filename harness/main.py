"""./check driver.  Usage:
   check --setup
   check Cxx [--tier quick|thorough] [--replay path]
"""
import argparse
import importlib
import json
import os
import shutil
import sys

from . import common


def setup():
    ok, out = common.coq_build()
    if not ok:
        print(out[-6000:])
        print("SETUP FAILED")
        return 1
    print("setup ok: %d Coq files built" % len(common.coq_sources()))
    return 0


def main():
    import logging
    import warnings
    warnings.simplefilter("ignore")
    logging.getLogger("gradflow").setLevel(logging.ERROR)
    logging.getLogger("pygradflow").setLevel(logging.ERROR)
    ap = argparse.ArgumentParser()
    ap.add_argument("prop", nargs="?")
    ap.add_argument("--setup", action="store_true")
    ap.add_argument("--tier", default=os.environ.get("VERIF_TIER", "quick"))
    ap.add_argument("--replay")
    a = ap.parse_args()
    if a.setup:
        return setup()
    if not a.prop:
        ap.error("property id required")
    tier = a.tier if a.tier in ("quick", "thorough") else "quick"
    seed = int(os.environ.get("VERIF_SEED", "20260926"))
    mod = importlib.import_module("harness.props." + a.prop)
    if a.replay:
        return mod.replay(a.replay) if hasattr(mod, "replay") else common_replay(mod, a.replay)
    rep = common.Report(a.prop, tier, seed)
    rep.cov["checker_cmd"] = ("make -C /verif/coq (full .vo build) ; coqc -R /verif/coq Verif %s ; "
                              "coqc <generated cases_*.v> (Eval vm_compute)" % " ".join(mod.PROP_FILES))
    rep.cov["technique"] = getattr(mod, "TECHNIQUE", "")
    rep.cov["trusted_base"] = list(common.KERNEL_TB) + list(getattr(mod, "TRUSTED", []))
    rep.assumptions = list(getattr(mod, "ASSUMPTIONS", []))
    scratch = common.scratch_dir()
    try:
        ok, out = common.coq_build()
        if not ok:
            rep.cov["obligations"] += 1
            rep.broken("coq-build", "the Coq development does not build", {"output": out[-4000:]})
            return rep.finish()
        ob, di, assum, errors = common.check_props(mod.PROP_FILES, scratch)
        rep.cov["obligations"] += ob
        rep.cov["discharged"] += di
        rep.cov["print_assumptions"] = assum
        axioms = sorted({ln.strip() for b in assum.values() if b.startswith("Axioms:")
                         for ln in b.splitlines()[1:] if ln.strip() and not ln.startswith(" " * 4)})
        rep.cov["axioms_used"] = axioms
        for e in errors:
            rep.broken("proof:" + e["file"], "theorem file %s no longer checks" % e["file"], e)
        from .timebox import Hang
        try:
            mod.run(rep, tier, seed, scratch)
        except Hang as h:
            # the implementation spins on this input: nothing after it could be explored
            rep.cov["obligations"] += 1
            rep.failure("hang:" + h.where.split()[-1].strip("()"),
                        "%s did not return within %d s on this input (the model terminates by construction; every run of the "
                        "pinned tree takes a fraction of that)" % (h.where, h.seconds),
                        {"kind": "hang", "where": h.where, "case": h.case})
        except Exception as e:
            # the driver died with an exception raised by or through the implementation: nothing after it was explored
            # (a check must report, not crash); the traceback names the call
            import traceback
            rep.cov["obligations"] += 1
            rep.broken("driver:exception", "the check's driver died with %s: %s" % (type(e).__name__, str(e)[:200]),
                       {"kind": "driver_exception", "traceback": traceback.format_exc()[-3000:]})
        return rep.finish()
    finally:
        shutil.rmtree(scratch, ignore_errors=True)


def common_replay(mod, path):
    with open(path) as fh:
        d = json.load(fh)
    print(json.dumps(d, indent=1)[:4000])
    if hasattr(mod, "replay_case"):
        return mod.replay_case(d)
    return 0


if __name__ == "__main__":
    sys.exit(main())
