"""C07 — loop-level theorems + correspondence of Solver.solve with a scripted step oracle."""
from ..gen import Gen
from ..unit import run_unit
from .. import camp_props, common
from ..units.loop import Loop
from ..units.small import Evaluator
from ..units.linsolve import LinSolve

PROP_FILES = ["props/C07.v"]
TECHNIQUE = "Coq proof (invariants by induction over arbitrary step-oracle traces) + exact differential correspondence of Solver.solve with a scripted step oracle and virtual clock"


def run(rep, tier, seed, scratch):
    g = Gen(seed)
    common.facts_obligations(rep, 'C07', scratch)
    # (LinSolve: a solve that did not converge must raise, or the failure cannot be survived at all)
    for u in (Evaluator(), Loop(), LinSolve()):
        run_unit(rep, u, u.gen(g, tier), scratch)
    camp_props.run_C07(rep, tier, seed)
