"""C02 — loop-level theorems + correspondence of Solver.solve with a scripted step oracle."""
from ..gen import Gen
from ..unit import run_unit
from .. import camp_props
from ..units.loop import Loop
from ..units.numeric import IterateUnit

PROP_FILES = ["props/C02.v"]
TECHNIQUE = "Coq proof (invariants by induction over arbitrary step-oracle traces) + exact differential correspondence of Solver.solve with a scripted step oracle and virtual clock"


def run(rep, tier, seed, scratch):
    g = Gen(seed)
    for u in (IterateUnit(), Loop()):
        run_unit(rep, u, u.gen(g, tier), scratch)
    camp_props.run_single(rep, 'C02', tier, seed, 40, 300, families=['convex_qp', 'convex_qp', 'nonlinear', 'infeasible', 'unbounded', 'unbounded_cons'])
    camp_props.run_integration_C02(rep, tier, seed)
