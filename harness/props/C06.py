"""C06 — solve() ends with a status or a deliberate error, never an internal crash."""
from ..gen import Gen
from ..unit import run_unit
from .. import camp_props

PROP_FILES = []
TECHNIQUE = "Coq proof + regenerated structural facts + correspondence"


def run(rep, tier, seed, scratch):
    g = Gen(seed)
    camp_props.run_single(rep, 'C06', tier, seed, 60, 500)
