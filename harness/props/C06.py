"""C06 — solve() ends with a status or a deliberate error, never an internal crash."""
from ..gen import Gen
from ..unit import run_unit
from .. import camp_props, common
from ..units.penalty import Penalty
from ..units.loop import Loop
from ..units.tau import ComputeTau
from ..units.autoscale import CreateScaling
from ..units.step import GNewton

PROP_FILES = ["props/C06.v"]
TECHNIQUE = "Coq proof + regenerated structural facts + correspondence"


def run(rep, tier, seed, scratch):
    g = Gen(seed)
    common.facts_obligations(rep, 'C06', scratch)
    for u in (Penalty(), Loop(), ComputeTau(), CreateScaling()):
        run_unit(rep, u, u.gen(g, tier), scratch)
    # the Globalized line search fails deliberately, and exactly when all of its trials are rejected (own generator state)
    gn = GNewton()
    run_unit(rep, gn, gn.gen(Gen(seed + 31), tier), scratch)
    camp_props.run_single(rep, 'C06', tier, seed, 60, 500)
    # single precision: every dtype-dependent path (empty blocks, fast paths) on data that is exact in binary32
    camp_props.run_single(rep, 'C06', tier, seed + 3, 24, 120, allow={'precision': 'Single', 'iteration_limit': 40, 'validate_input': [True, False]}, name='single_precision')
    # grad f orthogonal to J^T c (ParetoDecrease divides by their inner product only when it is not ~0)
    camp_props.run_single(rep, 'C06', tier, seed + 5, 6, 24, allow={'penalty_update': 'ParetoDecrease', 'iteration_limit': 40}, families=['separable'], name='separable_pareto', scaling=False)
    # every variable active at the solution (empty reduced systems, all-False row filters): every step solver in both precisions
    from ..gen import Gen as _Gen
    from .. import campaign as _C
    gg = _Gen(seed + 6)
    extra = []
    for ss in ('Standard', 'Extended', 'Symmetric', 'Asymmetric'):
        for prec in ('Single', 'Double'):
            extra.append(_C.gen_case(gg, 'vertex', {'precision': prec, 'step_solver_type': ss, 'linear_solver_type': 'LU',
                                                  'iteration_limit': 40, 'penalty_update': 'Constant'}, scaling=False))
    camp_props.run_single(rep, 'C06', tier, seed + 6, 0, 16, families=['vertex'], name='all_active', scaling=False, extra_cases=extra)
    camp_props.run_input_forms(rep, tier, seed)
