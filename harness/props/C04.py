"""C04 — the internally solved problem is an exact reformulation of the user's problem."""
from ..gen import Gen
from ..unit import run_unit
from ..units.numeric import Transform

PROP_FILES = ["props/C04.v"]
TECHNIQUE = ("Coq proof (ring/field identities over Q for arbitrary callbacks and integer weights, lifted to lists) "
             "+ exact differential correspondence of Transformation.trans_problem / transform_sol / restore_sol")
ASSUMPTIONS = ["exactness is proved over Q: 'bit-for-bit' additionally needs that binary64 ldexp is exact absent "
               "overflow/underflow (an IEEE fact, not proved here)",
               "correspondence cases are drawn from a dyadic grid on which binary64 arithmetic is exact"]


def run(rep, tier, seed, scratch):
    g = Gen(seed)
    rep.cov["rule"] = ("transform: seeded quadratic problems (n<=4/5, m<=3/4, every mix of free/one-sided/boxed/fixed "
                       "variables and eq/offset-eq/one-sided/ranged rows, COO/CSR/CSC with explicit zeros and duplicate "
                       "entries), integer weights in [-4,4] or no scaling, points inside/on/outside the bounds; every "
                       "callback of trans_problem, transform_sol and restore_sol compared exactly. non-trivial = at least "
                       "one slack row, offset row or scaling (model branch tag)")
    u = Transform()
    run_unit(rep, u, u.gen(g, tier), scratch)
    # what the validating evaluator hands on is what the callback returned (it checks, it does not edit)
    from ..units.small import Evaluator
    e = Evaluator()
    run_unit(rep, e, e.gen(g, tier), scratch)
