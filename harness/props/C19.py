"""C19 — the derivative checker accepts correct derivatives and pinpoints wrong ones."""
from ..gen import Gen
from ..unit import run_unit
from ..units.derivcheck import DerivCheckUnit, wide_oracle

PROP_FILES = ["props/C19.v"]
TECHNIQUE = "Coq proof + exact differential correspondence"


def run(rep, tier, seed, scratch):
    g = Gen(seed)
    u = DerivCheckUnit()
    run_unit(rep, u, u.gen(g, tier), scratch)
    wide_oracle(rep, tier, seed)
