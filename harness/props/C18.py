"""C18 — the penalty filter is a Pareto front."""
from ..gen import Gen
from ..unit import run_unit
from ..units.filt import FilterSeq, FilterUpdate

PROP_FILES = ["props/C18.v"]
TECHNIQUE = "Coq proof (invariant by induction over insertion histories, any ordered carrier) + exact differential correspondence"


def run(rep, tier, seed, scratch):
    g = Gen(seed)
    rep.cov["rule"] = ("filter_seq: every sequence of length <= 4 (quick) / <= 5 (thorough) over a 2x2 / 3x3 grid, "
                       "plus seeded random sequences of length <= 40 (ties, duplicates, arbitrary finite floats); "
                       "filter_update: seeded (obj, violation) histories through PenaltyFilter.update. "
                       "non-trivial = at least one refusal or removal (measured by the model's branch tag)")
    u = FilterSeq()
    u.shard = 1500
    if tier == "thorough":
        rep.cov["exhaustive_subspace"] = "all sequences of length <= 4 over the 3x3 grid"
    run_unit(rep, u, u.gen(g, tier), scratch)
    u2 = FilterUpdate()
    run_unit(rep, u2, u2.gen(g, tier), scratch)
