"""C20 — automatic scalings normalise magnitudes with exact powers of two."""
from ..gen import Gen
from ..unit import run_unit
from ..units.autoscale import AutoScale, CreateScaling

PROP_FILES = ["props/C20.v"]
TECHNIQUE = "Coq proof + exact differential correspondence"


def run(rep, tier, seed, scratch):
    g = Gen(seed)
    for u in (AutoScale(), CreateScaling()):
        run_unit(rep, u, u.gen(g, tier), scratch)
