"""C20 — automatic scalings normalise magnitudes with exact powers of two."""
from ..gen import Gen
from ..unit import run_unit
from ..units.autoscale import AutoScale

PROP_FILES = ["props/C20.v"]
TECHNIQUE = "Coq proof + exact differential correspondence"


def run(rep, tier, seed, scratch):
    g = Gen(seed)
    u = AutoScale()
    run_unit(rep, u, u.gen(g, tier), scratch)
