"""C12 — counters, callbacks and the recorded path tell one consistent story."""
from ..gen import Gen
from ..unit import run_unit
from .. import camp_props
from ..units.loop import Loop
from ..units.callbacks import CallbacksUnit
from ..units.stepctl import StepCtl

PROP_FILES = ["props/C12.v"]
TECHNIQUE = "Coq proof (invariants by induction over arbitrary step-oracle traces) + exact differential correspondence of Solver.solve with a scripted step oracle"


def run(rep, tier, seed, scratch):
    g = Gen(seed)
    # StepCtl: the `accepted` flag a controller hands back is what the solver counts (a trial abandoned at the deadline
    # is not an accepted step)
    for u in (Loop(), CallbacksUnit(), StepCtl()):
        run_unit(rep, u, u.gen(g, tier), scratch)
    camp_props.run_single(rep, 'C12', tier, seed, 40, 300, allow={'collect_path': True})
    camp_props.run_single(rep, 'C12', tier, seed + 1, 16, 80, allow={'collect_path': True, 'iteration_limit': 400}, families=['line1'], name='collinear', scaling=False)
    camp_props.run_reuse_C12(rep, tier, seed)
    camp_props.run_exact_near_optimum(rep, tier, seed)
