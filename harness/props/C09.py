"""C09 — loop-level theorems + correspondence of Solver.solve with a scripted step oracle."""
from ..gen import Gen
from ..unit import run_unit
from .. import camp_props, common
from ..units.loop import Loop

PROP_FILES = ["props/C09.v"]
TECHNIQUE = "Coq proof (invariants by induction over arbitrary step-oracle traces) + exact differential correspondence of Solver.solve with a scripted step oracle and virtual clock"


def run(rep, tier, seed, scratch):
    g = Gen(seed)
    common.facts_obligations(rep, 'C09', scratch)
    u = Loop()
    run_unit(rep, u, u.gen(g, tier), scratch)
    camp_props.run_C09(rep, tier, seed)
