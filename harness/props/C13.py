"""C13 — residuals and augmented-Lagrangian derivatives match their definitions."""
from ..gen import Gen
from ..unit import run_unit
from ..units.numeric import IterateUnit
from ..units.step import Implicit

PROP_FILES = ["props/C13.v"]
TECHNIQUE = "Coq proof + exact differential correspondence"


def run(rep, tier, seed, scratch):
    g = Gen(seed)
    for u in (IterateUnit(), Implicit()):
        run_unit(rep, u, u.gen(g, tier), scratch)
