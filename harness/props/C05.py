"""C05 — user functions are only evaluated inside the variable bounds."""
from ..gen import Gen
from ..unit import run_unit
from .. import camp_props, common
from ..units.small import ComputeXn
from ..units.step import Newton, GNewton
from ..units.numeric import Transform

PROP_FILES = ["props/C05.v"]
TECHNIQUE = "Coq proof + regenerated structural facts + correspondence"


def run(rep, tier, seed, scratch):
    g = Gen(seed)
    common.facts_obligations(rep, 'C05', scratch)
    for u in (ComputeXn(), Newton(), GNewton(), Transform()):
        run_unit(rep, u, u.gen(g, tier), scratch)
    camp_props.run_single(rep, 'C05', tier, seed, 40, 300, allow={'newton_type': ['Simplified', 'Full', 'ActiveSet', 'Globalized']})
    camp_props.run_default_start(rep, tier, seed)
