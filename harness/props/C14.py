"""C14 — all step-solver and linear-solver choices compute the same Newton step."""
from ..gen import Gen
from ..unit import run_unit
from ..units.step import Newton, cross_solver_oracle, perform_iteration_oracle
from ..units.linsolve import LinSolve

PROP_FILES = ["props/C14.v"]
TECHNIQUE = "Coq proof + exact differential correspondence"


def run(rep, tier, seed, scratch):
    g = Gen(seed)
    # (LinSolve: every linear-solver choice returns the solution of the system it is handed, or raises)
    for u in (Newton(), LinSolve()):
        run_unit(rep, u, u.gen(g, tier), scratch)
    cross_solver_oracle(rep, tier, seed)
    perform_iteration_oracle(rep, tier, seed)
