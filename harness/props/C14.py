"""C14 — all step-solver and linear-solver choices compute the same Newton step."""
from ..gen import Gen
from ..unit import run_unit
from ..units.step import Newton, GNewton, cross_solver_oracle, perform_iteration_oracle
from ..units.linsolve import LinSolve

PROP_FILES = ["props/C14.v"]
TECHNIQUE = "Coq proof + exact differential correspondence"


def run(rep, tier, seed, scratch):
    g = Gen(seed)
    # (LinSolve: every linear-solver choice returns the solution of the system it is handed, or raises)
    # (GNewton: the Globalized variant hands the four step solvers the same system as the Full variant and takes the
    # step of the first accepted length)
    for u in (Newton(), LinSolve(), GNewton()):
        run_unit(rep, u, u.gen(g, tier), scratch)
    cross_solver_oracle(rep, tier, seed)
    perform_iteration_oracle(rep, tier, seed)
