"""C11 — caller-owned data is never modified; cached callback results are safe."""
from ..gen import Gen
from ..unit import run_unit
from .. import camp_props

PROP_FILES = []
TECHNIQUE = "Coq proof + regenerated structural facts + correspondence"


def run(rep, tier, seed, scratch):
    g = Gen(seed)
    camp_props.run_C11(rep, tier, seed)
