"""C11 — caller-owned data is never modified; cached callback results are safe."""
from ..gen import Gen
from ..unit import run_unit
from .. import camp_props, common

PROP_FILES = ["props/C11.v"]
TECHNIQUE = "Coq proof + regenerated structural facts + correspondence"


def run(rep, tier, seed, scratch):
    g = Gen(seed)
    common.facts_obligations(rep, 'C11', scratch)
    camp_props.run_C11(rep, tier, seed)
