"""C17 — linear solvers return the solution or fail loudly."""
from ..gen import Gen
from ..unit import run_unit
from ..units.linsolve import LinSolve, backend_sampling

PROP_FILES = ["props/C17.v"]
TECHNIQUE = "Coq proof + exact differential correspondence"


def run(rep, tier, seed, scratch):
    g = Gen(seed)
    u = LinSolve()
    run_unit(rep, u, u.gen(g, tier), scratch)
    backend_sampling(rep, g, tier)
