"""C10 — a solve is a deterministic function of its inputs, independent of history."""
from ..gen import Gen
from ..unit import run_unit
from .. import camp_props, common

PROP_FILES = ["props/C10.v"]
TECHNIQUE = "Coq proof + regenerated structural facts + correspondence"


def run(rep, tier, seed, scratch):
    g = Gen(seed)
    common.facts_obligations(rep, 'C10', scratch)
    camp_props.run_C10(rep, tier, seed)
