"""C01 — Optimal status implies first-order optimality of the user's own problem."""
from ..gen import Gen
from ..unit import run_unit
from .. import camp_props
from ..units.loop import Loop
from ..units.flow import FlowUnit
from ..units.numeric import IterateUnit, Transform

PROP_FILES = ["props/C01.v"]
TECHNIQUE = ("Coq proof (total_res <= tol at the internal point => KKT of the user's problem at the restored point, "
             "for arbitrary callbacks / weights / row kinds; Optimal => total_res <= opt_tol for every oracle trace) + exact "
             "differential correspondence of Transformation, Iterate residuals and Solver.solve")


def run(rep, tier, seed, scratch):
    g = Gen(seed)
    for u in (Transform(), IterateUnit(), Loop(), FlowUnit()):
        run_unit(rep, u, u.gen(g, tier), scratch)
    camp_props.run_single(rep, 'C01', tier, seed, 40, 300, allow={'iteration_limit': 400}, families=['convex_qp', 'convex_qp', 'nonlinear'])
    camp_props.run_integration(rep, tier, seed)
    # single precision: the tolerances asked for are the tolerances used
    camp_props.run_single(rep, 'C01', tier, seed + 9, 8, 40, allow={'precision': 'Single', 'opt_tol': 1e-6, 'iteration_limit': 200}, families=['convex_qp'], name='single_precision', scaling=False)
