"""C15 — loop-level theorems + correspondence of Solver.solve with a scripted step oracle."""
from ..gen import Gen
from ..unit import run_unit
from .. import camp_props
from ..units.loop import Loop
from ..units.stepctl import StepCtl
from ..units.pictl import PICtl

PROP_FILES = ["props/C15.v"]
TECHNIQUE = "Coq proof (invariants by induction over arbitrary step-oracle traces) + exact differential correspondence of Solver.solve with a scripted step oracle and virtual clock"


def run(rep, tier, seed, scratch):
    g = Gen(seed)
    for u in (StepCtl(), Loop(), PICtl()):
        run_unit(rep, u, u.gen(g, tier), scratch)
    camp_props.run_single(rep, 'C15', tier, seed, 30, 250, allow={'step_control_type': ['Exact', 'Exact', 'DistanceRatio', 'ResiduumRatio', 'Fixed'], 'iteration_limit': 60})
    # single precision: the step size of a trial is still the inverse of the lambda the controller returned
    camp_props.run_single(rep, 'C15', tier, seed + 4, 10, 50, allow={'precision': 'Single', 'lamb_init': [3.0, 1.0, 0.7], 'iteration_limit': 40},
                          families=['convex_qp'], name='single_precision', scaling=False)
