"""Confirm seeded changes in scratch worktrees (never in /repo): demo on the clean tree (exit 0), patch applied,
demo (exit 1), the repository's test suite (209 passed), tree restored.
Usage: python -m harness.confirm <worktree>=<dir-with-seeded-subdirs> ...   (one worker per worktree)"""
import glob, json, os, re, subprocess, sys
from concurrent.futures import ThreadPoolExecutor


def sh(cmd, cwd=None, env=None, timeout=1800):
    r = subprocess.run(cmd, shell=True, cwd=cwd, env=env, stdout=subprocess.PIPE, stderr=subprocess.STDOUT, text=True, timeout=timeout)
    return r.returncode, r.stdout


def confirm(wt, d):
    env = dict(os.environ, PYTHONPATH=wt, PYTHONHASHSEED="0")
    out = {"dir": d}
    sh("git checkout -- .", cwd=wt)
    demo = os.path.join(d, "demo.py")
    try:
        out["demo_clean_exit"] = sh("/venv/bin/python %s" % demo, cwd=d, env=env, timeout=600)[0]
        rc, o = sh("git apply %s" % os.path.join(d, "patch.diff"), cwd=wt)
        out["applies"] = rc == 0
        if rc == 0:
            out["demo_patched_exit"] = sh("/venv/bin/python %s" % demo, cwd=d, env=env, timeout=600)[0]
            rc, o = sh("/venv/bin/python -m pytest -q -p no:cacheprovider --timeout=900 2>&1 | tail -40", cwd=wt, env=env, timeout=3000)
            lines = [l for l in o.splitlines() if re.search(r"\d+ passed", l)]
            out["suite"] = lines[-1].strip() if lines else ""
            out["failed_tests"] = sorted(set(re.findall(r"^FAILED (\S+)", o, re.M)))
    except subprocess.TimeoutExpired:
        out["timeout"] = True
    finally:
        sh("git checkout -- .", cwd=wt)
    return out


def main():
    jobs = []
    for a in sys.argv[1:]:
        wt, root = a.split("=")
        jobs.append((wt, sorted(glob.glob(os.path.join(root, "*/")))))
    def worker(job):
        wt, dirs = job
        return [confirm(wt, d.rstrip("/")) for d in dirs if os.path.exists(os.path.join(d, "patch.diff"))]
    res = []
    with ThreadPoolExecutor(max_workers=len(jobs)) as ex:
        for r in ex.map(worker, jobs):
            res.extend(r)
    for r in res:
        ok = r.get("demo_clean_exit") == 0 and r.get("demo_patched_exit") == 1 and "209 passed" in r.get("suite", "")
        r["ok"] = ok
        print(os.path.basename(r["dir"]), "OK" if ok else "NOT CONFIRMED", r)
    json.dump(res, open("/tmp/confirm_last.json", "w"), indent=1)


if __name__ == "__main__":
    main()
