"""Run every claimed check (quick or thorough) on the current tree, in parallel. Usage: python -m harness.runall [--tier thorough] [-j N]"""
import json, os, subprocess, sys, time
ROOT = os.path.dirname(os.path.dirname(os.path.abspath(__file__)))
from concurrent.futures import ThreadPoolExecutor

def main():
    tier = "thorough" if "--tier=thorough" in sys.argv or "thorough" in sys.argv else "quick"
    j = 4
    man = json.load(open(os.path.join(os.path.dirname(os.path.dirname(os.path.abspath(__file__))), "MANIFEST.json")))
    ids = [c["property_id"] for c in man["checks"]]
    subprocess.run("cd %s && ./check --setup" % ROOT, shell=True, stdout=subprocess.DEVNULL)
    def one(p):
        t = time.time()
        r = subprocess.run("cd %s && ./check %s --tier %s" % (ROOT, p, tier), shell=True, stdout=subprocess.PIPE, stderr=subprocess.STDOUT, text=True)
        lines = [l for l in r.stdout.splitlines() if l.startswith(("VIOLATION", "KNOWN-FINDING", "["))]
        return p, r.returncode, lines, time.time() - t
    bad = 0
    with ThreadPoolExecutor(max_workers=j) as ex:
        for p, rc, lines, dt in ex.map(one, ids):
            print(p, "exit", rc, "%.0fs" % dt, " | ".join(lines)[:300])
            bad += rc != 0
    print("ALL OK" if not bad else "%d CHECKS FAILED" % bad)
    return bad

if __name__ == "__main__":
    sys.exit(main())
