"""Fact extractor: a fail-closed, syntactic (Python ast) inventory of /repo/pygradflow, emitted as Gallina lists in
Facts.v on every run.  The classifiers and the obligations over these lists are in coq/proofs/Effects.v and
coq/factprops/*.v; anything the classifiers do not know makes an obligation fail.

Emitted lists (all strings are normalised source text, `ast.unparse`):
  iterate_sites   (module, function, callee, first-argument-or-x-argument text)     Iterate(...) / StepResult(...)
  eval_sites      (module, function, receiver text, callback name)                  calls of the five problem callbacks
  guarded_calls   (module, function, callee text, [handler class names])            calls of interest and the try
                                                                                    handlers around them in the function
  raise_sites     (module, function, exception text, [handler class names])
  assert_sites    (module, function, test text)
  observer_sites  (module, function, test text, [effects under the branch])         branches controlled by observers
  creation_sites  (module, function, constructor)                                   per-solve objects
  self_stores     (module, class, function, attribute)                              stores to self.<attr>
  self_first_use  (module, class.function, attribute, first store line, first load line)
  module_state    (module, name, value text)                                        module-level assignments
  default_args    (module, function, default text)                                  call expressions used as defaults
  inplace_ops     (module, function, kind, target text, [texts of all assignments to the target's base name])
"""
import ast
import os
import sys

PKG = os.path.join(os.environ.get("VERIF_REPO", "/repo"), "pygradflow")
SKIP_DIRS = {"runners"}
CALLBACKS = {"obj", "obj_grad", "cons", "cons_jac", "lag_hess"}
OBSERVER_WORDS = ("display", "getEffectiveLevel", "isEnabledFor", "level", "report_rcond", "collect_path", "path is not None", "path is None",
                  "callbacks")
# numpy / scipy.sparse operations that change their receiver (first argument) in place
MUTATING_METHODS = {"setdiag", "sort", "sort_indices", "sum_duplicates", "eliminate_zeros", "resize", "fill", "put", "itemset",
                    "partition", "setflags", "prune", "byteswap", "setfield"}
MUTATING_FUNCTIONS = {"np.copyto", "np.put", "np.place", "np.putmask", "np.fill_diagonal", "np.put_along_axis", "numpy.copyto"}
CTORS = {"penalty_strategy", "step_controller", "solver_display", "Timer", "inner_display", "create_evaluator",
         "Transformation", "create_scaling", "LogController", "Controller", "Callbacks", "ConditionEstimator"}
INTEREST = ("linear_solver(", ".solve(", "estimate_rcond(", "check_eval(", "print_problem_stats(", ".step(", "splu(",
            "entry(", "gmres(", "minres(", "_deriv_check(", "deriv_check(")


def q(s, n=160):
    s = " ".join(str(s).split())
    if len(s) > n:
        s = s[:n] + "..."
    return '"' + s.replace('"', '""') + '"'


def qlist(xs):
    return "[" + "; ".join(q(x) for x in xs) + "]"


class FuncInfo(ast.NodeVisitor):
    """walks one function body keeping the stack of enclosing try handlers and observer-controlled branches"""

    def __init__(self, mod, qual, cls, fn, out):
        self.mod, self.qual, self.cls, self.fn, self.out = mod, qual, cls, fn, out
        self.handlers = []          # stack of lists of handler names
        self.assigns = {}           # name -> list of RHS texts (all assignments in the function)
        self.stores = {}            # self attr -> first store line
        self.loads = {}             # self attr -> first load line
        for node in ast.walk(fn):
            if isinstance(node, (ast.Assign, ast.AnnAssign)):
                tgts = node.targets if isinstance(node, ast.Assign) else [node.target]
                val = node.value
                for t in tgts:
                    for nm in self.names_of(t):
                        if val is not None:
                            self.assigns.setdefault(nm, []).append(ast.unparse(val))
            elif isinstance(node, (ast.For, ast.comprehension)):
                for nm in self.names_of(node.target):
                    self.assigns.setdefault(nm, []).append("<loop over> " + ast.unparse(node.iter))
            elif isinstance(node, ast.withitem) and node.optional_vars is not None:
                for nm in self.names_of(node.optional_vars):
                    self.assigns.setdefault(nm, []).append("<with> " + ast.unparse(node.context_expr))
        args = fn.args
        for a in list(args.args) + list(args.kwonlyargs) + ([args.vararg] if args.vararg else []) + ([args.kwarg] if args.kwarg else []):
            self.assigns.setdefault(a.arg, []).append("<argument>")

    @staticmethod
    def names_of(t):
        if isinstance(t, ast.Name):
            return [t.id]
        if isinstance(t, (ast.Tuple, ast.List)):
            out = []
            for e in t.elts:
                out += FuncInfo.names_of(e)
            return out
        if isinstance(t, ast.Starred):
            return FuncInfo.names_of(t.value)
        return []

    def cur_handlers(self):
        hs = []
        for h in self.handlers:
            hs += h
        return hs

    # nested functions / lambdas: keep walking (their bodies run under the same handlers only if called there; we
    # record them under the enclosing function, which is the conservative choice for the guards we check)
    def visit_Try(self, node):
        names = []
        for h in node.handlers:
            if h.type is None:
                names.append("BaseException")
            elif isinstance(h.type, ast.Tuple):
                names += [ast.unparse(e) for e in h.type.elts]
            else:
                names.append(ast.unparse(h.type))
        self.handlers.append(names)
        for s in node.body:
            self.visit(s)
        self.handlers.pop()
        for h in node.handlers:
            hn = ["BaseException"] if h.type is None else ([ast.unparse(e) for e in h.type.elts] if isinstance(h.type, ast.Tuple) else [ast.unparse(h.type)])
            for nm in hn:
                self.out["handler_bodies"].append((self.mod, self.qual, nm, self.effects_of(h.body)))
            for s in h.body:
                self.visit(s)
        for s in node.orelse + node.finalbody:
            self.visit(s)

    def visit_Raise(self, node):
        self.out["raise_sites"].append((self.mod, self.qual, ast.unparse(node.exc) if node.exc else "<reraise>", self.cur_handlers()))
        self.generic_visit(node)

    def visit_Assert(self, node):
        self.out["assert_sites"].append((self.mod, self.qual, ast.unparse(node.test)))
        self.generic_visit(node)

    def effects_of(self, stmts):
        """calls / stores / control transfers under the statements; what sits inside a lambda or a nested def does not
        run here: it is recorded as `deferred ...` (it runs wherever the closure is called)"""
        eff = []

        def walk(node, deferred):
            pre = "deferred " if deferred else ""
            if isinstance(node, ast.Call):
                eff.append(pre + "call " + ast.unparse(node.func))
            elif isinstance(node, (ast.Assign, ast.AugAssign, ast.AnnAssign)):
                tgts = node.targets if isinstance(node, ast.Assign) else [node.target]
                for t in tgts:
                    eff.append(pre + "store " + ast.unparse(t))
            elif isinstance(node, (ast.Return, ast.Raise, ast.Break, ast.Continue)) and not deferred:
                eff.append(type(node).__name__.lower())
            inner = deferred or isinstance(node, (ast.Lambda, ast.FunctionDef, ast.AsyncFunctionDef))
            for ch in ast.iter_child_nodes(node):
                walk(ch, inner)

        for s in stmts:
            walk(s, False)
        seen, out = set(), []
        for e in eff:
            if e not in seen:
                seen.add(e)
                out.append(e)
        return out

    def visit_If(self, node):
        t = ast.unparse(node.test)
        if any(w in t for w in OBSERVER_WORDS):
            self.out["observer_sites"].append((self.mod, self.qual, t, self.effects_of(node.body), self.effects_of(node.orelse)))
        self.generic_visit(node)

    def visit_IfExp(self, node):
        t = ast.unparse(node.test)
        if any(w in t for w in OBSERVER_WORDS):
            self.out["observer_sites"].append((self.mod, self.qual, t, ["expr " + ast.unparse(node.body)], ["expr " + ast.unparse(node.orelse)]))
        self.generic_visit(node)

    def visit_Call(self, node):
        f = node.func
        ftxt = ast.unparse(f)
        name = f.attr if isinstance(f, ast.Attribute) else (f.id if isinstance(f, ast.Name) else None)
        if name in ("Iterate", "StepResult"):
            args = [ast.unparse(a) for a in node.args]
            xarg = args[2] if name == "Iterate" and len(args) > 2 else (args[1] if name == "StepResult" and len(args) > 1 else ",".join(args))
            if name == "Iterate" and len(node.args) > 2 and isinstance(node.args[2], ast.Name):
                # a local name: say what it is bound to (every assignment in the function, flow-insensitive)
                rhs = self.assigns.get(node.args[2].id, [])
                if rhs and rhs != ["<argument>"]:
                    xarg = xarg + " <- " + " | ".join(rhs)
            self.out["iterate_sites"].append((self.mod, self.qual, name, xarg))
        if isinstance(f, ast.Attribute) and f.attr in CALLBACKS and node.args:
            self.out["eval_sites"].append((self.mod, self.qual, ast.unparse(f.value), f.attr, ast.unparse(node.args[0])))
        if name in CTORS:
            self.out["creation_sites"].append((self.mod, self.qual, name))
        full = ftxt + "("
        if any(full.endswith(p) for p in INTEREST):
            self.out["guarded_calls"].append((self.mod, self.qual, ftxt, self.cur_handlers()))
        if isinstance(f, ast.Attribute) and f.attr in MUTATING_METHODS:
            self.inplace("method " + f.attr, f.value)
        if ftxt in MUTATING_FUNCTIONS and node.args:
            self.inplace("function " + ftxt, node.args[0])
        for kw in node.keywords:
            if kw.arg == "out":
                self.inplace("out=", kw.value)
            if kw.arg == "copy" and ast.unparse(kw.value) == "False":
                self.inplace("copy=False", node.args[0] if node.args else f)
        self.generic_visit(node)

    def base_name(self, t):
        while isinstance(t, (ast.Subscript, ast.Attribute, ast.Starred)):
            t = t.value
        return t.id if isinstance(t, ast.Name) else None

    def leaves(self, name, depth=0, seen=()):
        """texts of everything the name may be bound to in this function, aliases (plain names, attributes,
        subscripts of another local) resolved transitively; flow-insensitive, hence conservative"""
        out = []
        for o in self.assigns.get(name, ["<free variable>"]):
            try:
                e = ast.parse(o, mode="eval").body
            except SyntaxError:
                out.append(o)
                continue
            if isinstance(e, (ast.Name, ast.Attribute, ast.Subscript)):
                b = self.base_name(e)
                if b == "self":
                    out.append("self-attribute " + o)
                elif b and b != name and b not in seen and depth < 4 and b in self.assigns:
                    out += ["%s <- %s" % (o, x) for x in self.leaves(b, depth + 1, seen + (name,))]
                else:
                    out.append("alias " + o)
            else:
                out.append(o)
        return out

    def inplace(self, kind, target):
        base = self.base_name(target)
        if base == "self":
            origins = ["self-attribute " + ast.unparse(target)]
        elif base:
            origins = self.leaves(base)
        else:
            origins = ["<expression>"]
        self.out["inplace_ops"].append((self.mod, self.qual, kind, ast.unparse(target), origins))

    def visit_AugAssign(self, node):
        if not isinstance(node.target, ast.Name) or True:
            if isinstance(node.target, ast.Attribute) and isinstance(node.target.value, ast.Name) and node.target.value.id == "self":
                self.note_store(node.target)
            else:
                self.inplace("augassign " + type(node.op).__name__, node.target)
        self.generic_visit(node)

    def note_store(self, t):
        self.stores.setdefault(t.attr, t.lineno)
        self.out["self_stores"].append((self.mod, self.cls or "", self.qual, t.attr))

    def visit_Assign(self, node):
        for t in node.targets:
            for e in ([t] if not isinstance(t, (ast.Tuple, ast.List)) else t.elts):
                if isinstance(e, ast.Attribute) and isinstance(e.value, ast.Name) and e.value.id == "self":
                    self.note_store(e)
                elif isinstance(e, ast.Subscript):
                    self.inplace("subscript store", e)
                elif isinstance(e, ast.Attribute):
                    self.inplace("attribute store", e)
        self.generic_visit(node)

    def visit_Attribute(self, node):
        if isinstance(node.ctx, ast.Load) and isinstance(node.value, ast.Name) and node.value.id == "self":
            self.loads.setdefault(node.attr, node.lineno)
        self.generic_visit(node)


def extract():
    out = {k: [] for k in ("iterate_sites", "eval_sites", "guarded_calls", "raise_sites", "assert_sites", "observer_sites",
                           "creation_sites", "self_stores", "self_first_use", "module_state", "default_args", "inplace_ops",
                           "handler_bodies", "modules")}
    for root, dirs, files in os.walk(PKG):
        dirs[:] = sorted(d for d in dirs if d not in SKIP_DIRS and not d.startswith("__"))
        for fn in sorted(files):
            if not fn.endswith(".py"):
                continue
            path = os.path.join(root, fn)
            mod = os.path.relpath(path, PKG)
            with open(path) as fh:
                tree = ast.parse(fh.read(), filename=path)
            out["modules"].append(mod)
            for node in tree.body:
                if isinstance(node, (ast.Assign, ast.AnnAssign)):
                    tgts = node.targets if isinstance(node, ast.Assign) else [node.target]
                    for t in tgts:
                        out["module_state"].append((mod, ast.unparse(t), ast.unparse(node.value) if node.value is not None else ""))
                elif isinstance(node, (ast.AugAssign, ast.Expr)) and not (isinstance(node, ast.Expr) and isinstance(node.value, ast.Constant)):
                    out["module_state"].append((mod, "<statement>", ast.unparse(node)))
            def do_func(f, cls, prefix):
                qual = prefix + f.name
                info = FuncInfo(mod, qual, cls, f, out)
                for d in f.args.defaults + [d for d in f.args.kw_defaults if d is not None]:
                    if not isinstance(d, ast.Constant) and not (isinstance(d, ast.UnaryOp) and isinstance(d.operand, ast.Constant)) \
                            and not isinstance(d, (ast.Attribute, ast.Name)):
                        out["default_args"].append((mod, qual, ast.unparse(d)))
                for s in f.body:
                    info.visit(s)
                # `if <observer test>: return` at the top level of a function: everything after it runs only for observers
                for idx, st in enumerate(f.body):
                    if isinstance(st, ast.If) and any(w in ast.unparse(st.test) for w in OBSERVER_WORDS) \
                            and len(st.body) == 1 and isinstance(st.body[0], ast.Return) and not st.orelse:
                        out["observer_sites"].append((mod, qual, "after: " + ast.unparse(st.test), info.effects_of(f.body[idx + 1:]), []))
                for attr, line in sorted(info.stores.items()):
                    out["self_first_use"].append((mod, qual, attr, line - f.lineno, info.loads.get(attr, 10 ** 6) - f.lineno))
            def walk(body, cls, prefix):
                for node in body:
                    if isinstance(node, (ast.FunctionDef, ast.AsyncFunctionDef)):
                        do_func(node, cls, prefix)
                    elif isinstance(node, ast.ClassDef):
                        for s in node.body:
                            if isinstance(s, (ast.Assign, ast.AnnAssign)) and s.value is not None and \
                                    isinstance(s.value, (ast.List, ast.Dict, ast.Set, ast.Call)) and \
                                    not (isinstance(s.value, ast.Call) and ast.unparse(s.value.func) in ("auto", "float", "int", "field")):
                                tg = s.targets[0] if isinstance(s, ast.Assign) else s.target
                                out["module_state"].append((mod, node.name + "." + ast.unparse(tg), ast.unparse(s.value)))
                        walk(node.body, node.name, node.name + ".")
            walk(tree.body, None, "")
    return out


def emit(out, path):
    L = []
    L.append("(* Facts.v — REGENERATED from /repo/pygradflow by /verif/harness/facts.py on every run; do not edit. *)")
    L.append("From Coq Require Import String List ZArith.")
    L.append("Import ListNotations.")
    L.append("Open Scope string_scope.")
    L.append("")
    def deflist(name, ty, rows):
        L.append("Definition %s : list (%s) := [" % (name, ty))
        L.append(";\n".join("  " + r for r in rows))
        L.append("].")
        L.append("")
    deflist("modules", "string", [q(m) for m in out["modules"]])
    deflist("iterate_sites", "string * string * string * string", ["(%s, %s, %s, %s)" % tuple(q(x) for x in r) for r in out["iterate_sites"]])
    deflist("eval_sites", "string * string * string * string * string", ["(%s, %s, %s, %s, %s)" % tuple(q(x) for x in r) for r in out["eval_sites"]])
    deflist("guarded_calls", "string * string * string * list string",
            ["(%s, %s, %s, %s)" % (q(r[0]), q(r[1]), q(r[2]), qlist(r[3])) for r in out["guarded_calls"]])
    deflist("raise_sites", "string * string * string * list string",
            ["(%s, %s, %s, %s)" % (q(r[0]), q(r[1]), q(r[2]), qlist(r[3])) for r in out["raise_sites"]])
    deflist("assert_sites", "string * string * string", ["(%s, %s, %s)" % tuple(q(x) for x in r) for r in out["assert_sites"]])
    deflist("observer_sites", "string * string * string * list string * list string",
            ["(%s, %s, %s, %s, %s)" % (q(r[0]), q(r[1]), q(r[2]), qlist(r[3]), qlist(r[4])) for r in out["observer_sites"]])
    deflist("creation_sites", "string * string * string", ["(%s, %s, %s)" % tuple(q(x) for x in r) for r in out["creation_sites"]])
    deflist("self_stores", "string * string * string * string", ["(%s, %s, %s, %s)" % tuple(q(x) for x in r) for r in out["self_stores"]])
    deflist("self_first_use", "string * string * string * Z * Z",
            ["(%s, %s, %s, %d%%Z, %d%%Z)" % (q(r[0]), q(r[1]), q(r[2]), r[3], r[4]) for r in out["self_first_use"]])
    deflist("module_state", "string * string * string", ["(%s, %s, %s)" % tuple(q(x) for x in r) for r in out["module_state"]])
    deflist("default_args", "string * string * string", ["(%s, %s, %s)" % tuple(q(x) for x in r) for r in out["default_args"]])
    deflist("handler_bodies", "string * string * string * list string",
            ["(%s, %s, %s, %s)" % (q(r[0]), q(r[1]), q(r[2]), qlist(r[3])) for r in out["handler_bodies"]])
    deflist("inplace_ops", "string * string * string * string * list string",
            ["(%s, %s, %s, %s, %s)" % (q(r[0]), q(r[1]), q(r[2]), q(r[3]), qlist(r[4])) for r in out["inplace_ops"]])
    with open(path, "w") as fh:
        fh.write("\n".join(L) + "\n")


if __name__ == "__main__":
    o = extract()
    emit(o, sys.argv[1] if len(sys.argv) > 1 else "/tmp/Facts.v")
    for k, v in o.items():
        print(k, len(v))
