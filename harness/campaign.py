"""Real solves of the real solver on generated problems, recorded from outside (no hooks in /repo):
every callback evaluation, every trial step, every ComputedStep announcement, the result or the escaping
exception.  The per-property oracles in this file are written directly from the property texts; they are the
search procedure for concrete failing inputs and the validation of the models against unmodelled glue.  They
are not the proof."""
import copy
import logging
import sys
import traceback

sys.path.insert(0, __import__("os").environ.get("VERIF_REPO", "/repo"))
import numpy as np

from .qp import INF, QuadProblem, Spec

STATUS = ["Optimal", "IterationLimit", "TimeLimit", "Unbounded", "LocallyInfeasible"]


# ------------------------------------------------------------------------------------------------ problems
def convex_qp(g, n=None, m=None, kinds=None, scale_mag=0):
    """strictly convex QP, affine rows, feasible by construction (a point xf in the box, rows built around c(xf))"""
    r = g.rng
    n = n or r.randint(1, 4)
    m = r.randint(0, 3) if m is None else m
    P = [[0.0] * n for _ in range(n)]
    for i in range(n):
        P[i][i] = float(r.randint(2, 6)) * 2.0 ** scale_mag
    for i in range(n):
        for j in range(i):
            if r.random() < 0.4:
                v = r.choice([-1.0, -0.5, 0.5, 1.0]) * 2.0 ** scale_mag
                P[i][j] = P[j][i] = v
    q = [g.dy(kmax=12, jmax=1) * 2.0 ** scale_mag for _ in range(n)]
    lb, ub, vk = g.var_bounds(n)
    xf = g.point_in_box(lb, ub)
    B = [[r.choice([-2.0, -1.0, 0.0, 1.0, 2.0, 0.5]) for _ in range(n)] for _ in range(m)]
    for i in range(m):
        if all(v == 0.0 for v in B[i]):
            B[i][r.randrange(n)] = 1.0
    cf = [sum(B[i][j] * xf[j] for j in range(n)) for i in range(m)]
    cl, cu = [], []
    for i in range(m):
        k = r.choice(kinds or ["eq", "eq0", "lower", "upper", "range"])
        w = r.randint(1, 6) / 2.0
        if k == "eq":
            cl.append(cf[i]); cu.append(cf[i])
        elif k == "eq0":
            cl.append(0.0); cu.append(0.0)
        elif k == "lower":
            cl.append(cf[i] - r.choice([0.0, w])); cu.append(INF)
        elif k == "upper":
            cl.append(-INF); cu.append(cf[i] + r.choice([0.0, w]))
        else:
            a = r.choice([0.0, w / 2])
            cl.append(cf[i] - a); cu.append(cf[i] - a + w)
    c0 = [0.0] * m
    for i in range(m):
        if cl[i] == 0.0 and cu[i] == 0.0:
            c0[i] = -cf[i]
    A = [[[0.0] * n for _ in range(n)] for _ in range(m)]
    return Spec(P, q, 0.0, A, B, c0, lb, ub, cl, cu)


def nonlinear(g):
    s = g.spec(nmax=3, mmax=2, nonlinear=True)
    for i in range(s.n):                       # make the objective convex so that runs tend to converge
        s.P[i][i] = abs(s.P[i][i]) + 4.0
    return s


def infeasible(g):
    n = g.rng.randint(1, 3)
    s = convex_qp(g, n=n, m=0)
    B = [[1.0] + [0.0] * (n - 1), [1.0] + [0.0] * (n - 1)]
    return Spec(s.P, s.q, 0.0, [[[0.0] * n for _ in range(n)]] * 2, B, [0.0, 0.0], s.lb, s.ub, [1.0, -INF], [INF, -1.0])


def unbounded(g):
    n = g.rng.randint(1, 3)
    P = [[0.0] * n for _ in range(n)]
    q = [1.0] + [0.0] * (n - 1)
    lb = [-INF] + [0.0] * (n - 1)
    ub = [4.0] + [1.0] * (n - 1)
    return Spec(P, q, 0.0, [], [], [], lb, ub, [], [])


def unbounded_cons(g):
    """objective unbounded below along x0 on the feasible set, with an equality row that is far from being satisfied at
    the start: the objective limit is crossed long before the row is met"""
    r = g.rng
    n = r.randint(2, 3)
    P = [[0.0] * n for _ in range(n)]
    for j in range(1, n):
        P[j][j] = 1.0
    q = [1.0] + [0.0] * (n - 1)
    K = float(r.choice([20, 100, 400]))
    B = [[1.0, 1.0] + [0.0] * (n - 2)]
    return Spec(P, q, 0.0, [[[0.0] * n for _ in range(n)]], B, [0.0], [-INF] * n, [INF] * n, [-K], [-K])


def line1(g):
    """one free variable, no rows, data off the dyadic grid: every accepted step is collinear with the others, so path
    length and end-to-end distance agree up to rounding (the quotient must still be reported >= 1)"""
    r = g.rng
    a = r.choice([0.7, 2.0, 1.0, 1.3, 3.1])
    t = r.choice([3.0, 10.0 / 3.0, 0.3, 7.0 / 9.0, -2.2])
    return Spec([[a]], [-a * t], 0.0, [], [], [], [-INF], [INF], [], [])


def separable(g):
    """objective in x0 only, one equality row in x1 only: grad f is orthogonal to J^T c at every point (the
    ParetoDecrease policy divides by their inner product only when it is not ~0)"""
    r = g.rng
    n = 2
    P = [[0.0, 0.0], [0.0, 0.0]]
    q = [r.choice([1.0, -1.0, 2.0]), 0.0]
    t = float(r.randint(-3, 3))
    return Spec(P, q, 0.0, [[[0.0] * n for _ in range(n)]], [[0.0, 1.0]], [-t], [0.0, -INF], [4.0, INF], [0.0], [0.0])


def ill_conditioned(g):
    """a diagonal, strictly convex QP whose Newton matrices have a condition number beyond 1/eps: solvable to full
    accuracy by LU all the same"""
    r = g.rng
    big = 10.0 ** r.choice([17, 18, 20])
    return Spec([[big, 0.0], [0.0, 1.0]], [-1.0, -1.0], 0.0, [], [], [], [-INF, -INF], [INF, INF], [], [])


def vertex(g):
    """a box QP whose solution is a vertex of the box: every variable ends up active"""
    r = g.rng
    n = r.randint(1, 3)
    P = [[0.0] * n for _ in range(n)]
    for i in range(n):
        P[i][i] = 1.0
    q = [r.choice([-64.0, 64.0]) for _ in range(n)]
    return Spec(P, q, 0.0, [], [], [], [0.0] * n, [1.0] * n, [], [])


FAMILIES = {"vertex": vertex, "separable": separable, "ill_conditioned": ill_conditioned, "convex_qp": convex_qp, "nonlinear": nonlinear, "infeasible": infeasible, "unbounded": unbounded,
            "unbounded_cons": unbounded_cons, "line1": line1}


# ------------------------------------------------------------------------------------------------ configurations
def gen_config(g, allow=None):
    r = g.rng
    step_solver = r.choice(["Standard", "Extended", "Symmetric", "Symmetric", "Asymmetric"])
    lin = r.choice(["LU", "LU", "LU", "GMRES", "MINRES"])
    if lin == "MINRES" and step_solver != "Symmetric":
        lin = "LU"
    cfg = {"newton_type": r.choice(["Simplified", "Full", "ActiveSet"]),
           "step_solver_type": step_solver, "linear_solver_type": lin,
           "step_control_type": r.choice(["Exact", "Fixed", "ResiduumRatio", "DistanceRatio", "DistanceRatio"]),
           "penalty_update": r.choice(["Constant", "DualNorm", "DualNorm", "DualEquilibration", "ParetoDecrease",
                                       "ObjectiveFilter", "LagrangianFilter"]),
           "active_set_type": r.choice(["Standard", "Standard", "SmallestActiveSet", "LargestActiveSet"]),
           "report_rcond": r.random() < 0.2, "collect_path": r.random() < 0.5,
           "rho": r.choice([1e-8, 1e-2, 1.0]), "iteration_limit": r.choice([60, 150, 400])}
    if allow:
        for k, v in allow.items():
            cfg[k] = r.choice(v) if isinstance(v, list) else v
    if cfg["linear_solver_type"] == "MINRES" and cfg["step_solver_type"] != "Symmetric":
        cfg["linear_solver_type"] = "LU"          # MINRES is only valid for the symmetric reduced system
    return cfg


def gen_scaling_kind(g, spec):
    r = g.rng
    k = r.choice(["none", "none", "custom", "custom", "Nominal", "GradJac", "KKT"])
    if k == "custom":
        return {"kind": "custom", "vw": g.weights(spec.n, 3), "cw": g.weights(spec.m, 3), "ow": r.randint(-2, 2)}
    return {"kind": k}


def make_params(cfg, sc, spec, x0, y0, enum_names=False):
    from pygradflow import params as PM
    from pygradflow.scale import Scaling
    kw = dict(cfg)
    enums = {"newton_type": PM.NewtonType, "step_solver_type": PM.StepSolverType, "linear_solver_type": PM.LinearSolverType,
             "step_control_type": PM.StepControlType, "penalty_update": PM.PenaltyUpdate, "active_set_type": PM.ActiveSetType,
             "precision": PM.Precision, "deriv_check": PM.DerivCheck}
    named = {}
    for k, E in enums.items():
        if k in kw and isinstance(kw[k], str):
            if enum_names and k != "deriv_check":
                named[k] = E[kw[k]]          # Params accepts the member's name and converts it
            else:
                kw[k] = E[kw[k]]
    scal = None
    if sc and sc["kind"] == "custom":
        scal = Scaling(np.array(sc["vw"], dtype=int), np.array(sc["cw"], dtype=int), int(sc["ow"]))
        kw.update(scaling=scal, scaling_type=PM.ScalingType.Custom)
    elif sc and sc["kind"] in ("Nominal", "GradJac", "KKT"):
        kw.update(scaling_type=PM.ScalingType[sc["kind"]], scaling_primal=np.array(x0, dtype=float),
                  scaling_dual=np.array(y0, dtype=float))
    params = PM.Params(**kw)
    # what the caller asked for is what the object holds (a constructor that silently edits a tolerance changes what
    # every status means)
    altered = []
    for k, v in kw.items():
        v = named.get(k, v)
        got = getattr(params, k, None)
        same = (got is v) or (isinstance(v, np.ndarray) and isinstance(got, np.ndarray) and np.array_equal(got, v)) \
            or (not isinstance(v, np.ndarray) and not isinstance(got, np.ndarray) and got == v)
        if not same:
            altered.append("%s: asked %r, holds %r" % (k, v, got))
    params._verif_altered = altered
    return params, scal


def params_snapshot(params):
    """value of every field of a Params object (arrays by content), to see whether a solve wrote into it"""
    snap = {}
    for k, v in sorted(vars(params).items()):
        if k.startswith("_verif"):
            continue
        if isinstance(v, np.ndarray):
            snap[k] = ("array", v.dtype.str, v.shape, v.tobytes())
        elif hasattr(v, "var_weights"):
            snap[k] = ("scaling", np.asarray(v.var_weights).tobytes(), np.asarray(v.cons_weights).tobytes(), int(v.obj_weight))
        else:
            snap[k] = repr(v)
    return snap


# ------------------------------------------------------------------------------------------------ one recorded solve
class Clock:
    """virtual clock: 1, 2, 3, ...; `deadline_at` = index of the read from which the time jumps far ahead"""

    def __init__(self, deadline_at=None):
        self.k = 0
        self.deadline_at = deadline_at

    def time(self):
        self.k += 1
        if self.deadline_at is not None and self.k > self.deadline_at:
            return 1e9 + self.k
        return float(self.k) * 1e-3


def innermost_frame(tb):
    fr = None
    for f in traceback.extract_tb(tb):
        if "/pygradflow/" in f.filename:
            fr = "%s:%s" % (f.filename.split("/pygradflow/")[-1], f.name)
    return fr


RUN_BOX = 120      # seconds; a single campaign solve takes well under two


def run(case, solver_obj=None, keep=False):
    from .timebox import Hang, TimeBox, time_box
    own = [False]
    try:
        with time_box(RUN_BOX) as mine:
            own[0] = mine
            return _run(case, solver_obj, keep)
    except TimeBox:
        if not own[0]:
            raise               # an enclosing, shorter box (integration solver campaigns) is in charge
        raise Hang("Solver.solve (campaign)", {k: v for k, v in case.items() if not k.startswith("_")}, RUN_BOX)


def _run(case, solver_obj=None, keep=False):
    """Runs one solve; returns a JSON-able record. case keys: spec, sc, cfg, x0, y0, prob (fmt, policy), obs (log_level,
    display_interval, callbacks), faults (see FaultyProblem / FaultyLinear), deadline_at, integration (bool)."""
    import pygradflow.timer as T
    import pygradflow.linear_solver as LS
    from pygradflow.callbacks import CallbackType
    from pygradflow.log import logger
    from pygradflow.solver import Solver

    spec = Spec.from_json(case["spec"]) if isinstance(case["spec"], dict) else case["spec"]
    evals = []
    pk = case.get("prob", {})
    prob = solver_obj.orig_problem if solver_obj is not None else None
    faults = case.get("faults") or {}
    if prob is None:
        prob = QuadProblem(spec, fmt=pk.get("fmt", "coo"), policy=pk.get("policy", "fresh"))
        if faults.get("eval") or faults.get("region"):
            prob = FaultyProblem(prob, faults)
    base = prob.inner if isinstance(prob, FaultyProblem) else prob
    lbv, ubv = np.array(spec.lb), np.array(spec.ub)
    exempt_depth = [0]

    def rec(name, x):
        inb = bool(np.all(x >= lbv) and np.all(x <= ubv))
        site = None
        if not inb:
            import inspect
            site = ["%s:%s" % (f.filename.split("/pygradflow/")[-1], f.function) for f in inspect.stack()[2:40]
                    if "/pygradflow/" in f.filename]
        evals.append((name, inb, site, [float(v) for v in x] if not inb else None))
    base.record = rec

    obs = case.get("obs") or {}
    cfg = dict(case["cfg"])
    if "display_interval" in obs:
        cfg["display_interval"] = obs["display_interval"]
    if "collect_path" in obs:
        cfg["collect_path"] = obs["collect_path"]
    if "report_rcond" in obs:
        cfg["report_rcond"] = obs["report_rcond"]
    x0 = np.array(case["x0"], dtype=float) if case["x0"] is not None else None       # None: the solver's default start
    y0 = np.array(case["y0"], dtype=float) if case["y0"] is not None else None
    if case.get("forms", {}).get("y0_scalar") and y0 is not None and y0.size and np.all(y0 == y0[0]):
        y0 = float(y0[0])                      # solve(x0, y0) takes a scalar for "the same multiplier everywhere"
    params, scal = (None, None)
    trials, ann = [], []
    out = {"evals_total": 0}
    old_time, old_ls, old_level = T.time, LS.linear_solver, logger.level
    clock = None
    if case.get("deadline_at") is not None or case.get("virtual_clock"):
        clock = Clock(case.get("deadline_at"))
        T.time = clock
    faulty_ls = None
    if faults.get("linear"):
        faulty_ls = FaultyLinear(old_ls, faults["linear"], trials)
        LS.linear_solver = faulty_ls
    logger.setLevel(getattr(logging, obs.get("log_level", "ERROR")))
    handler = None
    if obs.get("log_level") in ("DEBUG", "INFO", "WARNING"):
        handler = logging.NullHandler()
        logger.addHandler(handler)
    try:
        try:
            if solver_obj is None:
                params, scal = make_params(cfg, case.get("sc"), spec, case["x0"], case["y0"],
                                           enum_names=bool(case.get("forms", {}).get("enum_names")))
                if case.get("integration"):
                    from pygradflow.integration.integration_solver import IntegrationSolver
                    solver = IntegrationSolver(prob, params)
                else:
                    seen = []

                    def oid(o):
                        for k, s_ in enumerate(seen):
                            if s_ is o:
                                return k
                        seen.append(o)
                        return len(seen) - 1

                    class Sol(Solver):
                        def _compute_step(self, controller, iterate, rho, dt, display, timer):
                            self._verif_out["last_rho"] = float(rho)
                            res = super()._compute_step(controller, iterate, rho, dt, display, timer)
                            self._verif_trials.append({"z": iterate.z.tolist(), "rho": float(rho), "dt": float(dt),
                                           "zn": res.iterate.z.tolist(), "lamb": float(res.lamb), "acc": bool(res.accepted),
                                           "i": oid(iterate), "in": oid(res.iterate), "disp": bool(display)})
                            return res
                    solver = Sol(prob, params)
            else:
                solver = solver_obj
                params = solver.params
            if hasattr(solver, "_compute_step") and not case.get("integration"):
                solver._verif_trials, solver._verif_out = trials, out      # this run's recorders (also on a reused solver)
            # (through the public API only; on a reused solver the recorder of the earlier run stays registered and keeps
            # writing to its own list: a callback registered later must be told about every step all the same)
            if obs.get("callbacks", True) and not case.get("integration"):
                solver._verif_handle = solver.callbacks.register(
                    CallbackType.ComputedStep,
                    lambda it, nx, acc: ann.append({"z": it.z.tolist(), "zn": nx.z.tolist(), "acc": bool(acc),
                                                    "rho": float(getattr(solver, "rho", 0.0))}))
            out["constructed"] = True
            out["params_altered_at_construction"] = list(getattr(params, "_verif_altered", []))
            pbefore = params_snapshot(params)
            dbefore = params_snapshot(type(params)())
            try:
                res = solver.solve(x0, y0)
            finally:
                pafter, dafter = params_snapshot(params), params_snapshot(type(params)())
                out["params_mutated"] = sorted(k for k in pbefore if pbefore[k] != pafter.get(k)) + \
                    sorted("default." + k for k in dbefore if dbefore[k] != dafter.get(k))
            out.update(kind="status", status=res.status.name, x=[float(v) for v in res.x], y=[float(v) for v in res.y],
                       d=[float(v) for v in res.d], iters=int(res.iterations), nacc=int(res.num_accepted_steps),
                       dist_factor=float(res.dist_factor) if res.dist_factor is not None else None,
                       path=(np.asarray(res.path).T.tolist() if res.path is not None else None),
                       times=(np.asarray(res.model_times).tolist() if res.model_times is not None else None),
                       path_split=([int(np.asarray(res.primal_path).shape[0]), int(np.asarray(res.dual_path).shape[0]),
                                    int(res.num_vars), int(res.num_cons)] if res.path is not None else None))
        except Exception as e:
            msg = str(e)
            kind = "crash"
            if "exceeded maximum" in msg:
                kind = "lambda_error"
            elif "Failed to evaluate initial iterate" in msg:
                kind = "init_error"
            elif "Line search failed" in msg:
                kind = "linesearch_error"
            elif type(e).__name__ == "DerivError":
                kind = "deriv_error"
            elif not out.get("constructed"):
                kind = "construct_error"          # raised by Solver(...) / Params(...), before solve() was entered
            out.update(kind=kind, exc=type(e).__name__, msg=msg[:200], frame=innermost_frame(e.__traceback__),
                       tb=traceback.format_exc()[-700:] if kind == "crash" else None)
    finally:
        T.time, LS.linear_solver = old_time, old_ls
        logger.setLevel(old_level)
        if handler:
            logger.removeHandler(handler)
        base.record = None
    out["trials"] = list(trials)
    out["ann"] = list(ann)
    out["evals_total"] = len(evals)
    out["evals_out_of_box"] = [(n, s, x) for (n, inb, s, x) in evals if not inb][:20]
    out["evals_by_name"] = {k: sum(1 for e in evals if e[0] == k) for k in ("obj", "obj_grad", "cons", "cons_jac", "lag_hess")}
    out["reads"] = clock.k if clock else None
    out["faults_applied"] = prob.applied if isinstance(prob, FaultyProblem) else None
    out["linear_fault_trials"] = list(faulty_ls.fault_trials) if faulty_ls is not None else []
    out["scaling"] = None
    if params is not None and not case.get("integration"):
        try:
            tr = solver.transform
            if tr.scaling is not None:
                out["scaling"] = {"vw": [int(v) for v in tr.scaling.var_weights], "cw": [int(v) for v in tr.scaling.cons_weights],
                                  "ow": int(tr.scaling.obj_weight)}
        except Exception:
            pass
    if keep:
        out["_solver"] = solver
        out["_prob"] = prob
    return out


class FaultyProblem:
    """wraps a Problem: the k-th evaluation of callback `name` (counted over the whole run) returns a non-finite value;
    or every evaluation with x[0] beyond a threshold does (persistent region)."""

    def __init__(self, inner, faults):
        self.inner = inner
        self.faults = faults
        self.count = {}
        for a in ("var_lb", "var_ub", "cons_lb", "cons_ub", "num_vars", "num_cons", "var_bounded"):
            setattr(self, a, getattr(inner, a))

    def _bad(self, name, x):
        self.count[name] = self.count.get(name, 0) + 1
        ev = self.faults.get("eval")
        if ev and ev["name"] == name and self.count[name] == ev["k"]:
            return True
        rg = self.faults.get("region")
        if rg and rg["name"] in (name, "*") and x[rg.get("var", 0)] * rg["sign"] > rg["thr"] * rg["sign"]:
            return True
        return False

    # `applied` counts the poisonings that really took place (a matrix without stored entries cannot be poisoned)
    applied = 0

    def obj(self, x):
        v = self.inner.obj(x)
        if self._bad("obj", x):
            self.applied += 1
            return float("nan")
        return v

    def obj_grad(self, x):
        v = np.array(self.inner.obj_grad(x), dtype=float)
        if self._bad("obj_grad", x):
            self.applied += 1
            v[:] = np.inf
        return v

    def cons(self, x):
        v = np.array(self.inner.cons(x), dtype=float)
        if self._bad("cons", x) and len(v):
            self.applied += 1
            v[:] = np.nan
        return v

    def cons_jac(self, x):
        J = self.inner.cons_jac(x)
        if self._bad("cons_jac", x) and J.nnz:
            self.applied += 1
            J = J.copy().astype(float)
            J.data[:] = np.nan
        return J

    def lag_hess(self, x, y):
        H = self.inner.lag_hess(x, y)
        if self._bad("lag_hess", x) and H.nnz:
            self.applied += 1
            H = H.copy().astype(float)
            H.data[:] = np.inf
        return H


class FaultyLinear:
    """stands for pygradflow.linear_solver.linear_solver: the k-th factorisation, or the k-th solve, raises"""

    def __init__(self, real, spec, trials=None):
        self.real, self.spec = real, spec
        self.nfact = 0
        self.nsolve = 0
        self.trials = trials            # the list of recorded trials: its length tells during which trial a failure was injected
        self.fault_trials = []

    def __call__(self, mat, solver_type, symmetric=False):
        from pygradflow.linear_solver import LinearSolverError
        self.nfact += 1
        if self.spec.get("fact") == self.nfact:
            if self.trials is not None:
                self.fault_trials.append(len(self.trials))
            raise LinearSolverError("injected factorisation failure")
        inner = self.real(mat, solver_type, symmetric=symmetric)
        outer = self

        sym = getattr(inner, "symmetric", symmetric)

        class W:
            symmetric = sym

            def solve(self, rhs, trans=False, initial_sol=None):
                outer.nsolve += 1
                if outer.spec.get("solve") == outer.nsolve:
                    if outer.trials is not None:
                        outer.fault_trials.append(len(outer.trials))
                    raise LinearSolverError("injected solve failure")
                if outer.spec.get("estimator_solve") is not None:
                    # failures of the condition estimator's own back-solves only (the Newton solves are left alone, so a
                    # run without report_rcond is not affected at all)
                    import sys as _sys
                    f, from_estimator = _sys._getframe(1), False
                    for _ in range(6):
                        if f is None:
                            break
                        if f.f_code.co_filename.endswith("cond_estimate.py"):
                            from_estimator = True
                            break
                        f = f.f_back
                    if from_estimator:
                        outer.nest = getattr(outer, "nest", 0) + 1
                        if outer.nest == outer.spec["estimator_solve"]:
                            raise LinearSolverError("injected failure of a condition-estimator back-solve")
                return inner.solve(rhs, trans=trans, initial_sol=initial_sol)

            def num_neg_eigvals(self):
                return inner.num_neg_eigvals()

            def rcond(self):
                return inner.rcond()

        return W()


# ------------------------------------------------------------------------------------------------ oracles
def user_scaling(case, rec):
    spec = Spec.from_json(case["spec"]) if isinstance(case["spec"], dict) else case["spec"]
    sc = rec.get("scaling") or {"vw": [0] * spec.n, "cw": [0] * spec.m, "ow": 0}
    return spec, np.array(sc["vw"], dtype=float), np.array(sc["cw"], dtype=float), float(sc["ow"])


def oracle_C01(case, rec, opt_tol=1e-6, active_tol=1e-8):
    alt = [a for a in rec.get("params_altered_at_construction") or [] if a.split(":")[0] in ("opt_tol", "active_tol", "local_infeas_tol")]
    if alt and rec.get("status") == "Optimal":
        return "tolerance: Optimal is judged against a tolerance the caller did not ask for (%s)" % "; ".join(alt)
    if case["cfg"].get("precision") == "Single":
        return None          # the numeric KKT evaluation below assumes binary64 accuracy of the returned point
    """Optimal => KKT of the user's problem at (x, y, d), tolerances scaled by the power-of-two factors, plus a rounding
    allowance (the property is about a float computation)."""
    if rec.get("kind") != "status" or rec["status"] != "Optimal":
        return None
    spec, vw, cw, ow = user_scaling(case, rec)
    ref = QuadProblem(spec)
    x, y, d = np.array(rec["x"]), np.array(rec["y"]), np.array(rec["d"])
    n, m = spec.n, spec.m
    lb, ub, cl, cu = map(np.array, (spec.lb, spec.ub, spec.cl, spec.cu))
    if np.any(x < lb) or np.any(x > ub):
        return "bounds: returned x violates the variable bounds: %r" % x.tolist()
    g = ref.obj_grad(x)
    J = ref.cons_jac(x).toarray() if m else np.zeros((0, n))
    c = ref.cons(x) if m else np.zeros(0)
    u = 2.0 ** -52
    tol_c = opt_tol * 2.0 ** (-cw) + 64 * u * (np.abs(c) + np.abs(cl[np.isfinite(cl)]).sum() + 1)
    if m and (np.any(c < cl - tol_c) or np.any(c > cu + tol_c)):
        return "feasibility: Optimal with c(x) = %r outside [%r, %r]" % (c.tolist(), cl.tolist(), cu.tolist())
    terms = np.abs(g) + np.abs(J).T.dot(np.abs(y)) + np.abs(d)
    stat = g + J.T.dot(y) + d
    tol_s = opt_tol * 2.0 ** (vw - ow) + 64 * n * u * (terms + 1)
    if np.any(np.abs(stat) > tol_s):
        return "stationarity: Optimal with |grad f + J^T y + d| = %r, tolerance %r" % (np.abs(stat).tolist(), tol_s.tolist())
    # multiplier signs: y_i > 0 only if c_i at its upper bound, < 0 only at its lower bound (to tolerance)
    tol_y = opt_tol * 2.0 ** (cw - ow) * 1.0000001
    for i in range(m):
        if cl[i] == cu[i]:
            continue
        slack_tol = (active_tol + opt_tol) * 2.0 ** (-cw[i]) * 1.01 + 64 * u * (abs(c[i]) + 1)
        at_u = np.isfinite(cu[i]) and c[i] >= cu[i] - slack_tol
        at_l = np.isfinite(cl[i]) and c[i] <= cl[i] + slack_tol
        if y[i] > tol_y[i] and not at_u:
            return "multiplier_sign: y[%d] = %r > 0 although c = %r is not at its upper bound %r" % (i, y[i], c[i], cu[i])
        if y[i] < -tol_y[i] and not at_l:
            return "multiplier_sign: y[%d] = %r < 0 although c = %r is not at its lower bound %r" % (i, y[i], c[i], cl[i])
    for j in range(n):
        bt = active_tol * 2.0 ** (-vw[j]) * 1.01 + 8 * u * (abs(x[j]) + 1)
        at_u = np.isfinite(ub[j]) and x[j] >= ub[j] - bt
        at_l = np.isfinite(lb[j]) and x[j] <= lb[j] + bt
        if d[j] != 0.0 and not (at_u or at_l):
            return "bound_dual: d[%d] = %r at an inactive variable" % (j, d[j])
        if d[j] > 0 and not at_u:
            return "bound_dual: d[%d] = %r > 0 but x is not at its upper bound" % (j, d[j])
        if d[j] < 0 and not at_l:
            return "bound_dual: d[%d] = %r < 0 but x is not at its lower bound" % (j, d[j])
    return None


def oracle_C02(case, rec, opt_tol=1e-6, infeas_tol=1e-8, active_tol=1e-8, obj_lower=-1e10, counters=True):
    if rec.get("kind") != "status":
        return None
    spec, vw, cw, ow = user_scaling(case, rec)
    obj_lower = case["cfg"].get("obj_lower_limit", obj_lower)
    il = case["cfg"].get("iteration_limit")
    st = rec["status"]
    if counters:
        if il is not None and rec["iters"] > il:
            return "iteration_limit: %d iterations performed with limit %d" % (rec["iters"], il)
        if (st == "IterationLimit") != (il is not None and rec["iters"] == il):
            return "iteration_limit: status %s with %d iterations, limit %r" % (st, rec["iters"], il)
    ref = QuadProblem(spec)
    x = np.array(rec["x"])
    n, m = spec.n, spec.m
    cl, cu = np.array(spec.cl), np.array(spec.cu)
    c = ref.cons(x) if m else np.zeros(0)
    # distance of the scaled constraint values to their scaled bounds
    viol = np.maximum(np.maximum(cl - c, c - cu), 0.0) * 2.0 ** cw if m else np.zeros(0)
    if st == "Unbounded":
        if m and viol.max() > opt_tol * 1.0001 + 1e-12:
            return "unbounded: status Unbounded at a point violating the constraints by %r" % viol.max()
        if ref.obj(x) * 2.0 ** ow > obj_lower * (1 - 1e-12):
            return "unbounded: status Unbounded with scaled objective %r above the limit" % (ref.obj(x) * 2.0 ** ow)
    if st == "LocallyInfeasible":
        if not m or viol.max() <= opt_tol - active_tol - 1e-12:
            return "locally_infeasible: status LocallyInfeasible at a point feasible to tolerance (violation %r)" % (viol.max() if m else 0.0)
    return None


def oracle_C05(case, rec):
    """every evaluation at a point inside the user's bounds (derivative check and scaling point exempt)"""
    for name, site, x in rec.get("evals_out_of_box", []):
        fr = site or []
        if any(f.split(":")[-1] in ("deriv_check", "_deriv_check", "create_scaling") for f in fr):
            continue
        tag = "globalized_line_search" if "newton.py:step" in fr and case["cfg"].get("newton_type") == "Globalized" else "eval"
        own = [f for f in fr if not f.startswith(("eval.py", "iterate.py", "scale.py", "cons_problem.py"))]
        return "%s: %s evaluated outside the variable bounds at %r (issued by %s)" % (tag, name, x, " <- ".join(own[:3]))
    if rec.get("kind") == "status":
        spec = Spec.from_json(case["spec"]) if isinstance(case["spec"], dict) else case["spec"]
        x = np.array(rec["x"])
        if np.any(x < np.array(spec.lb)) or np.any(x > np.array(spec.ub)):
            return "result: returned x outside the variable bounds"
    return None


def oracle_C06(case, rec):
    k = rec.get("kind")
    if k == "crash":
        return "crash: %s escaped solve(): %s [%s]" % (rec.get("exc"), rec.get("msg"), rec.get("frame"))
    if k == "status":
        for nm in ("x", "y", "d"):
            if not np.all(np.isfinite(np.array(rec[nm], dtype=float))):
                return "nonfinite: result.%s is not finite" % nm
    return None


def oracle_C12(case, rec):
    if rec.get("kind") != "status":
        return None
    ann, trials = rec["ann"], rec["trials"]
    if case.get("obs", {}).get("callbacks", True) and rec["iters"] != len(ann):
        return "counters: iterations %d but %d announced steps" % (rec["iters"], len(ann))
    if rec["iters"] != len(trials):
        return "counters: iterations %d but %d step computations" % (rec["iters"], len(trials))
    moves = 0
    dts = []
    cur = trials[0]["i"] if trials else None
    curz = trials[0]["z"] if trials else None
    for k, t in enumerate(trials):
        if t["i"] != cur or t["z"] != curz:
            return "chain: trial %d starts at a point that is not the current iterate" % k
        if k < len(ann) and (ann[k]["z"] != t["z"] or ann[k]["zn"] != t["zn"]):
            return "chain: the step announced to callbacks at iteration %d is not the step that was computed" % k
        nxt = trials[k + 1]["i"] if k + 1 < len(trials) else None
        if nxt is not None and nxt != cur:
            if nxt != t["in"] or not t["acc"]:
                return "chain: the iterate moved to a point that was not an accepted step (trial %d)" % k
            moves += 1
            dts.append(t["dt"])
            cur = nxt
            curz = t["zn"]
    last_moved = 0
    if trials and rec["nacc"] == moves + 1 and trials[-1]["acc"]:
        last_moved = 1
        dts.append(trials[-1]["dt"])
        curz = trials[-1]["zn"]
    if trials and rec["nacc"] != moves + last_moved:
        return "counters: %d accepted steps reported, the iterate changed %d times" % (rec["nacc"], moves + last_moved)
    if curz is not None:
        spec, vw, cw, ow = user_scaling(case, rec)
        xu = np.ldexp(np.array(curz[:spec.n]), -vw.astype(int))
        if xu.tolist() != rec["x"]:
            return "final: the returned x is not the last accepted point"
    if rec.get("path") is not None:
        if len(rec["path"]) != rec["nacc"] + 1:
            return "path: %d columns, %d accepted steps" % (len(rec["path"]), rec["nacc"])
        ts = rec["times"]
        if len(dts) == rec["nacc"]:
            for k, dtk in enumerate(dts):
                # exactly: the binary64 sum of the previous model time and the step size used (in every precision mode)
                if ts[k + 1] != ts[k] + dtk:
                    return "model_times: step %d advanced the model time from %r to %r, the step size used was %r" % (k, ts[k], ts[k + 1], dtk)
    ps = rec.get("path_split")
    if ps is not None and (ps[0] != ps[2] or ps[1] != ps[3]):
        return "path: primal_path has %d rows and dual_path %d, the problem has %d variables and %d constraints" % tuple(ps)
    if rec.get("dist_factor") is not None and not rec["dist_factor"] >= 1.0:
        return "dist_factor: %r is not >= 1" % rec["dist_factor"]
    return None


def oracle_C15_C16(case, rec, lamb_init=1.0, lamb_max=1e12):
    trials = rec.get("trials") or []
    lam = case["cfg"].get("lamb_init", lamb_init)
    rho_prev = None
    for k, t in enumerate(trials):
        if abs(t["dt"] - 1.0 / lam) > 1e-15 * abs(t["dt"]):
            return "C15:dt_chain: trial %d used dt %r, previous trial returned lambda %r" % (k, t["dt"], lam)
        if not t["acc"] and t["lamb"] <= lam:
            return "C15:reject_shrinks: trial %d not accepted but lambda %r -> %r" % (k, lam, t["lamb"])
        if k > 0 and lam >= case["cfg"].get("lamb_max", lamb_max):
            return "C15:lamb_max: trial %d computed at lambda %r >= lamb_max" % (k, lam)
        if t["rho"] <= 0:
            return "C16:positive: trial %d used rho %r" % (k, t["rho"])
        if rho_prev is not None and t["rho"] < rho_prev:
            return "C16:monotone: trial %d used rho %r after %r" % (k, t["rho"], rho_prev)
        if case["cfg"].get("penalty_update") == "Constant" and t["rho"] != case["cfg"].get("rho", 1e-8):
            return "C16:constant: rho changed to %r under the constant policy" % t["rho"]
        rho_prev = t["rho"]
        lam = t["lamb"]
    return None


def same_run(a, b, what=("kind", "status", "x", "y", "d", "iters", "nacc", "msg")):
    for k in what:
        if a.get(k) != b.get(k):
            return "%s differs: %r vs %r" % (k, a.get(k), b.get(k))
    ta = [(t["z"], t["rho"], t["dt"], t["zn"], t["lamb"], t["acc"]) for t in a.get("trials", [])]
    tb = [(t["z"], t["rho"], t["dt"], t["zn"], t["lamb"], t["acc"]) for t in b.get("trials", [])]
    if "trials" not in what and (not ta or not tb):
        return None
    if ta != tb:
        n = next((i for i, (p, q) in enumerate(zip(ta, tb)) if p != q), min(len(ta), len(tb)))
        return "trial steps differ from trial %d on (%d vs %d trials)" % (n, len(ta), len(tb))
    return None


def gen_case(g, family=None, allow=None, scaling=True):
    r = g.rng
    family = family or r.choice(["convex_qp", "convex_qp", "convex_qp", "nonlinear", "infeasible", "unbounded"])
    spec = FAMILIES[family](g)
    x0 = g.point_in_box(spec.lb, spec.ub)
    if family == "line1":
        x0 = [r.choice([-1.1, 0.3, 0.0, 5.7, -0.9])]
    y0 = [0.0] * spec.m if r.random() < 0.5 else g.vec(spec.m, kmax=4, jmax=1)
    sc = gen_scaling_kind(g, spec) if scaling else {"kind": "none"}
    cfg = gen_config(g, allow)
    return {"family": family, "spec": spec.to_json(), "sc": sc, "cfg": cfg, "x0": x0, "y0": y0,
            "prob": {"fmt": r.choice(["coo", "csr", "csc"]), "policy": "fresh"}}
