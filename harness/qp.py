"""Quadratic test problems on a dyadic grid, as real pygradflow Problem subclasses.

f(x)   = 1/2 x'Px + q'x + r          (P symmetric)
c_i(x) = 1/2 x'A_i x + b_i'x + c0_i   (A_i symmetric)

All data are floats k/2^j, so on grid points every evaluation is exact in binary64 and equals the
rational value the Coq model computes."""
import sys

sys.path.insert(0, __import__("os").environ.get("VERIF_REPO", "/repo"))
import numpy as np
import scipy.sparse as sps
from pygradflow.problem import Problem

INF = float("inf")


class Spec:
    """JSON-serialisable description of a quadratic problem."""

    def __init__(self, P, q, r, A, B, c0, lb, ub, cl, cu):
        self.P = [list(map(float, row)) for row in P]
        self.q = list(map(float, q))
        self.r = float(r)
        self.A = [[list(map(float, row)) for row in Ai] for Ai in A]
        self.B = [list(map(float, row)) for row in B]
        self.c0 = list(map(float, c0))
        self.lb = list(map(float, lb))
        self.ub = list(map(float, ub))
        self.cl = list(map(float, cl))
        self.cu = list(map(float, cu))

    @property
    def n(self):
        return len(self.q)

    @property
    def m(self):
        return len(self.c0)

    def to_json(self):
        def enc(v):
            if isinstance(v, list):
                return [enc(x) for x in v]
            if v == INF:
                return "inf"
            if v == -INF:
                return "-inf"
            return v
        return {k: enc(getattr(self, k)) for k in ("P", "q", "r", "A", "B", "c0", "lb", "ub", "cl", "cu")}

    @staticmethod
    def from_json(d):
        def dec(v):
            if isinstance(v, list):
                return [dec(x) for x in v]
            if v == "inf":
                return INF
            if v == "-inf":
                return -INF
            return v
        return Spec(**{k: dec(v) for k, v in d.items()})

    # Gallina literal of the model's `qspec` record
    def to_coq(self):
        from .common import cmat, cvec, cq, clist, cbnds
        return ("(mk_qspec %s %s %s %s %s %s %s %s %s %s)"
                % (cmat(self.P), cvec(self.q), cq(self.r), clist([cmat(a) for a in self.A]),
                   cmat(self.B), cvec(self.c0), cbnds(self.lb), cbnds(self.ub), cbnds(self.cl),
                   cbnds(self.cu)))


class QuadProblem(Problem):
    """fmt: coo/csr/csc; policy: fresh | cached (one constant object per callback, only sound for
    constant derivatives) | memo (one object per evaluation point) | refill (one object per callback, overwritten
    with the new values on every call)."""

    def __init__(self, spec, fmt="coo", policy="fresh", explicit_zeros=False, record=None, dup=False, omit_zero_bounds=False):
        self.spec = spec
        self.P = np.array(spec.P, dtype=float).reshape(spec.n, spec.n)
        self.q = np.array(spec.q, dtype=float)
        self.r = spec.r
        self.A = [np.array(a, dtype=float).reshape(spec.n, spec.n) for a in spec.A]
        self.B = np.array(spec.B, dtype=float).reshape(spec.m, spec.n)
        self.c0 = np.array(spec.c0, dtype=float)
        self.fmt = fmt
        self.policy = policy
        self.explicit_zeros = explicit_zeros
        self.dup = dup
        self.record = record
        self._memo = {}
        lb = np.array(spec.lb, dtype=float)
        ub = np.array(spec.ub, dtype=float)
        if spec.m > 0:
            cl, cu = np.array(spec.cl, dtype=float), np.array(spec.cu, dtype=float)
            if omit_zero_bounds and np.all(cu == 0.0):
                super().__init__(lb, ub, cons_lb=cl)          # documented: a missing side defaults to zeros
            elif omit_zero_bounds and np.all(cl == 0.0):
                super().__init__(lb, ub, cons_ub=cu)
            else:
                super().__init__(lb, ub, cons_lb=cl, cons_ub=cu)
        else:
            super().__init__(lb, ub)

    def _rec(self, what, x):
        if self.record is not None:
            self.record(what, np.array(x, dtype=float))

    def _sparse(self, M, which="J"):
        M = np.atleast_2d(M)
        if self.explicit_zeros:
            r, c = np.indices(M.shape)
            S = sps.coo_matrix((M.ravel().copy(), (r.ravel(), c.ravel())), shape=M.shape)
        else:
            S = sps.coo_matrix(M)
        if self.dup:      # duplicate COO entries v = v/2 + v/2 (exact); summed by every conversion
            S = sps.coo_matrix((np.concatenate([S.data / 2.0, S.data / 2.0]),
                                (np.concatenate([S.row, S.row]), np.concatenate([S.col, S.col]))), shape=M.shape)
            if self.fmt == "coo":
                return S
        if self.fmt == "csc_dup":
            # a valid but non-canonical CSC matrix: every stored entry split into two halves in the same column
            C_ = sps.csc_matrix(sps.coo_matrix(M))
            C_.sort_indices()
            data = np.repeat(C_.data / 2.0, 2)
            indices = np.repeat(C_.indices, 2)
            indptr = C_.indptr * 2
            return sps.csc_matrix((data, indices, indptr), shape=M.shape)
        if self.fmt == "alt":        # a different storage format on every call (same matrix, other entry order)
            cnt = getattr(self, "_alt", None) or {}
            cnt[which] = cnt.get(which, 0) + 1          # each callback cycles through the formats on its own
            self._alt = cnt
            return S.asformat(["csr", "csc", "coo"][cnt[which] % 3])
        return S.asformat(self.fmt)

    def _ret(self, key, x, y, make):
        if self.policy == "fresh":
            return make()
        if self.policy == "refill":
            # one preallocated object per callback, refilled with the new values on every call (a callback may do
            # that: what it returned earlier is not guaranteed to stay; the identity of the object says nothing
            # about its contents)
            new = make()
            old = self._memo.get((key,))
            if old is not None and type(old) is type(new) and old.shape == new.shape:
                if isinstance(new, np.ndarray):
                    old[...] = new
                    return old
                if old.nnz == new.nnz and old.format == new.format:
                    same = all(np.array_equal(getattr(old, a), getattr(new, a))
                               for a in (("row", "col") if new.format == "coo" else ("indices", "indptr")))
                    if same:
                        old.data[...] = new.data
                        return old
            self._memo[(key,)] = new
            return new
        if self.policy == "cached" and key in ("J", "H"):      # constant derivatives only (affine rows, quadratic objective)
            k = (key,)
        else:
            k = (key, np.asarray(x).tobytes(), None if y is None else np.asarray(y).tobytes())
        if k not in self._memo:
            self._memo[k] = make()
        return self._memo[k]

    def obj(self, x):
        self._rec("obj", x)
        return float(0.5 * x.dot(self.P.dot(x)) + self.q.dot(x) + self.r)

    def obj_grad(self, x):
        self._rec("obj_grad", x)
        return self._ret("g", x, None, lambda: self.P.dot(x) + self.q)

    def cons(self, x):
        self._rec("cons", x)
        def make():
            v = self.B.dot(x) + self.c0
            for i, a in enumerate(self.A):
                v[i] += 0.5 * x.dot(a.dot(x))
            return v
        return self._ret("c", x, None, make)

    def cons_jac(self, x):
        self._rec("cons_jac", x)
        def make():
            J = self.B.copy()
            for i, a in enumerate(self.A):
                J[i, :] += a.dot(x)
            return self._sparse(J)
        return self._ret("J", x, None, make)

    def lag_hess(self, x, y):
        self._rec("lag_hess", x)
        def make():
            H = self.P.copy()
            for i, a in enumerate(self.A):
                H += y[i] * a
            return self._sparse(H, "H")
        return self._ret("H", x, y, make)
