"""Apply each seeded change, run the named check(s), undo.
Usage: python -m harness.seedtest [dir...] [--all] [--props=C01,C02] [--jobs=N]
Without --jobs the change is applied to /repo itself (git -C /repo apply ...; git -C /repo checkout -- .), the way the
checks are meant to be used.  With --jobs=N, N scratch worktrees of /repo (under the system temp dir, removed at the
end) are used in parallel, each check running with VERIF_REPO pointing at its worktree."""
import json, os, subprocess, sys, glob

def sh(cmd, timeout=None, **kw):
    # own process group, so that a check that overruns is killed together with its children
    import signal
    p = subprocess.Popen(cmd, shell=True, stdout=subprocess.PIPE, stderr=subprocess.STDOUT, text=True, start_new_session=True, **kw)
    try:
        out, _ = p.communicate(timeout=timeout)
    except subprocess.TimeoutExpired:
        os.killpg(p.pid, signal.SIGKILL)
        out, _ = p.communicate()
        return subprocess.CompletedProcess(cmd, 124, (out or "") + "\nTIMEOUT after %s s" % timeout, None)
    return subprocess.CompletedProcess(cmd, p.returncode, out, None)

def main():
    args = [a for a in sys.argv[1:] if not a.startswith("--")]
    dirs = args or sorted(glob.glob("/verif/seeded/*/"))
    props_override = None
    for a in sys.argv[1:]:
        if a.startswith("--props="):
            props_override = a.split("=", 1)[1].split(",")
    assert sh("git -C /repo status --porcelain").stdout.strip() == "", "repo not clean"
    results = {}
    import shutil, tempfile
    bak = tempfile.mkdtemp(prefix="verif_ev_")
    shutil.copytree("/verif/evidence", bak + "/evidence")
    try:
        results = _run(dirs, props_override)
    finally:
        shutil.rmtree("/verif/evidence")
        shutil.copytree(bak + "/evidence", "/verif/evidence")
        shutil.rmtree(bak)
    sh("rm -f /verif/replays/*/*.json")
    json.dump({"%s:%s" % k: v for k, v in results.items()}, open("/tmp/seedtest_last.json", "w"), indent=1)
    if "--all" in sys.argv:
        lines = ["# Seeded changes: what the checks report", "",
                 "Written by `python -m harness.seedtest --all` (each patch applied to /repo, the property's quick check run, the patch undone).", "",
                 "| change | property check | reported | how | what it needs to manifest |", "|---|---|---|---|---|"]
        for d in dirs:
            name = os.path.basename(d.rstrip("/"))
            meta = json.load(open(os.path.join(d, "meta.json")))
            for (n, p), v in sorted(results.items()):
                if n == name:
                    lines.append("| %s | %s | %s | %s | %s |" % (name, p, "yes" if v["violation"] else "NO", v["how"],
                                                              str(meta.get("needs", ""))[:160].replace("|", "/").replace("\n", " ")))
        open("/verif/seeded/RESULTS.md", "w").write("\n".join(lines) + "\n")
    return 0


def _one(d, props_override, repo):
    results = {}
    d = os.path.abspath(d.rstrip("/"))
    meta = json.load(open(os.path.join(d, "meta.json")))
    props = props_override or meta.get("checks") or [meta["property"]]
    r = sh("git -C %s apply %s/patch.diff" % (repo, d))
    if r.returncode != 0:
        print("%s: PATCH DOES NOT APPLY: %s" % (d, r.stdout[:200]), flush=True)
        return results
    try:
        for p in props:
            o = sh("cd /verif && VERIF_REPO=%s ./check %s --tier quick" % (repo, p), timeout=1800)
            viol = [l for l in o.stdout.splitlines() if l.startswith("VIOLATION")]
            print("%s  check=%s  exit=%d  %s" % (os.path.basename(d), p, o.returncode, (viol[0] if viol else "no violation")[:150]), flush=True)
            how = "-"
            if viol:
                how = "no-failing-input-found" if "no-failing-input-found" in viol[0] else "concrete failing input"
                try:
                    rp = json.load(open(viol[0].split("replay=")[1].split()[0]))
                    how += " (%s)" % rp.get("key")
                except Exception:
                    pass
            results[(os.path.basename(d), p)] = {"violation": bool(viol), "how": how}
    finally:
        sh("git -C %s checkout -- ." % repo)
    return results


def _run(dirs, props_override):
    jobs = 1
    for a in sys.argv[1:]:
        if a.startswith("--jobs="):
            jobs = int(a.split("=", 1)[1])
    results = {}
    if jobs <= 1:
        for d in dirs:
            results.update(_one(d, props_override, "/repo"))
        return results
    import queue, tempfile, threading
    root = tempfile.mkdtemp(prefix="verif_seed_wt_")
    wts = []
    for k in range(jobs):
        wt = os.path.join(root, "wt%d" % k)
        assert sh("git -C /repo worktree add -q --detach %s HEAD" % wt).returncode == 0
        wts.append(wt)
    q = queue.Queue()
    for d in dirs:
        q.put(d)
    lock = threading.Lock()

    def worker(wt):
        while True:
            try:
                d = q.get_nowait()
            except queue.Empty:
                return
            res = _one(d, props_override, wt)
            with lock:
                results.update(res)
    try:
        ts = [threading.Thread(target=worker, args=(wt,)) for wt in wts]
        [t.start() for t in ts]
        [t.join() for t in ts]
    finally:
        for wt in wts:
            sh("git -C /repo worktree remove --force %s" % wt)
        sh("git -C /repo worktree prune")
        import shutil
        shutil.rmtree(root, ignore_errors=True)
    return results

if __name__ == "__main__":
    sys.exit(main())
