"""Apply each seeded change to /repo, run the named check(s), undo. Usage: python -m harness.seedtest [dir...] [--tier quick]"""
import json, os, subprocess, sys, glob

def sh(cmd, **kw):
    return subprocess.run(cmd, shell=True, stdout=subprocess.PIPE, stderr=subprocess.STDOUT, text=True, **kw)

def main():
    args = [a for a in sys.argv[1:] if not a.startswith("--")]
    dirs = args or sorted(glob.glob("/verif/seeded/*/"))
    props_override = None
    for a in sys.argv[1:]:
        if a.startswith("--props="):
            props_override = a.split("=", 1)[1].split(",")
    assert sh("git -C /repo status --porcelain").stdout.strip() == "", "repo not clean"
    results = {}
    import shutil, tempfile
    bak = tempfile.mkdtemp(prefix="verif_ev_")
    shutil.copytree("/verif/evidence", bak + "/evidence")
    try:
        results = _run(dirs, props_override)
    finally:
        shutil.rmtree("/verif/evidence")
        shutil.copytree(bak + "/evidence", "/verif/evidence")
        shutil.rmtree(bak)
    sh("rm -f /verif/replays/*/*.json")
    json.dump({"%s:%s" % k: v for k, v in results.items()}, open("/tmp/seedtest_last.json", "w"), indent=1)
    return 0


def _run(dirs, props_override):
    results = {}
    for d in dirs:
        d = os.path.abspath(d.rstrip("/"))
        meta = json.load(open(os.path.join(d, "meta.json")))
        props = props_override or meta.get("checks") or [meta["property"]]
        r = sh("git -C /repo apply %s/patch.diff" % d)
        if r.returncode != 0:
            print("%s: PATCH DOES NOT APPLY: %s" % (d, r.stdout[:200])); continue
        try:
            for p in props:
                o = sh("cd /verif && ./check %s --tier quick" % p, timeout=1800)
                viol = [l for l in o.stdout.splitlines() if l.startswith("VIOLATION")]
                last = o.stdout.strip().splitlines()[-1] if o.stdout.strip() else ""
                print("%s  check=%s  exit=%d  %s" % (os.path.basename(d), p, o.returncode, (viol[0] if viol else "no violation")[:150]))
                results[(os.path.basename(d), p)] = bool(viol)
        finally:
            sh("git -C /repo checkout -- .")
    return results

if __name__ == "__main__":
    sys.exit(main())
