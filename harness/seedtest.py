"""Apply each seeded change to /repo, run the named check(s), undo. Usage: python -m harness.seedtest [dir...] [--tier quick]"""
import json, os, subprocess, sys, glob

def sh(cmd, **kw):
    return subprocess.run(cmd, shell=True, stdout=subprocess.PIPE, stderr=subprocess.STDOUT, text=True, **kw)

def main():
    args = [a for a in sys.argv[1:] if not a.startswith("--")]
    dirs = args or sorted(glob.glob("/verif/seeded/*/"))
    props_override = None
    for a in sys.argv[1:]:
        if a.startswith("--props="):
            props_override = a.split("=", 1)[1].split(",")
    assert sh("git -C /repo status --porcelain").stdout.strip() == "", "repo not clean"
    results = {}
    import shutil, tempfile
    bak = tempfile.mkdtemp(prefix="verif_ev_")
    shutil.copytree("/verif/evidence", bak + "/evidence")
    try:
        results = _run(dirs, props_override)
    finally:
        shutil.rmtree("/verif/evidence")
        shutil.copytree(bak + "/evidence", "/verif/evidence")
        shutil.rmtree(bak)
    sh("rm -f /verif/replays/*/*.json")
    json.dump({"%s:%s" % k: v for k, v in results.items()}, open("/tmp/seedtest_last.json", "w"), indent=1)
    if "--all" in sys.argv:
        lines = ["# Seeded changes: what the checks report", "",
                 "Written by `python -m harness.seedtest --all` (each patch applied to /repo, the property's quick check run, the patch undone).", "",
                 "| change | property check | reported | how | what it needs to manifest |", "|---|---|---|---|---|"]
        for d in dirs:
            name = os.path.basename(d.rstrip("/"))
            meta = json.load(open(os.path.join(d, "meta.json")))
            for (n, p), v in sorted(results.items()):
                if n == name:
                    lines.append("| %s | %s | %s | %s | %s |" % (name, p, "yes" if v["violation"] else "NO", v["how"],
                                                              str(meta.get("needs", ""))[:160].replace("|", "/").replace("\n", " ")))
        open("/verif/seeded/RESULTS.md", "w").write("\n".join(lines) + "\n")
    return 0


def _run(dirs, props_override):
    results = {}
    for d in dirs:
        d = os.path.abspath(d.rstrip("/"))
        meta = json.load(open(os.path.join(d, "meta.json")))
        props = props_override or meta.get("checks") or [meta["property"]]
        r = sh("git -C /repo apply %s/patch.diff" % d)
        if r.returncode != 0:
            print("%s: PATCH DOES NOT APPLY: %s" % (d, r.stdout[:200])); continue
        try:
            for p in props:
                o = sh("cd /verif && ./check %s --tier quick" % p, timeout=1800)
                viol = [l for l in o.stdout.splitlines() if l.startswith("VIOLATION")]
                last = o.stdout.strip().splitlines()[-1] if o.stdout.strip() else ""
                print("%s  check=%s  exit=%d  %s" % (os.path.basename(d), p, o.returncode, (viol[0] if viol else "no violation")[:150]))
                how = "-"
                if viol:
                    how = "no-failing-input-found" if "no-failing-input-found" in viol[0] else "concrete failing input"
                    try:
                        rp = json.load(open(viol[0].split("replay=")[1].split()[0]))
                        how += " (%s)" % rp.get("key")
                    except Exception:
                        pass
                results[(os.path.basename(d), p)] = {"violation": bool(viol), "how": how}
        finally:
            sh("git -C /repo checkout -- .")
    return results

if __name__ == "__main__":
    sys.exit(main())
