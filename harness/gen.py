"""Seeded generators on the dyadic grid (DESIGN 3.2). One PRNG state per run."""
import random

from .qp import INF, Spec


class Gen:
    def __init__(self, seed):
        self.rng = random.Random(seed)

    def dy(self, kmax=16, jmax=2):
        """k / 2^j"""
        j = self.rng.randint(0, jmax)
        return self.rng.randint(-kmax, kmax) / float(2 ** j)

    def small(self, kmax=4):
        return float(self.rng.randint(-kmax, kmax))

    def vec(self, n, **kw):
        return [self.dy(**kw) for _ in range(n)]

    def sparse_vec(self, n, density=0.6, **kw):
        return [self.dy(**kw) if self.rng.random() < density else 0.0 for _ in range(n)]

    def sym(self, n, density=0.5, kmax=4, jmax=1):
        M = [[0.0] * n for _ in range(n)]
        for i in range(n):
            for j in range(i, n):
                if self.rng.random() < density:
                    v = self.dy(kmax=kmax, jmax=jmax)
                    M[i][j] = v
                    M[j][i] = v
        return M

    def var_bounds(self, n):
        """every kind of variable: free, lower, upper, boxed, fixed"""
        lb, ub, kinds = [], [], []
        for _ in range(n):
            k = self.rng.choice(["free", "lower", "upper", "box", "box", "fixed"])
            a = self.dy(kmax=8, jmax=1)
            w = self.rng.randint(1, 8) / 2.0
            if k == "free":
                l, u = -INF, INF
            elif k == "lower":
                l, u = a, INF
            elif k == "upper":
                l, u = -INF, a
            elif k == "box":
                l, u = a, a + w
            else:
                l, u = a, a
            lb.append(l)
            ub.append(u)
            kinds.append(k)
        return lb, ub, kinds

    def cons_bounds(self, m):
        """every kind of row: equality (zero or offset), one-sided, ranged"""
        cl, cu, kinds = [], [], []
        for _ in range(m):
            k = self.rng.choice(["eq0", "eq", "lower", "upper", "range"])
            a = self.dy(kmax=8, jmax=1)
            w = self.rng.randint(1, 8) / 2.0
            if k == "eq0":
                l, u = 0.0, 0.0
            elif k == "eq":
                l, u = a, a
            elif k == "lower":
                l, u = a, INF
            elif k == "upper":
                l, u = -INF, a
            else:
                l, u = a, a + w
            cl.append(l)
            cu.append(u)
            kinds.append(k)
        return cl, cu, kinds

    def spec(self, nmax=4, mmax=3, nonlinear=True, m=None, n=None):
        n = self.rng.randint(1, nmax) if n is None else n
        m = self.rng.randint(0, mmax) if m is None else m
        P = self.sym(n)
        q = self.vec(n, kmax=8, jmax=1)
        r = self.dy(kmax=8, jmax=1)
        A = []
        for _ in range(m):
            if nonlinear and self.rng.random() < 0.6:
                A.append(self.sym(n, density=0.4, kmax=2, jmax=0))
            else:
                A.append([[0.0] * n for _ in range(n)])
        B = [self.sparse_vec(n, kmax=4, jmax=1) for _ in range(m)]
        c0 = self.vec(m, kmax=8, jmax=1)
        lb, ub, vk = self.var_bounds(n)
        cl, cu, ck = self.cons_bounds(m)
        s = Spec(P, q, r, A, B, c0, lb, ub, cl, cu)
        s.var_kinds, s.cons_kinds = vk, ck
        return s

    def point_in_box(self, lb, ub, jmax=2):
        x = []
        for l, u in zip(lb, ub):
            c = self.rng.random()
            if l == u:
                x.append(l)
            elif c < 0.2 and l > -INF:
                x.append(l)
            elif c < 0.4 and u < INF:
                x.append(u)
            else:
                lo = l if l > -INF else (u - 8 if u < INF else -8.0)
                hi = u if u < INF else lo + 8
                k = self.rng.randint(0, 2 ** jmax * 8)
                x.append(min(hi, lo + k / float(2 ** jmax)))
        return x

    def point_any(self, lb, ub, jmax=2):
        """inside, on and outside the bounds"""
        x = self.point_in_box(lb, ub, jmax)
        for i in range(len(x)):
            c = self.rng.random()
            if c < 0.15:
                x[i] = x[i] + self.rng.randint(1, 8) / 4.0
            elif c < 0.3:
                x[i] = x[i] - self.rng.randint(1, 8) / 4.0
        return x

    def weights(self, n, wmax=4):
        return [self.rng.randint(-wmax, wmax) for _ in range(n)]
